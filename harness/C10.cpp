// C10 -- Prescribed motion and locks are honoured exactly.
// Engine E2 + twin-system differential: for every (governed mobilizer kind x role x coordinate option x
// governance kind) all operation histories up to a depth over {lock(level), lockAt(level), unlock, Motion
// disable/enable, set q/u, set time, prescribe, realize} are replayed on the real system; after each,
// prescribe+realize(Acceleration) must give (1) governed q/u/udot equal to the prescribed values of a
// boring harness model of "who governs this mobilizer now", (2) zero motion errors at all three levels,
// (3) accelerations equal to those of a TWIN system without any prescription in which the reported
// motion forces are applied as ordinary mobility forces, and bitwise equal to the twin when nothing governs.
//
// Section "constrained": the same governance alphabet on a four-body tree (Ground-A-B-D, Ground-C) that ALSO carries
// constraints (Rod / Ball closing a loop through or around the governed mobilizer, ConstantSpeed / ConstantAcceleration on
// a free mobility, CoordinateCouplers of free coordinates and of a governed with a free coordinate, several at once) and
// optionally a SECOND governed mobilizer (locked or driven by a Motion) -- see runConstrained().
#include "Simbody.h"
#include "verif.h"
#include "models.h"
#include "consmodels.h"

using namespace SimTK;

// ---------------------------------------------------------------- governance kinds for the governed body
enum Gov { GFree, GSteady, GSinP, GSinV, GSinA, GCustomP, GCustomV, GDefLockP, GDefLockV, GDefLockA, GQuatP, GCustomA, GCustomVq, NGOV };
static const char* govName(int g) { static const char* n[] = {"free", "Steady", "Sinusoid(P)", "Sinusoid(V)", "Sinusoid(A)", "Custom(P)", "Custom(V)", "lockByDefault(P)", "lockByDefault(V)", "lockByDefault(A)", "CustomQuaternion(P)", "Custom(A)", "Custom(V,q-dependent)"}; return n[g]; }
static const Real SA = 0.35, SW = 1.7, SP = 0.4;    // sinusoid amplitude, rate, phase
static const Real STEADY = 0.7;

// custom motion: per-coordinate polynomial c0+c1 t+c2 t^2 with coordinate-dependent coefficients.  At Acceleration level
// (only calcPrescribedAcceleration is implemented) udot = udot(t,q,u) as the documentation allows: a linear function of
// time plus a function of ALL positions and speeds of the system.
class PolyMotion : public Motion::Custom::Implementation {
public:
    explicit PolyMotion(Motion::Level l) : level(l) {}
    Implementation* clone() const override { return new PolyMotion(*this); }
    Motion::Level getLevel(const State&) const override { return level; }
    static Real c0(int i) { return 0.2 - 0.1 * i; } static Real c1(int i) { return 0.3 + 0.05 * i; } static Real c2(int i) { return -0.4 + 0.1 * i; }
    void calcPrescribedPosition(const State& s, int nq, Real* q) const override { Real t = s.getTime(); for (int i = 0; i < nq; ++i) q[i] = c0(i) + c1(i) * t + c2(i) * t * t; }
    void calcPrescribedPositionDot(const State& s, int nq, Real* qd) const override { Real t = s.getTime(); for (int i = 0; i < nq; ++i) qd[i] = c1(i) + 2 * c2(i) * t; }
    void calcPrescribedPositionDotDot(const State&, int nq, Real* qdd) const override { for (int i = 0; i < nq; ++i) qdd[i] = 2 * c2(i); }
    void calcPrescribedVelocity(const State& s, int nu, Real* u) const override { Real t = s.getTime(); for (int i = 0; i < nu; ++i) u[i] = c0(i) + c1(i) * t + c2(i) * t * t; }
    void calcPrescribedVelocityDot(const State& s, int nu, Real* ud) const override { Real t = s.getTime(); for (int i = 0; i < nu; ++i) ud[i] = c1(i) + 2 * c2(i) * t; }
    static Real accelOf(const State& s, int i) {
        const Vector& q = s.getQ(); const Vector& u = s.getU(); Real w = 0;
        for (int j = 0; j < q.size(); ++j) w += 0.1 * std::sin(q[j]);
        for (int j = 0; j < u.size(); ++j) w -= 0.05 * u[j];
        return c1(i) + 0.5 * c0(i) * s.getTime() + w;
    }
    void calcPrescribedAcceleration(const State& s, int nu, Real* ud) const override { for (int i = 0; i < nu; ++i) ud[i] = accelOf(s, i); }
    Motion::Level level;
};
// velocity-level custom motion u = u(t,q): the polynomial plus a function of the first coordinate of ANOTHER mobilizer
// (an angle with qdot = u); udot is its exact time derivative (needs that mobilizer's qdot).
static const Real VQAMP = 0.25;
class PolyMotionVq : public Motion::Custom::Implementation {
public:
    PolyMotionVq(const SimbodyMatterSubsystem& m, MobilizedBodyIndex o) : matter(&m), other(o) {}
    Implementation* clone() const override { return new PolyMotionVq(*this); }
    Motion::Level getLevel(const State&) const override { return Motion::Velocity; }
    void calcPrescribedVelocity(const State& s, int nu, Real* u) const override {
        const Real t = s.getTime(), qo = matter->getMobilizedBody(other).getOneQ(s, 0);
        for (int i = 0; i < nu; ++i) u[i] = PolyMotion::c0(i) + PolyMotion::c1(i) * t + PolyMotion::c2(i) * t * t + VQAMP * std::sin(qo);
    }
    void calcPrescribedVelocityDot(const State& s, int nu, Real* ud) const override {
        const Real t = s.getTime(), qo = matter->getMobilizedBody(other).getOneQ(s, 0), qdo = matter->getMobilizedBody(other).getOneQDot(s, 0);
        for (int i = 0; i < nu; ++i) ud[i] = PolyMotion::c1(i) + 2 * PolyMotion::c2(i) * t + VQAMP * std::cos(qo) * qdo;
    }
    const SimbodyMatterSubsystem* matter; MobilizedBodyIndex other;
};

// position-level motion for quaternion mobilizers: rotation about a fixed axis A by theta(t) = T0 + T1 t + T2 t^2/2 (unit
// quaternion trajectory with analytic first and second derivatives); translational q's (Free) follow PolyMotion's polynomials
static const Vec3 QA = Vec3(0.36, -0.48, 0.8);      // unit axis
static const Real QT0 = 0.5, QT1 = 0.9, QT2 = -0.7;
class QuatMotion : public Motion::Custom::Implementation {
public:
    Implementation* clone() const override { return new QuatMotion(*this); }
    Motion::Level getLevel(const State&) const override { return Motion::Position; }
    static void th(Real t, Real& a, Real& ad, Real& add) { a = QT0 + QT1 * t + 0.5 * QT2 * t * t; ad = QT1 + QT2 * t; add = QT2; }
    void calcPrescribedPosition(const State& s, int nq, Real* q) const override {
        Real a, ad, add; th(s.getTime(), a, ad, add); q[0] = std::cos(a / 2); for (int i = 0; i < 3; ++i) q[1 + i] = QA[i] * std::sin(a / 2);
        Real t = s.getTime(); for (int i = 4; i < nq; ++i) q[i] = PolyMotion::c0(i) + PolyMotion::c1(i) * t + PolyMotion::c2(i) * t * t;
    }
    void calcPrescribedPositionDot(const State& s, int nq, Real* qd) const override {
        Real a, ad, add; th(s.getTime(), a, ad, add); qd[0] = -0.5 * ad * std::sin(a / 2); for (int i = 0; i < 3; ++i) qd[1 + i] = 0.5 * ad * QA[i] * std::cos(a / 2);
        Real t = s.getTime(); for (int i = 4; i < nq; ++i) qd[i] = PolyMotion::c1(i) + 2 * PolyMotion::c2(i) * t;
    }
    void calcPrescribedPositionDotDot(const State& s, int nq, Real* qdd) const override {
        Real a, ad, add; th(s.getTime(), a, ad, add);
        qdd[0] = -0.5 * add * std::sin(a / 2) - 0.25 * ad * ad * std::cos(a / 2);
        for (int i = 0; i < 3; ++i) qdd[1 + i] = QA[i] * (0.5 * add * std::cos(a / 2) - 0.25 * ad * ad * std::sin(a / 2));
        for (int i = 4; i < nq; ++i) qdd[i] = 2 * PolyMotion::c2(i);
    }
};

// attach the Motion (or default lock) of governance kind `gov` to gb; `other` = body read by the q-dependent velocity
// motion.  Returns true when a Motion object was created.
static bool attachMotion(mb::Model& M, MobilizedBody& gb, int gov, const MobilizedBody& other, Motion& out) {
    switch (gov) {
        case GSteady: out = Motion::Steady(gb, STEADY); return true;
        case GSinP: out = Motion::Sinusoid(gb, Motion::Position, SA, SW, SP); return true;
        case GSinV: out = Motion::Sinusoid(gb, Motion::Velocity, SA, SW, SP); return true;
        case GSinA: out = Motion::Sinusoid(gb, Motion::Acceleration, SA, SW, SP); return true;
        case GCustomP: out = Motion::Custom(gb, new PolyMotion(Motion::Position)); return true;
        case GCustomV: out = Motion::Custom(gb, new PolyMotion(Motion::Velocity)); return true;
        case GCustomA: out = Motion::Custom(gb, new PolyMotion(Motion::Acceleration)); return true;
        case GCustomVq: out = Motion::Custom(gb, new PolyMotionVq(M.matter, other.getMobilizedBodyIndex())); return true;
        case GQuatP: out = Motion::Custom(gb, new QuatMotion()); return true;
        case GDefLockP: gb.lockByDefault(Motion::Position); return false;
        case GDefLockV: gb.lockByDefault(Motion::Velocity); return false;
        case GDefLockA: gb.lockByDefault(Motion::Acceleration); return false;
        default: return false;
    }
}

struct Sys {
    std::unique_ptr<mb::Model> M;
    Motion motion; bool hasMotion = false;
    Force::DiscreteForces inject;    // used in the twin only
    int gi = 0;                      // index of the governed body in M->bodies
};

// role 0: governed body is the base (child Pin);  role 1: governed body is the tip (parent Pin base)
static Sys buildSys(int kind, int dir, int role, bool euler, int gov, bool twin) {
    Sys S;
    mb::BodySpec g; g.kind = kind; g.dir = dir; g.frames = 3; g.mass = 0;
    mb::BodySpec p; p.kind = mb::KPin; p.frames = 3; p.mass = 1;
    std::vector<mb::BodySpec> specs;
    if (role == 0) { g.parent = -1; p.parent = 0; specs = {g, p}; S.gi = 0; }
    else { p.parent = -1; g.parent = 0; specs = {p, g}; S.gi = 1; }
    S.M = mb::build(specs, euler);
    mb::Model& M = *S.M;
    Force::Gravity(M.forces, M.matter, UnitVec3(0.2, -1, 0.1), 9.8);
    Force::MobilityLinearDamper(M.forces, M.bodies[1 - S.gi], MobilizerUIndex(0), 0.8);
    S.inject = Force::DiscreteForces(M.forces, M.matter);
    if (!twin) S.hasMotion = attachMotion(M, M.bodies[S.gi], gov, M.bodies[1 - S.gi], S.motion);
    M.system.realizeTopology();
    return S;
}

// ---------------------------------------------------------------- boring model of governance (one per mobilizer)
struct GovModel {
    int lockLevel = -1;              // -1 none, 0 P, 1 V, 2 A
    std::vector<double> lockVal;     // q (P), u (V) or udot (A; empty = zero) captured / given when locked
    bool motionEnabled = false;
    int gov = GFree;
    double steadyRate = 0.7;
    int other = -1;                  // body whose first coordinate the q-dependent velocity motion reads
    // active governance level: 0 P, 1 V, 2 A, -1 none ; source 0 lock, 1 motion
    int activeLevel() const {
        if (lockLevel >= 0) return lockLevel;
        if (motionEnabled) switch (gov) { case GSteady: case GSinV: case GCustomV: case GCustomVq: return 1; case GSinP: case GCustomP: case GQuatP: return 0; case GSinA: case GCustomA: return 2; default: return -1; }
        return -1;
    }
    bool byLock() const { return lockLevel >= 0; }
};

enum OpK { OLockP, OLockV, OLockA, OLockAtP, OUnlock, OMotionDisable, OMotionEnable, OSetQ, OSetU, OSetTime, OPrescribe, ORealizeAcc, OSetQOther, OSetRate, OLockAtV, OLockAtA, NOPS };
static const char* opName(int o) { static const char* n[] = {"lock(P)", "lock(V)", "lock(A)", "lockAt(vec,P)", "unlock", "motion.disable", "motion.enable", "setQ(governed)", "setU(governed)", "setTime(0.3)", "prescribe", "realize(Acceleration)", "setQ(other)", "Steady.setRate(1.3)", "lockAt(values,V)", "lockAt(values,A)"}; return n[o]; }
// explicit lock values (non-zero: selects the Prescribed rather than the Zero method for a lock)
static Real lockAtU(int i) { return 0.35 - 0.2 * i; }
static Real lockAtUDot(int i) { return -0.6 + 0.25 * i; }

struct Case { int kind, dir, role, euler, gov; std::string str() const { return std::string(mb::kindName(kind)) + (dir ? "/rev" : "/fwd") + (role ? "/tip" : "/base") + (euler ? "/euler" : "/quat") + " gov=" + govName(gov); } };

static Vector genericQ(const mb::Model& M, State& s, int bi, int vs) { State t = s; mb::setBodyQ(M, t, bi, 1, vs); return M.bodies[bi].getQAsVector(t); }

// every distinct failing clause of one history (the first occurrence of each key)
struct Fails {
    std::vector<std::pair<std::string, std::string>> v;
    void add(const std::string& k, const std::string& w) { for (auto& p : v) if (p.first == k) return; v.push_back({k, w}); }
    bool ok() const { return v.empty(); }
};
struct Result { bool rejected = false; Fails F; bool ok() const { return F.ok(); } };
static const double TOLV = 1e-12;
static bool nearV(Real a, Real b) { return std::abs(a - b) <= TOLV * std::max({Real(1), std::abs(a), std::abs(b)}); }
static std::string ix(const char* n, int i) { return std::string(n) + "[" + std::to_string(i) + "]"; }

// ---- lock operations with the documented immediate effects on the state (shared by both sections)
static void opLock(const MobilizedBody& gb, State& s, GovModel& G, int level, Fails& F) {
    const int nq = gb.getNumQ(s), nu = gb.getNumU(s);
    const Vector q0 = gb.getQAsVector(s), u0 = gb.getUAsVector(s);
    gb.lock(s, level == 0 ? Motion::Position : level == 1 ? Motion::Velocity : Motion::Acceleration);
    const Vector q = gb.getQAsVector(s), u = gb.getUAsVector(s);
    G.lockLevel = level; G.lockVal.clear();
    if (level == 0) {
        G.lockVal.assign(&q[0], &q[0] + nq);
        // documented immediate effect: q unchanged, u of this mobilizer set to zero in the state
        for (int i = 0; i < nq; ++i) if (memcmp(&q[i], &q0[i], sizeof(double))) F.add("lock(P)-changed-q", ix("q", i));
        for (int i = 0; i < nu; ++i) if (u[i] != 0) F.add("lock(P)-did-not-zero-u-immediately", ix("u", i) + "=" + verif::fmtd(u[i]));
    } else if (level == 1) {
        G.lockVal.assign(&u[0], &u[0] + nu);
        for (int i = 0; i < nq; ++i) if (memcmp(&q[i], &q0[i], sizeof(double))) F.add("lock(V)-changed-q", ix("q", i));
        for (int i = 0; i < nu; ++i) if (memcmp(&u[i], &u0[i], sizeof(double))) F.add("lock(V)-changed-u", ix("u", i));
    }
}
// lockAt with explicit values; the scalar overload is used for one-coordinate mobilizers at the V and A levels, the
// Vector overload otherwise
static void opLockAt(const mb::Model& M, int bi, State& s, GovModel& G, int level, int vs, Fails& F) {
    const MobilizedBody& gb = M.bodies[bi];
    const int nq = gb.getNumQ(s), nu = gb.getNumU(s);
    const Vector q0 = gb.getQAsVector(s);
    Vector val;
    if (level == 0) val = genericQ(M, s, bi, vs);
    else { val.resize(nu); for (int i = 0; i < nu; ++i) val[i] = level == 1 ? lockAtU(i) : lockAtUDot(i); }
    const Motion::Level L = level == 0 ? Motion::Position : level == 1 ? Motion::Velocity : Motion::Acceleration;
    if (nq == 1 && nu == 1 && level != 0) gb.lockAt(s, val[0], L); else gb.lockAt(s, val, L);
    G.lockLevel = level; G.lockVal.assign(&val[0], &val[0] + val.size());
    const Vector q1 = gb.getQAsVector(s), u1 = gb.getUAsVector(s);
    if (level == 0) {
        for (int i = 0; i < nq; ++i) if (memcmp(&val[i], &q1[i], sizeof(double))) F.add("lockAt(P)-did-not-set-q-immediately", ix("q", i));
        for (int i = 0; i < nu; ++i) if (u1[i] != 0) F.add("lockAt(P)-did-not-zero-u-immediately", ix("u", i) + "=" + verif::fmtd(u1[i]));
    } else if (level == 1) {
        // documented: "When locking at velocity level, this mobilizer's u in state is set to value but the q is left unchanged"
        for (int i = 0; i < nu; ++i) if (memcmp(&val[i], &u1[i], sizeof(double))) F.add("lockAt(V)-did-not-set-u-immediately", ix("u", i) + "=" + verif::fmtd(u1[i]) + " value " + verif::fmtd(val[i]));
        for (int i = 0; i < nq; ++i) if (memcmp(&q0[i], &q1[i], sizeof(double))) F.add("lockAt(V)-changed-q", ix("q", i));
    }
    const Vector lv = gb.getLockValueAsVector(s);
    if (lv.size() != val.size()) F.add("getLockValueAsVector-wrong-length", std::to_string(lv.size()));
    else for (int i = 0; i < val.size(); ++i) if (memcmp(&lv[i], &val[i], sizeof(double))) F.add("getLockValueAsVector-wrong-value", ix("value", i) + "=" + verif::fmtd(lv[i]));
}

// (1) the governed values of mobilizer bi against the model.  accel=false: the state is realized through Velocity only
// (q, u, and qdot for position-level motions are judged); accel=true: through Acceleration.
static void checkGoverned(const mb::Model& M, const State& s, int bi, const GovModel& G, Fails& F, bool accel) {
    const int level = G.activeLevel();
    if (level < 0) return;
    const MobilizedBody& gb = M.bodies[bi];
    const int nq = gb.getNumQ(s), nu = gb.getNumU(s);
    const Real t = s.getTime();
    const Vector q = gb.getQAsVector(s), u = gb.getUAsVector(s);
    Vector ud(nu); ud = 0; if (accel) ud = gb.getUDotAsVector(s);
    const std::string B = "body" + std::to_string(bi) + " ";
    if (G.byLock()) {
        if (level == 0) {
            for (int i = 0; i < nq; ++i) if (memcmp(&q[i], &G.lockVal[i], sizeof(double))) F.add("locked-q-not-held", B + ix("q", i) + "=" + verif::fmtd(q[i]) + " but locked at " + verif::fmtd(G.lockVal[i]));
            for (int i = 0; i < nu; ++i) if (u[i] != 0) F.add("locked-P-u-not-zero", B + ix("u", i) + "=" + verif::fmtd(u[i]));
            if (accel) for (int i = 0; i < nu; ++i) if (!nearV(ud[i], 0)) F.add("locked-P-udot-not-zero", B + ix("udot", i) + "=" + verif::fmtd(ud[i]));
        } else if (level == 1) {
            for (int i = 0; i < nu; ++i) if (memcmp(&u[i], &G.lockVal[i], sizeof(double))) F.add("locked-u-not-held", B + ix("u", i) + "=" + verif::fmtd(u[i]) + " but locked at " + verif::fmtd(G.lockVal[i]));
            if (accel) for (int i = 0; i < nu; ++i) if (!nearV(ud[i], 0)) F.add("locked-V-udot-not-zero", B + ix("udot", i) + "=" + verif::fmtd(ud[i]));
        } else if (accel) {
            if (G.lockVal.empty()) { for (int i = 0; i < nu; ++i) if (!nearV(ud[i], 0)) F.add("locked-A-udot-not-zero", B + ix("udot", i) + "=" + verif::fmtd(ud[i])); }
            else for (int i = 0; i < nu; ++i) if (!nearV(ud[i], G.lockVal[i])) F.add("locked-A-udot-not-held", B + ix("udot", i) + "=" + verif::fmtd(ud[i]) + " but locked at " + verif::fmtd(G.lockVal[i]));
        }
    } else if (level == 0 && G.gov == GQuatP) {
        // unit-quaternion trajectory: q, qdot, qdotdot as prescribed; u = A*theta' (angular velocity about the fixed axis, same in F and M)
        // and udot = A*theta'' for the rotational speeds; translational q's (Free) follow the polynomials with u = qdot
        QuatMotion qm; std::vector<Real> pq(nq), pqd(nq), pqdd(nq);
        qm.calcPrescribedPosition(s, nq, pq.data()); qm.calcPrescribedPositionDot(s, nq, pqd.data()); qm.calcPrescribedPositionDotDot(s, nq, pqdd.data());
        const Vector qd = gb.getQDotAsVector(s); Vector qdd(nq); qdd = 0; if (accel) qdd = gb.getQDotDotAsVector(s);
        Real a, ad, add; QuatMotion::th(t, a, ad, add);
        for (int i = 0; i < nq; ++i) {
            if (!nearV(q[i], pq[i])) F.add("prescribed-q-wrong", B + ix("q", i) + "=" + verif::fmtd(q[i]) + " prescribed " + verif::fmtd(pq[i]));
            if (std::abs(qd[i] - pqd[i]) > 1e-11) F.add("prescribed-qdot-wrong", B + ix("qdot", i) + "=" + verif::fmtd(qd[i]) + " prescribed " + verif::fmtd(pqd[i]));
            if (accel && std::abs(qdd[i] - pqdd[i]) > 1e-10) F.add("prescribed-qdotdot-wrong", B + ix("qdotdot", i) + "=" + verif::fmtd(qdd[i]) + " prescribed " + verif::fmtd(pqdd[i]));
        }
        for (int i = 0; i < 3 && i < nu; ++i) {
            if (std::abs(u[i] - QA[i] * ad) > 1e-11) F.add("prescribed-angular-velocity-wrong", B + ix("u", i) + "=" + verif::fmtd(u[i]) + " expected " + verif::fmtd(QA[i] * ad));
            if (accel && std::abs(ud[i] - QA[i] * add) > 1e-10) F.add("prescribed-angular-acceleration-wrong", B + ix("udot", i) + "=" + verif::fmtd(ud[i]) + " expected " + verif::fmtd(QA[i] * add));
        }
    } else {
        const Real sn = SA * std::sin(SW * t + SP), cs = SA * SW * std::cos(SW * t + SP), sn2 = -SA * SW * SW * std::sin(SW * t + SP);
        const Vector qd = gb.getQDotAsVector(s); Vector qdd(nq); qdd = 0; if (accel) qdd = gb.getQDotDotAsVector(s);
        Real qo = 0, qdo = 0; if (G.gov == GCustomVq) { qo = M.bodies[G.other].getOneQ(s, 0); qdo = M.bodies[G.other].getOneQDot(s, 0); }
        for (int i = 0; i < (level == 0 ? nq : nu); ++i) {
            Real p0, p1, p2;   // prescribed value, first and second derivative at the prescription level
            if (G.gov == GSteady) { p0 = G.steadyRate; p1 = 0; p2 = 0; }
            else if (G.gov == GCustomP || G.gov == GCustomV) { p0 = PolyMotion::c0(i) + PolyMotion::c1(i) * t + PolyMotion::c2(i) * t * t; p1 = PolyMotion::c1(i) + 2 * PolyMotion::c2(i) * t; p2 = 2 * PolyMotion::c2(i); }
            else if (G.gov == GCustomVq) { p0 = PolyMotion::c0(i) + PolyMotion::c1(i) * t + PolyMotion::c2(i) * t * t + VQAMP * std::sin(qo); p1 = PolyMotion::c1(i) + 2 * PolyMotion::c2(i) * t + VQAMP * std::cos(qo) * qdo; p2 = 0; }
            else if (G.gov == GCustomA) { p0 = PolyMotion::accelOf(s, i); p1 = p2 = 0; }
            else { p0 = sn; p1 = cs; p2 = sn2; }
            if (level == 0) {
                if (!nearV(q[i], p0)) F.add("prescribed-q-wrong", B + ix("q", i) + "=" + verif::fmtd(q[i]) + " prescribed " + verif::fmtd(p0));
                if (!nearV(qd[i], p1)) F.add("prescribed-qdot-wrong", B + ix("qdot", i) + "=" + verif::fmtd(qd[i]) + " prescribed " + verif::fmtd(p1));
                if (accel && std::abs(qdd[i] - p2) > 1e-10 * std::max(Real(1), std::abs(p2))) F.add("prescribed-qdotdot-wrong", B + ix("qdotdot", i) + "=" + verif::fmtd(qdd[i]) + " prescribed " + verif::fmtd(p2));
            } else if (level == 1) {
                if (!nearV(u[i], p0)) F.add("prescribed-u-wrong", B + ix("u", i) + "=" + verif::fmtd(u[i]) + " prescribed " + verif::fmtd(p0));
                if (accel && !nearV(ud[i], p1)) F.add("prescribed-udot-wrong", B + ix("udot", i) + "=" + verif::fmtd(ud[i]) + " prescribed " + verif::fmtd(p1));
            } else {
                if (accel && !nearV(ud[i], p0)) F.add("prescribed-udot-wrong", B + ix("udot", i) + "=" + verif::fmtd(ud[i]) + " prescribed " + verif::fmtd(p0));
            }
        }
    }
}
// documented: calcMotionPower = -dot(tau, u)
static void checkMotionPower(const SimbodyMatterSubsystem& matter, const State& s, const Vector& tau, Fails& F) {
    const Vector& u = s.getU();
    const Real pm = matter.calcMotionPower(s); Real ref = 0, sc = 1;
    for (int i = 0; i < tau.size(); ++i) { ref -= tau[i] * u[i]; sc += std::abs(tau[i] * u[i]); }
    if (!(std::abs(pm - ref) <= 1e-13 * sc)) F.add("calcMotionPower-not-minus-tau-dot-u", "power " + verif::fmtd(pm) + " expected " + verif::fmtd(ref));
}

static Result runHistory(verif::Run& run, const Case& c, const std::vector<int>& hist) {
    Result R; Fails& F = R.F;
    Sys S = buildSys(c.kind, c.dir, c.role, c.euler != 0, c.gov, false);
    mb::Model& M = *S.M; const MobilizedBody& gb = M.bodies[S.gi];
    State s = M.system.getDefaultState();
    M.matter.setUseEulerAngles(s, M.euler); M.system.realizeModel(s);
    const int nq = gb.getNumQ(s), nu = gb.getNumU(s);
    GovModel G; G.gov = c.gov; G.motionEnabled = S.hasMotion; G.other = 1 - S.gi;
    if (c.gov == GDefLockP) { G.lockLevel = 0; Vector q = gb.getQAsVector(s); G.lockVal.assign(&q[0], &q[0] + nq); }
    if (c.gov == GDefLockV) { G.lockLevel = 1; G.lockVal.assign(nu, 0.0); }
    if (c.gov == GDefLockA) { G.lockLevel = 2; }
    try {
        for (int o : hist) {
            switch (o) {
                case OLockP: opLock(gb, s, G, 0, F); break;
                case OLockV: opLock(gb, s, G, 1, F); break;
                case OLockA: opLock(gb, s, G, 2, F); break;
                case OLockAtP: opLockAt(M, S.gi, s, G, 0, 2, F); break;
                case OLockAtV: opLockAt(M, S.gi, s, G, 1, 2, F); break;
                case OLockAtA: opLockAt(M, S.gi, s, G, 2, 2, F); break;
                case OUnlock: gb.unlock(s); G.lockLevel = -1; G.lockVal.clear(); break;
                case OMotionDisable: if (S.hasMotion) { S.motion.disable(s); G.motionEnabled = false; } break;
                case OMotionEnable: if (S.hasMotion) { S.motion.enable(s); G.motionEnabled = true; } break;
                case OSetQ: mb::setBodyQ(M, s, S.gi, 1, 0); break;
                case OSetU: mb::setBodyU(M, s, S.gi, 1, 0); break;
                case OSetTime: s.setTime(0.3); break;
                case OPrescribe: M.system.realize(s, Stage::Time); M.system.prescribe(s); break;
                case ORealizeAcc: M.system.realize(s, Stage::Acceleration); break;
                case OSetRate: if (c.gov == GSteady) { Motion::Steady::downcast(S.motion).setRate(s, 1.3); G.steadyRate = 1.3; } break;
                case OSetQOther: mb::setBodyQ(M, s, 1 - S.gi, 1, 1); mb::setBodyU(M, s, 1 - S.gi, 1, 1); break;
            }
        }
    } catch (const std::exception& e) {
        run.count("history-rejected-by-library"); R.rejected = true; return R;
    }
    const int level = G.activeLevel();
    if (level == 0 && !G.byLock() && mb::kindHasQuaternion(c.kind) && !c.euler && c.gov != GQuatP) { run.count("skipped:position-level-motion-on-quaternion"); R.rejected = true; return R; }
    // final: prescribe, then realize
    try {
        M.system.realize(s, Stage::Time);
        M.system.prescribe(s);
        M.system.realize(s, Stage::Acceleration);
    } catch (const std::exception& e) {
        // position-level prescription of quaternion coordinates etc. may legitimately be refused; count by message class
        run.count(std::string("final-realize-threw/") + govName(c.gov) + (mb::kindHasQuaternion(c.kind) && !c.euler ? "/quat" : ""));
        R.rejected = true; return R;
    }
    const Real t = s.getTime();
    run.transition(1);
    // (1) governed values
    checkGoverned(M, s, S.gi, G, F, true);
    // (2) motion errors
    for (Stage g : {Stage::Position, Stage::Velocity, Stage::Acceleration}) {
        Vector e = M.matter.calcMotionErrors(s, g);
        for (int i = 0; i < e.size(); ++i) if (!(std::abs(e[i]) <= 1e-10)) F.add(std::string("calcMotionErrors-nonzero/") + g.getName(), ix("error", i) + "=" + verif::fmtd(e[i]));
    }
    // (3) twin system without prescription, reported motion forces applied as ordinary mobility forces
    Vector tau; M.matter.findMotionForces(s, tau);
    const int nMult = M.matter.getMotionMultipliers(s).size();
    {
        int expected = level < 0 ? 0 : nu;
        if (nMult != expected) F.add("motion-multiplier-count", "getMotionMultipliers has " + std::to_string(nMult) + " entries, expected " + std::to_string(expected));
    }
    Sys T = buildSys(c.kind, c.dir, c.role, c.euler != 0, GFree, true);
    mb::Model& TM = *T.M;
    State ts = TM.system.getDefaultState();
    TM.matter.setUseEulerAngles(ts, TM.euler); TM.system.realizeModel(ts);
    ts.setTime(t); ts.updQ() = s.getQ(); ts.updU() = s.getU();
    // documented sign convention (calcMotionPower: power = -dot(tau,u)): tau are reaction multipliers on the
    // left-hand side, M udot + tau = f, so as an ordinary applied force they enter with the opposite sign
    if (level >= 0) T.inject.setAllMobilityForces(ts, -1 * tau);
    TM.system.realize(ts, Stage::Acceleration);
    const Vector& a = s.getUDot(); const Vector& b = ts.getUDot();
    if (level < 0) {
        for (int i = 0; i < a.size(); ++i) if (memcmp(&a[i], &b[i], sizeof(double))) F.add("ungoverned-differs-from-twin", ix("udot", i) + "=" + verif::fmtd(a[i]) + " twin " + verif::fmtd(b[i]));
    } else {
        Real scale = 1; for (int i = 0; i < a.size(); ++i) scale = std::max({scale, std::abs(a[i]), std::abs(b[i])});
        Real worst = 0; for (int i = 0; i < a.size(); ++i) worst = std::max(worst, std::abs(a[i] - b[i]) / scale);
        run.residual("udot-vs-twin-with-motion-forces", worst, 1e-11, [&] { return c.str(); });
        if (!(worst <= 1e-11)) F.add("udot-vs-twin-with-motion-forces", "worst relative difference " + verif::fmtd(worst));
    }
    checkMotionPower(M.matter, s, tau, F);
    run.outcome(verif::hashPod(level) ^ (verif::hashPod(G.byLock()) << 1) ^ verif::hashPod((int)nMult * 31 + c.gov));
    if (run.verbose) {
        const Vector q = gb.getQAsVector(s), u = gb.getUAsVector(s);
        printf("%s\n active level=%d byLock=%d t=%g\n q=", c.str().c_str(), level, (int)G.byLock(), t);
        for (int i = 0; i < nq; ++i) printf("%.17g ", q[i]); printf("\n u="); for (int i = 0; i < nu; ++i) printf("%.17g ", u[i]);
        printf("\n udot(all)="); for (int i = 0; i < a.size(); ++i) printf("%.17g ", a[i]); printf("\n twin udot="); for (int i = 0; i < b.size(); ++i) printf("%.17g ", b[i]);
        printf("\n tau="); for (int i = 0; i < tau.size(); ++i) printf("%.17g ", tau[i]); printf("\n");
    }
    return R;
}

// ================================================================ section "constrained"
// Tree (indices in Model::bodies):   Ground --- A(0) --- B(1) --- D(3)        defaults: A Universal, B Ball, C Free, D Pin;
//                                    Ground --- C(2)                          the governed position gets the governed kind.
// Constraint alphabet (every set built from fixed stations / values):
enum CCons { CNone, CRodBC, CBallBC, CRodGD, CRodAD, CSpeed, CAccel, CCouplerFree, CCouplerGov, CMulti, NCC };
static const char* cconsName(int k) { static const char* n[] = {"none", "Rod(B,C)", "Ball(B,C)", "Rod(Ground,D)", "Rod(A,D)", "ConstantSpeed(free)", "ConstantAcceleration(free)", "CoordinateCoupler(free,free)", "CoordinateCoupler(governed,free)", "Rod(B,C)+ConstantAcceleration+CoordinateCoupler"}; return n[k]; }
// governed mobilizer relative to the constraint: inside the constrained loop / kinematic path, or outside it
static const char* insideOutside(int cons, int pos) {
    switch (cons) {
        case CRodBC: case CBallBC: case CMulti: return pos == 3 ? "outside(outboard-of-loop)" : "inside";
        case CRodGD: return pos == 2 ? "outside(other-branch)" : "inside";
        case CRodAD: return pos == 0 ? "outside(inboard-of-ancestor)" : pos == 2 ? "outside(other-branch)" : "inside";
        case CCouplerGov: return "inside";
        case CNone: return "none";
        default: return "other-mobilizer";
    }
}
// second governed mobilizer (D, or A when the primary is D), set up before the history
enum Second { SNone, SLockP, SSteady, SSinA, SLockAtV, SLockAtA, NSEC };
static const char* secName(int k) { static const char* n[] = {"none", "lock(P)", "Motion::Steady", "Motion::Sinusoid(A)", "lockAt(values,V)", "lockAt(values,A)"}; return n[k]; }

enum COp { KLockP, KLockV, KLockA, KLockAtP, KLockAtV, KLockAtA, KUnlock, KMotionDisable, KMotionEnable, KSetQ, KSetU, KSetTime, KPrescribe, KProject, KRealizeAcc, KSetOthers, KConsDisable, KConsEnable, NCOPS };
static const char* copName(int o) { static const char* n[] = {"lock(P)", "lock(V)", "lock(A)", "lockAt(values,P)", "lockAt(values,V)", "lockAt(values,A)", "unlock", "motion.disable", "motion.enable", "setQ(governed)", "setU(governed)", "setTime(0.3)", "prescribe", "project", "realize(Acceleration)", "setQU(others)", "constraint0.disable", "constraint0.enable"}; return n[o]; }

struct CCase {
    int kind, dir, pos, euler, gov, cons, sec;
    std::string str() const { return std::string(mb::kindName(kind)) + (dir ? "/rev" : "/fwd") + "/at-" + std::string(1, "ABCD"[pos]) + (euler ? "/euler" : "/quat") + " gov=" + govName(gov) + " cons=" + cconsName(cons) + "[" + insideOutside(cons, pos) + "] second=" + secName(sec); }
};
// a coordinate with qdot = u (so that a CoordinateCoupler on it is a plain function of an angle or a translation)
static bool simpleCoord(int kind, bool euler, int& qi, int& ui) {
    switch (kind) {
        case mb::KPin: case mb::KSlider: case mb::KUniversal: case mb::KPlanar: case mb::KTranslation: case mb::KCylinder: case mb::KCustomPin:
        case mb::KFBPlanar: case mb::KScrew: case mb::KBendStretch: case mb::KSphericalDefault: case mb::KBushing: qi = ui = 0; return true;
        case mb::KFree: qi = euler ? 5 : 6; ui = 5; return true;
        default: return false;
    }
}
struct CSys {
    std::unique_ptr<mb::Model> M;
    Motion motion, motion2; bool hasMotion = false, hasMotion2 = false;
    Force::DiscreteForces inject;
    int gi = 0, si = -1;
    std::vector<Constraint> cons;
    bool applicable = true; std::string whyNot;
    int accBody = -1, accU = -1, accCons = -1, spdBody = -1, spdU = -1;    // targets of ConstantAcceleration / ConstantSpeed
    bool hasBall = false;
};
static const Real CSPEED = -0.4, CACC = 0.9, STEADY2 = 0.45;

static CSys buildCSys(const CCase& c, bool twin) {
    CSys S;
    static const int defKind[4] = {mb::KUniversal, mb::KBall, mb::KFree, mb::KPin};
    static const int parent[4] = {-1, 0, -1, 1}, frames[4] = {3, 1, 2, 3}, mass[4] = {0, 1, 0, 1};   // (no near-point-mass body: 1/inertia would amplify the rounding of the cancelling injected forces in the twin)
    std::vector<mb::BodySpec> specs(4);
    for (int b = 0; b < 4; ++b) { specs[b].kind = defKind[b]; specs[b].parent = parent[b]; specs[b].frames = frames[b]; specs[b].mass = mass[b]; }
    specs[c.pos].kind = c.kind; specs[c.pos].dir = c.dir;
    S.gi = c.pos; S.si = c.sec == SNone ? -1 : (c.pos == 3 ? 0 : 3);
    const bool euler = c.euler != 0;
    S.M = mb::build(specs, euler);
    mb::Model& M = *S.M;
    Force::Gravity(M.forces, M.matter, UnitVec3(0.2, -1, 0.1), 9.8);
    Force::MobilityLinearDamper(M.forces, M.bodies[c.pos == 1 ? 2 : 1], MobilizerUIndex(0), 0.8);
    S.inject = Force::DiscreteForces(M.forces, M.matter);
    const int otherBody = c.pos == 3 ? 0 : 3;     // first coordinate is an angle with qdot = u (Pin D / Universal A)
    if (!twin) {
        S.hasMotion = attachMotion(M, M.bodies[S.gi], c.gov, M.bodies[otherBody], S.motion);
        if (c.sec == SSteady) { S.motion2 = Motion::Steady(M.bodies[S.si], STEADY2); S.hasMotion2 = true; }
        if (c.sec == SSinA) { S.motion2 = Motion::Sinusoid(M.bodies[S.si], Motion::Acceleration, SA, SW, SP); S.hasMotion2 = true; }
        // candidates for coordinate-type constraints: simple coordinates of mobilizers that are NOT governed
        struct Cand { int body, qi, ui; }; std::vector<Cand> cands;
        for (int b : {3, 0, 2}) { if (b == S.gi || b == S.si) continue; int qi, ui; if (simpleCoord(specs[b].kind, euler, qi, ui)) cands.push_back({b, qi, ui}); }
        if (2 != S.gi && 2 != S.si) { int qi, ui; simpleCoord(mb::KFree, euler, qi, ui); cands.push_back({2, qi - 1, ui - 1}); }   // a second translation of the Free body C
        if (0 != S.gi && 0 != S.si) cands.push_back({0, 1, 1});                                                                    // the second angle of the Universal joint A
        auto rodBC = [&] { S.cons.push_back(Constraint::Rod(M.bodies[1], Vec3(0.2, -0.1, 0.15), M.bodies[2], Vec3(-0.1, 0.2, 0.05), 0.9)); };
        auto accel = [&] {
            if (2 != S.gi && 2 != S.si) { S.accBody = 2; S.accU = 1; }            // an angular speed of the Free body C (qdot != u)
            else if (!cands.empty()) { S.accBody = cands[0].body; S.accU = cands[0].ui; }
            else { S.applicable = false; S.whyNot = "no free mobility"; return; }
            S.accCons = (int)S.cons.size();
            S.cons.push_back(Constraint::ConstantAcceleration(M.bodies[S.accBody], MobilizerUIndex(S.accU), CACC));
        };
        auto coupler = [&](bool withGoverned) {
            Array_<MobilizedBodyIndex> bodies; Array_<MobilizerQIndex> qi;
            if (withGoverned) {
                int gq, gu; if (!simpleCoord(c.kind, euler, gq, gu)) { S.applicable = false; S.whyNot = "governed kind has no coordinate with qdot=u"; return; }
                if (cands.empty()) { S.applicable = false; S.whyNot = "no free coordinate"; return; }
                bodies.push_back(M.bodies[S.gi].getMobilizedBodyIndex()); qi.push_back(MobilizerQIndex(gq));
                bodies.push_back(M.bodies[cands[0].body].getMobilizedBodyIndex()); qi.push_back(MobilizerQIndex(cands[0].qi));
            } else {
                if (cands.size() < 2) { S.applicable = false; S.whyNot = "fewer than two free coordinates"; return; }
                for (int k = 0; k < 2; ++k) { bodies.push_back(M.bodies[cands[k].body].getMobilizedBodyIndex()); qi.push_back(MobilizerQIndex(cands[k].qi)); }
            }
            S.cons.push_back(Constraint::CoordinateCoupler(M.matter, cons::makeCouplerFunction(2, 1, false), bodies, qi));
        };
        switch (c.cons) {
            case CRodBC: rodBC(); break;
            case CBallBC: S.cons.push_back(Constraint::Ball(M.bodies[1], Vec3(0.2, -0.1, 0.15), M.bodies[2], Vec3(-0.1, 0.2, 0.05))); S.hasBall = true; break;
            case CRodGD: S.cons.push_back(Constraint::Rod(M.matter.updGround(), Vec3(0.4, 0.3, -0.2), M.bodies[3], Vec3(0.1, 0.1, 0), 0.8)); break;
            case CRodAD: S.cons.push_back(Constraint::Rod(M.bodies[0], Vec3(0.1, 0, 0.2), M.bodies[3], Vec3(0, 0.25, 0.1), 0.6)); break;
            case CSpeed:
                if (cands.empty()) { S.applicable = false; S.whyNot = "no free mobility"; break; }
                S.spdBody = cands[0].body; S.spdU = cands[0].ui;
                S.cons.push_back(Constraint::ConstantSpeed(M.bodies[S.spdBody], MobilizerUIndex(S.spdU), CSPEED)); break;
            case CAccel: accel(); break;
            case CCouplerFree: coupler(false); break;
            case CCouplerGov: coupler(true); break;
            case CMulti: rodBC(); accel(); if (S.applicable) coupler(false); break;
            default: break;
        }
    }
    M.system.realizeTopology();
    return S;
}

// smallest eigenvalue of a small symmetric matrix (cyclic Jacobi)
static Real minEigSym(std::vector<std::vector<Real>> A) {
    const int n = (int)A.size(); if (!n) return Infinity;
    for (int sweep = 0; sweep < 30; ++sweep) {
        Real off = 0; for (int i = 0; i < n; ++i) for (int j = i + 1; j < n; ++j) off += A[i][j] * A[i][j];
        if (off < 1e-30) break;
        for (int p = 0; p < n; ++p) for (int q = p + 1; q < n; ++q) {
            if (std::abs(A[p][q]) < 1e-300) continue;
            const Real th = (A[q][q] - A[p][p]) / (2 * A[p][q]); const Real t = (th >= 0 ? 1 : -1) / (std::abs(th) + std::sqrt(th * th + 1));
            const Real cs = 1 / std::sqrt(t * t + 1), sn = t * cs;
            for (int k = 0; k < n; ++k) { Real akp = A[k][p], akq = A[k][q]; A[k][p] = cs * akp - sn * akq; A[k][q] = sn * akp + cs * akq; }
            for (int k = 0; k < n; ++k) { Real apk = A[p][k], aqk = A[q][k]; A[p][k] = cs * apk - sn * aqk; A[q][k] = sn * apk + cs * aqk; }
        }
    }
    Real m = Infinity; for (int i = 0; i < n; ++i) m = std::min(m, A[i][i]); return m;
}

struct CTol { static constexpr double twin = 1e-11, udoterr = 1e-11, fd = 1e-6, power = 1e-12, proj = 1e-8; };

static Result runConstrained(verif::Run& run, const CCase& c, const std::vector<int>& hist, int vs) {
    Result R; Fails& F = R.F;
    CSys S = buildCSys(c, false);
    if (!S.applicable) { run.count(std::string("constraint-not-applicable/") + cconsName(c.cons) + "/" + S.whyNot); R.rejected = true; return R; }
    mb::Model& M = *S.M; const MobilizedBody& gb = M.bodies[S.gi];
    State s = M.system.getDefaultState();
    M.matter.setUseEulerAngles(s, M.euler); M.system.realizeModel(s);
    const int nb = 4, nuAll = s.getNU();
    std::vector<GovModel> G(nb);
    { GovModel& g = G[S.gi]; g.gov = c.gov; g.motionEnabled = S.hasMotion; g.other = c.pos == 3 ? 0 : 3;
      if (c.gov == GDefLockP) { g.lockLevel = 0; Vector q = gb.getQAsVector(s); g.lockVal.assign(&q[0], &q[0] + q.size()); }
      if (c.gov == GDefLockV) { g.lockLevel = 1; g.lockVal.assign(gb.getNumU(s), 0.0); }
      if (c.gov == GDefLockA) g.lockLevel = 2; }
    std::string histDesc; for (int o : hist) histDesc += std::string(copName(o)) + ";";
    auto quatMotionActive = [&] { for (int b = 0; b < nb; ++b) if (G[b].activeLevel() == 0 && !G[b].byLock() && mb::kindHasQuaternion(M.specs[b].kind) && !c.euler && G[b].gov != GQuatP) return true; return false; };
    // item 4: prescribed values kept and constraints satisfied after project()
    auto doProject = [&](const char* where) -> bool {
        try { M.system.project(s, 1e-10); }
        catch (const std::exception& e) {
            run.count(std::string("project-threw/") + cconsName(c.cons));
            std::string msg = e.what(); size_t p = msg.find("Error detected by"); if (p != std::string::npos) msg = msg.substr(p);      // drop the file/line prefix
            for (char& ch : msg) if (ch == '\n' || ch == '\t' || ch == '"' || ch == '\\') ch = ' ';
            for (char& ch : msg) if (ch >= '0' && ch <= '9') ch = '#';                                                                // numbers vary; keep the message class
            run.count("project-threw-message/" + msg.substr(0, 110));
            if (c.cons == CNone || c.cons == CAccel) run.count("project-threw-without-position-or-velocity-constraint/" + c.str() + " [" + histDesc + "]");   // only quaternion normalisation can be violated here
            if (run.verbose) printf("project threw: %s\n", e.what());
            return false;
        }
        run.count(std::string("project-succeeded/") + cconsName(c.cons));
        M.system.realize(s, Stage::Velocity);
        for (int b = 0; b < nb; ++b) checkGoverned(M, s, b, G[b], F, false);
        const Real qe = s.getNQErr() ? s.getQErr().normInf() : 0, ue = s.getNUErr() ? s.getUErr().normInf() : 0;
        run.residual("project-leaves-position-error", qe, CTol::proj, [&] { return c.str() + " " + where; });
        run.residual("project-leaves-velocity-error", ue, CTol::proj, [&] { return c.str() + " " + where; });
        if (!(qe <= CTol::proj)) F.add("project-leaves-position-error", std::string(where) + " |qerr|=" + verif::fmtd(qe));
        if (!(ue <= CTol::proj)) F.add("project-leaves-velocity-error", std::string(where) + " |uerr|=" + verif::fmtd(ue));
        for (Stage g : {Stage::Position, Stage::Velocity}) {
            Vector e = M.matter.calcMotionErrors(s, g);
            for (int i = 0; i < e.size(); ++i) if (!(std::abs(e[i]) <= 1e-10)) F.add(std::string("project-leaves-motion-error/") + g.getName(), ix("error", i) + "=" + verif::fmtd(e[i]));
        }
        return true;
    };
    try {
        for (int b = 0; b < nb; ++b) { mb::setBodyQ(M, s, b, 1, vs); mb::setBodyU(M, s, b, 1, vs); }
        if (S.si >= 0) {
            GovModel& g2 = G[S.si]; Fails ignore;     // the immediate effects of lockAt are judged on the primary mobilizer
            switch (c.sec) {
                case SLockP: opLock(M.bodies[S.si], s, g2, 0, F); break;
                case SLockAtV: opLockAt(M, S.si, s, g2, 1, vs + 1, ignore); break;
                case SLockAtA: opLockAt(M, S.si, s, g2, 2, vs + 1, ignore); break;
                case SSteady: g2.gov = GSteady; g2.steadyRate = STEADY2; g2.motionEnabled = true; break;
                case SSinA: g2.gov = GSinA; g2.motionEnabled = true; break;
            }
        }
        GovModel& g = G[S.gi];
        for (int o : hist) {
            switch (o) {
                case KLockP: opLock(gb, s, g, 0, F); break;
                case KLockV: opLock(gb, s, g, 1, F); break;
                case KLockA: opLock(gb, s, g, 2, F); break;
                case KLockAtP: opLockAt(M, S.gi, s, g, 0, vs + 2, F); break;
                case KLockAtV: opLockAt(M, S.gi, s, g, 1, vs + 2, F); break;
                case KLockAtA: opLockAt(M, S.gi, s, g, 2, vs + 2, F); break;
                case KUnlock: gb.unlock(s); g.lockLevel = -1; g.lockVal.clear(); break;
                case KMotionDisable: if (S.hasMotion) { S.motion.disable(s); g.motionEnabled = false; } break;
                case KMotionEnable: if (S.hasMotion) { S.motion.enable(s); g.motionEnabled = true; } break;
                case KSetQ: mb::setBodyQ(M, s, S.gi, 1, vs + 1); break;
                case KSetU: mb::setBodyU(M, s, S.gi, 1, vs + 1); break;
                case KSetTime: s.setTime(0.3); break;
                case KPrescribe: M.system.realize(s, Stage::Time); M.system.prescribe(s); break;
                case KProject: if (!quatMotionActive()) doProject("op"); else M.system.project(s, 1e-10); break;
                case KRealizeAcc: M.system.realize(s, Stage::Acceleration); break;
                case KSetOthers: for (int b = 0; b < nb; ++b) if (b != S.gi && b != S.si) { mb::setBodyQ(M, s, b, 1, vs + 1); mb::setBodyU(M, s, b, 1, vs + 1); } break;
                case KConsDisable: if (!S.cons.empty() && !S.cons[0].isDisabled(s)) S.cons[0].disable(s); break;
                case KConsEnable: if (!S.cons.empty() && S.cons[0].isDisabled(s)) S.cons[0].enable(s); break;
            }
        }
    } catch (const std::exception& e) {
        run.count("history-rejected-by-library"); R.rejected = true; return R;
    }
    if (quatMotionActive()) { run.count("skipped:position-level-motion-on-quaternion"); R.rejected = true; return R; }

    // the twin: same tree and forces, no Motion, no lock, no Constraint
    CSys T = buildCSys(c, true);
    mb::Model& TM = *T.M;
    State tsDefault = TM.system.getDefaultState(); TM.matter.setUseEulerAngles(tsDefault, TM.euler); TM.system.realizeModel(tsDefault);

    int nGovU = 0; bool anyGov = false;
    std::vector<char> udotFree(nuAll, 1);
    for (int b = 0; b < nb; ++b) if (G[b].activeLevel() >= 0) {
        anyGov = true; const int n = M.bodies[b].getNumU(s); nGovU += n;
        const int u0 = M.bodies[b].getFirstUIndex(s); for (int i = 0; i < n; ++i) udotFree[u0 + i] = 0;
    }
    uint64_t oh = 0;
    auto evaluate = [&](const char* ph, bool onManifold) {
        const std::string where = c.str() + " phase=" + ph;
        const Real t = s.getTime();
        run.transition(1);
        // (a) governed values of every governed mobilizer
        for (int b = 0; b < nb; ++b) checkGoverned(M, s, b, G[b], F, true);
        for (Stage g : {Stage::Position, Stage::Velocity, Stage::Acceleration}) {
            Vector e = M.matter.calcMotionErrors(s, g);
            for (int i = 0; i < e.size(); ++i) if (!(std::abs(e[i]) <= 1e-10)) F.add(std::string("calcMotionErrors-nonzero/") + g.getName(), ix("error", i) + "=" + verif::fmtd(e[i]));
        }
        Vector tau; M.matter.findMotionForces(s, tau);
        const int nMult = M.matter.getMotionMultipliers(s).size();
        if (nMult != nGovU) F.add("motion-multiplier-count", "getMotionMultipliers has " + std::to_string(nMult) + " entries, expected " + std::to_string(nGovU));
        for (int i = 0; i < nuAll; ++i) if (udotFree[i] && tau[i] != 0) F.add("motion-force-on-free-mobility", ix("tau", i) + "=" + verif::fmtd(tau[i]));
        // (b) constraint acceleration errors
        const Vector lambda = M.matter.getConstraintMultipliers(s);
        const int m = lambda.size();
        const Vector& udot = s.getUDot(); const Vector& u = s.getU();
        const Real udScale = std::max(Real(1), udot.normInf()), uScale = std::max(Real(1), u.normInf());
        bool wellPosed = true; Real gNorm = 1;
        if (m > 0) {
            Matrix Gm; M.matter.calcG(s, Gm);
            std::vector<std::vector<Real>> A(m, std::vector<Real>(m, 0));
            std::vector<Real> rn(m, 0);
            for (int i = 0; i < m; ++i) { for (int k = 0; k < nuAll; ++k) rn[i] += Gm(i, k) * Gm(i, k); rn[i] = std::sqrt(rn[i]); gNorm = std::max(gNorm, rn[i]); }
            for (int i = 0; i < m; ++i) for (int j = 0; j < m; ++j) { Real a = 0; for (int k = 0; k < nuAll; ++k) if (udotFree[k]) a += Gm(i, k) * Gm(j, k); A[i][j] = (rn[i] > 0 && rn[j] > 0) ? a / (rn[i] * rn[j]) : 0; }
            wellPosed = minEigSym(A) > 1e-4;      // the rows of G restricted to the free accelerations are well independent
            run.count(wellPosed ? "constraints-well-posed-on-free-accelerations" : "unspecified:constraints-rank-deficient-on-free-accelerations");
            if (wellPosed) {
                const Real sc = gNorm * udScale * uScale * uScale;
                const Real e = s.getUDotErr().normInf() / sc;
                run.residual("constraint-acceleration-error(library)", e, CTol::udoterr, [&] { return where; });
                if (!(e <= CTol::udoterr)) F.add("constraint-acceleration-error-nonzero", std::string(ph) + " scaled |udoterr|=" + verif::fmtd(e));
                // acceleration-only and speed constraints, read directly from udot
                if (S.accBody >= 0 && !S.cons[S.accCons].isDisabled(s)) { const Real a = M.bodies[S.accBody].getOneUDot(s, S.accU); if (!(std::abs(a - CACC) <= 1e-10 * udScale)) F.add("ConstantAcceleration-not-honoured", "udot=" + verif::fmtd(a)); }
                if (S.spdBody >= 0 && !S.cons[0].isDisabled(s)) { const Real a = M.bodies[S.spdBody].getOneUDot(s, S.spdU); if (!(std::abs(a) <= 1e-10 * udScale)) F.add("ConstantSpeed-udot-not-zero", "udot=" + verif::fmtd(a)); }
                // independent: d/dt of the velocity errors along the motion (q + h qdot, u + h udot), 4th-order central differences,
                // Richardson pair.  The Ball's velocity error is that of a material point of body 1, so its time derivative equals
                // the acceleration error only on the velocity manifold.
                const int mpv = s.getNUErr();
                const bool ballEnabled = S.hasBall && !S.cons[0].isDisabled(s);
                if (mpv > 0 && (!ballEnabled || onManifold)) {
                    State w = s; const Vector q0 = s.getQ(), u0 = s.getU(), qd = s.getQDot(), ud = s.getUDot();
                    auto verrAt = [&](Real h) { w.updQ() = q0 + h * qd; w.updU() = u0 + h * ud; M.system.realize(w, Stage::Velocity); return Vector(w.getUErr()); };
                    auto d1 = [&](Real h) { Vector d = (8.0 * (verrAt(h) - verrAt(-h)) - (verrAt(2 * h) - verrAt(-2 * h))) / (12 * h); return d; };
                    const Vector da = d1(2e-3), db = d1(1e-3);
                    if ((da - db).normInf() / sc > 1e-8) run.count("skipped:finite-difference-pair-disagrees");
                    else {
                        const Real e2 = db.normInf() / sc;
                        run.residual("d/dt-velocity-error-along-motion(finite-difference)", e2, CTol::fd, [&] { return where; });
                        if (!(e2 <= CTol::fd)) F.add("velocity-error-grows-along-motion", std::string(ph) + " scaled |d verr/dt|=" + verif::fmtd(e2));
                    }
                }
            }
        }
        // (c) Newton's law through the twin: -tau as mobility forces, constraint forces from -lambda as body + mobility forces
        // (a constraint that the free accelerations cannot satisfy gets an arbitrary, possibly astronomically large multiplier:
        //  nothing is documented for that case and the comparison would only measure cancellation)
        Vector_<SpatialVec> bf; Vector mf;
        if (m > 0) { Vector nl = -1.0 * lambda; M.matter.calcConstraintForcesFromMultipliers(s, nl, bf, mf); }
        State ts = tsDefault;
        ts.setTime(t); ts.updQ() = s.getQ(); ts.updU() = s.getU();
        if (anyGov || m > 0) {
            Vector f = -1.0 * tau; if (m > 0) f += mf;
            T.inject.setAllMobilityForces(ts, f);
            if (m > 0) T.inject.setAllBodyForces(ts, bf);
        }
        TM.system.realize(ts, Stage::Acceleration);
        const Vector& a = s.getUDot(); const Vector& b = ts.getUDot();
        if (m > 0 && !wellPosed) run.count("unspecified:twin-not-compared-for-rank-deficient-constraints");
        else if (!anyGov && m == 0) {
            for (int i = 0; i < a.size(); ++i) if (memcmp(&a[i], &b[i], sizeof(double))) F.add("ungoverned-differs-from-twin", ix("udot", i) + "=" + verif::fmtd(a[i]) + " twin " + verif::fmtd(b[i]));
        } else {
            Real scale = 1; for (int i = 0; i < a.size(); ++i) scale = std::max({scale, std::abs(a[i]), std::abs(b[i])});
            Real worst = 0; for (int i = 0; i < a.size(); ++i) worst = std::max(worst, std::abs(a[i] - b[i]) / scale);
            run.residual(m > 0 ? "udot-vs-twin-with-motion-and-constraint-forces" : "udot-vs-twin-with-motion-forces(4-body)", worst, CTol::twin, [&] { return where; });
            if (!(worst <= CTol::twin)) F.add(m > 0 ? "udot-vs-twin-with-motion-and-constraint-forces" : "udot-vs-twin-with-motion-forces", std::string(ph) + " worst relative difference " + verif::fmtd(worst));
        }
        // (d) documented power bookkeeping
        checkMotionPower(M.matter, s, tau, F);
        if (m > 0) {
            Vector_<SpatialVec> Fc; Vector fc; M.matter.findConstraintForces(s, Fc, fc);
            Vector_<SpatialVec> F2; Vector f2; M.matter.calcConstraintForcesFromMultipliers(s, lambda, F2, f2);
            Real fs = 1, fe = 0;
            for (int i = 0; i < Fc.size(); ++i) for (int k = 0; k < 2; ++k) for (int j = 0; j < 3; ++j) { fs = std::max(fs, std::abs(Fc[i][k][j])); fe = std::max(fe, std::abs(Fc[i][k][j] - F2[i][k][j])); }
            for (int i = 0; i < fc.size(); ++i) { fs = std::max(fs, std::abs(fc[i])); fe = std::max(fe, std::abs(fc[i] - f2[i])); }
            run.residual("findConstraintForces-vs-forces-from-multipliers", fe / fs, CTol::power, [&] { return where; });
            if (!(fe / fs <= CTol::power)) F.add("findConstraintForces-differs-from-multiplier-forces", verif::fmtd(fe / fs));
            Real ref = 0, sc = 1;
            for (int i = 0; i < Fc.size(); ++i) { const SpatialVec& V = M.matter.getMobilizedBody(MobilizedBodyIndex(i)).getBodyVelocity(s); const Real p = ~Fc[i][0] * V[0] + ~Fc[i][1] * V[1]; ref -= p; sc += std::abs(p); }
            for (int i = 0; i < fc.size(); ++i) { ref -= fc[i] * u[i]; sc += std::abs(fc[i] * u[i]); }
            const Real pc = M.matter.calcConstraintPower(s);
            run.residual("calcConstraintPower-vs-documented-formula", std::abs(pc - ref) / sc, CTol::power, [&] { return where; });
            if (!(std::abs(pc - ref) <= CTol::power * sc)) F.add("calcConstraintPower-not-documented-formula", "power " + verif::fmtd(pc) + " expected " + verif::fmtd(ref));
            Real sum = 0; for (auto& k : S.cons) if (!k.isDisabled(s)) sum += k.calcPower(s);
            if (!(std::abs(pc - sum) <= CTol::power * sc)) F.add("calcConstraintPower-not-sum-of-Constraint::calcPower", "power " + verif::fmtd(pc) + " sum " + verif::fmtd(sum));
            // scleronomic holonomic constraints: forces ~G lambda, velocity error G u, so power = -lambda . verr exactly; in
            // particular they do no work on the velocity manifold ("within machine precision of zero")
            if (c.cons == CRodBC || c.cons == CBallBC || c.cons == CRodGD || c.cons == CRodAD || c.cons == CCouplerFree || c.cons == CCouplerGov) {
                const Vector& ue = s.getUErr(); Real lv = 0, ls = 0;
                for (int i = 0; i < m && i < ue.size(); ++i) { lv += lambda[i] * ue[i]; ls += std::abs(lambda[i] * ue[i]); }
                Real l1 = 0; for (int i = 0; i < m; ++i) l1 += std::abs(lambda[i]);
                const Real r = std::abs(pc + lv) / (sc + ls + l1 * gNorm * uScale);     // (rounding floor of verr = G u times |lambda|)
                run.residual(onManifold ? "workless-constraint-power-on-manifold" : "workless-constraint-power-vs-minus-lambda-dot-verr", r, CTol::power, [&] { return where; });
                if (!(r <= CTol::power)) F.add(onManifold ? "workless-constraint-does-work-on-manifold" : "workless-constraint-power-not-minus-lambda-dot-verr", "power " + verif::fmtd(pc) + " lambda.verr " + verif::fmtd(lv));
            }
        }
        oh = verif::hashMix(oh, verif::hashPod(m * 1000 + nMult * 10 + (wellPosed ? 1 : 0) + (onManifold ? 2 : 0)));
        if (run.verbose) {
            printf("%s\n t=%g m=%d wellPosed=%d\n udot(all)=", where.c_str(), t, m, (int)wellPosed);
            for (int i = 0; i < a.size(); ++i) printf("%.17g ", a[i]); printf("\n twin udot="); for (int i = 0; i < b.size(); ++i) printf("%.17g ", b[i]);
            printf("\n tau="); for (int i = 0; i < tau.size(); ++i) printf("%.17g ", tau[i]);
            printf("\n lambda="); for (int i = 0; i < m; ++i) printf("%.17g ", lambda[i]);
            printf("\n udoterr="); for (int i = 0; i < s.getNUDotErr(); ++i) printf("%.17g ", s.getUDotErr()[i]); printf("\n");
        }
    };
    // phase A: prescribe, realize (the state need not satisfy the position / velocity constraints)
    try {
        M.system.realize(s, Stage::Time);
        M.system.prescribe(s);
        M.system.realize(s, Stage::Acceleration);
    } catch (const std::exception& e) {
        run.count(std::string("final-realize-threw/") + govName(c.gov)); R.rejected = true; return R;
    }
    evaluate("prescribe", false);
    // phase B: project (prescribed values kept, constraints satisfied), realize
    bool projectOk = false;
    if (!S.cons.empty()) {
        projectOk = doProject("final");
        if (projectOk) {
            try { M.system.realize(s, Stage::Acceleration); evaluate("project", true); }
            catch (const std::exception& e) { run.count(std::string("realize-after-project-threw/") + cconsName(c.cons)); }
        }
    }
    run.outcome(verif::hashMix(oh, verif::hashPod(c.gov * 64 + c.cons * 4 + (projectOk ? 1 : 0))));
    return R;
}

// violation key = failing clause / governance kind [/ constraint set]; the immediate effect of lockAt(values, Velocity) on the
// state does not depend on what governs the mobilizer or on the constraints, so that clause is its own key
static std::string keyOf(const std::string& clause, const std::string& suffix) { return clause == "lockAt(V)-did-not-set-u-immediately" ? clause : clause + "/" + suffix; }
static std::string histStr(const std::vector<int>& h, const char* (*nm)(int) = opName) { std::string s; for (int o : h) s += std::string(nm(o)) + " ; "; return s; }
static std::string histIdx(const std::vector<int>& h) { std::string s; for (size_t i = 0; i < h.size(); ++i) s += (i ? "," : "") + std::to_string(h[i]); return s; }
static std::vector<std::vector<int>> allHistories(int depth, int nops) {
    std::vector<std::vector<int>> hists = {{}};
    for (int d = 1; d <= depth; ++d) { size_t n0 = hists.size(); for (size_t i = 0; i < n0; ++i) if ((int)hists[i].size() == d - 1) for (int o = 0; o < nops; ++o) { auto h = hists[i]; h.push_back(o); hists.push_back(h); } }
    return hists;
}

int main(int argc, char** argv) {
    verif::Run run("C10", argc, argv);
    run.setDeadline(240, 3000);
    const bool th = run.thorough();
    const int depth = th ? 3 : 2;
    const int vs = (int)(((run.seed % 3) + 3) % 3);
    run.rule = "E2. Section histories: case = (governed mobilizer kind (16) x direction x role{base,tip} x coordinate option x governance kind{free, Steady, Sinusoid P/V/A, Custom P/V/A (A: udot(t,q,u) through calcPrescribedAcceleration only), Custom V depending on another mobilizer's q, unit-quaternion Custom P, lockByDefault P/V/A}) x every operation history of depth <= 2 (quick) / 3 (thorough) over 16 operations (lock, and lockAt with explicit non-zero values, at each of the three levels; unlock; Motion disable/enable; Steady.setRate; set q/u; set time; prescribe; realize). "
               "Section constrained: four-body tree Ground-A-B-D, Ground-C; case = (governed kind x governed position A/B/C/D x coordinate option x 13 governance kinds x 10 constraint sets {none, Rod(B,C), Ball(B,C), Rod(Ground,D), Rod(A,D) (ancestor A), ConstantSpeed and ConstantAcceleration on a free mobility, CoordinateCoupler(free,free), CoordinateCoupler(governed,free), Rod+ConstantAcceleration+Coupler} (the governed mobilizer is inside the loop for some positions and outside for others) x second governed mobilizer {none, lock(P), Motion::Steady, Motion::Sinusoid(A); thorough also lockAt(V), lockAt(A) with non-zero values}) x every history of depth <= 1 over 18 operations (the 6 lock operations, unlock, Motion disable/enable, set q/u, set time, prescribe, project, realize, set the other bodies' q/u, constraint disable/enable); thorough adds every depth-2 history with no second governed mobilizer. "
               "Oracle after each history as described in the header; distinct = distinct (case, history); non-trivial = the history was accepted and judged";
    run.assumptions = {"two-body trees (governed body + a Pin companion) in section histories; one fixed four-body tree in section constrained with a generic start state from value table seed%3",
        "position-level Motions on quaternion coordinates are skipped (counted) when the library refuses them",
        "prescribed values compared to 1e-12 relative (locks bitwise), udot against the twin to 1e-11 relative",
        "constraint acceleration errors are demanded to vanish only when the rows of G restricted to the free accelerations are independent (smallest eigenvalue of the row-normalised Gram matrix > 1e-4, computed in the harness); otherwise counted as unspecified",
        "project() is called with accuracy 1e-10; when it throws (state too far from the manifold, or constraint inconsistent with the prescription) the projected phase is skipped and counted"};
    const int kinds[] = {mb::KPin, mb::KSlider, mb::KUniversal, mb::KCylinder, mb::KPlanar, mb::KGimbal, mb::KBushing, mb::KBall, mb::KFree, mb::KTranslation, mb::KScrew, mb::KEllipsoid, mb::KBendStretch, mb::KSphericalDefault, mb::KCustomPin, mb::KFBPlanar};
    std::vector<Case> cases;
    for (int k : kinds) for (int dir = 0; dir < 2; ++dir) for (int role = 0; role < 2; ++role) for (int eu = 0; eu < 2; ++eu) for (int g = 0; g < NGOV; ++g) {
        if (dir && !mb::kindReversible(k)) continue;
        if (dir && !th && g % 3 != 0 && g != GQuatP) continue;                      // quick: reversed only with every third governance kind
        if (eu && !mb::kindHasQuaternion(k)) continue;               // the option only matters for quaternion kinds
        if (g == GQuatP && (eu || !(k == mb::KBall || k == mb::KFree))) continue;   // unit-quaternion trajectory: Ball and Free in quaternion mode
        cases.push_back({k, dir, role, eu, g});
    }
    const std::vector<std::vector<int>> hists = allHistories(depth, NOPS);

    // ---- section constrained: cases
    struct KD { int kind, dir; };
    std::vector<KD> ckinds = {{mb::KPin, 0}, {mb::KUniversal, 0}, {mb::KBall, 0}, {mb::KFree, 0}};
    if (th) for (KD x : std::vector<KD>{{mb::KPin, 1}, {mb::KSlider, 0}, {mb::KPlanar, 0}, {mb::KGimbal, 0}, {mb::KFree, 1}, {mb::KEllipsoid, 0}}) ckinds.push_back(x);
    const int nsec = th ? (int)NSEC : 4;
    std::vector<CCase> ccases; std::vector<int> cdepth;
    for (int pass = 0; pass < (th ? 2 : 1); ++pass)            // pass 0: depth <= 1, all second governors; pass 1 (thorough): depth 2 exactly, no second governor, the four quick kinds
        for (size_t ki = 0; ki < (pass ? (size_t)4 : ckinds.size()); ++ki) for (int pos = 0; pos < 4; ++pos) for (int eu = 0; eu < 2; ++eu) for (int g = 0; g < NGOV; ++g) for (int cn = 0; cn < NCC; ++cn) for (int sec = 0; sec < (pass ? 1 : nsec); ++sec) {
            const KD kd = ckinds[ki];
            if (eu && !th && !mb::kindHasQuaternion(kd.kind)) continue;            // quick: the Euler option only when the governed mobilizer itself has a quaternion
            if (g == GQuatP && (eu || !(kd.kind == mb::KBall || kd.kind == mb::KFree))) continue;
            ccases.push_back({kd.kind, kd.dir, pos, eu, g, cn, sec}); cdepth.push_back(pass ? 2 : 1);
        }
    const std::vector<std::vector<int>> chists1 = allHistories(1, NCOPS);
    std::vector<std::vector<int>> chists2; for (auto& h : allHistories(2, NCOPS)) if (h.size() == 2) chists2.push_back(h);

    auto caseReplay = [](const Case& c, const std::vector<int>& h, int64_t i) {
        return "section=histories\nitem=" + std::to_string(i) + "\nkind=" + std::to_string(c.kind) + "\ndir=" + std::to_string(c.dir) + "\nrole=" + std::to_string(c.role) + "\neuler=" + std::to_string(c.euler) + "\ngov=" + std::to_string(c.gov) + "\nhistory=" + histIdx(h) + "\n";
    };
    auto ccaseReplay = [&](const CCase& c, const std::vector<int>& h, int64_t i) {
        return "section=constrained\nitem=" + std::to_string(i) + "\nkind=" + std::to_string(c.kind) + "\ndir=" + std::to_string(c.dir) + "\npos=" + std::to_string(c.pos) + "\neuler=" + std::to_string(c.euler) + "\ngov=" + std::to_string(c.gov) + "\ncons=" + std::to_string(c.cons) + "\nsec=" + std::to_string(c.sec) + "\nvalueset=" + std::to_string(vs) + "\nhistory=" + histIdx(h) + "\n";
    };
    if (run.replaying()) {
        std::vector<int> h; { std::stringstream ss(run.replayField("history")); std::string t; while (std::getline(ss, t, ',')) if (!t.empty()) h.push_back(atoi(t.c_str())); }
        auto fld = [&](const char* n) { return atoi(run.replayField(n).c_str()); };
        Result r;
        if (run.replayField("section") == "constrained") {
            CCase c{fld("kind"), fld("dir"), fld("pos"), fld("euler"), fld("gov"), fld("cons"), fld("sec")};
            printf("case %s history [%s]\n", c.str().c_str(), histStr(h, copName).c_str());
            r = runConstrained(run, c, h, fld("valueset"));
        } else {
            Case c{fld("kind"), fld("dir"), fld("role"), fld("euler"), fld("gov")};
            printf("case %s history [%s]\n", c.str().c_str(), histStr(h).c_str());
            r = runHistory(run, c, h);
        }
        if (r.ok()) { printf("holds%s\n", r.rejected ? " (rejected)" : ""); return 0; }
        for (auto& f : r.F.v) printf("FAILS key=%s %s\n", f.first.c_str(), f.second.c_str());
        printf("VIOLATION property=C10 replay=%s\n", run.replayPath.c_str());
        return 1;
    }
    run.parallel("histories", (int64_t)cases.size(), [&](int64_t i) {
        const Case& c = cases[i];
        for (auto& h : hists) {
            Result r = runHistory(run, c, h);
            if (r.rejected) { run.evaluationDistinct(false); continue; }
            run.evaluationDistinct(true);
            for (auto& f : r.F.v) run.violation(keyOf(f.first, govName(c.gov)), c.str() + " history [" + histStr(h) + "]: " + f.second, caseReplay(c, h, i));
        }
        if (i % 37 == 0) run.sample(c.str() + " x " + std::to_string(hists.size()) + " histories, e.g. [" + histStr(hists.back()) + "]");
    });
    run.parallel("constrained", (int64_t)ccases.size(), [&](int64_t i) {
        const CCase& c = ccases[i];
        for (auto& h : (cdepth[i] == 1 ? chists1 : chists2)) {
            Result r = runConstrained(run, c, h, vs);
            if (r.rejected) { run.evaluationDistinct(false); continue; }
            run.evaluationDistinct(true);
            for (auto& f : r.F.v) run.violation(keyOf(f.first, std::string(govName(c.gov)) + "/" + cconsName(c.cons)), c.str() + " history [" + histStr(h, copName) + "]: " + f.second, ccaseReplay(c, h, i));
        }
        if (i % 997 == 0) run.sample(c.str() + " x " + std::to_string(cdepth[i] == 1 ? chists1.size() : chists2.size()) + " histories");
    });
    run.extraCoverage["history_depth"] = std::to_string(depth);
    run.extraCoverage["histories_per_case"] = std::to_string(hists.size());
    run.extraCoverage["constrained_cases"] = std::to_string(ccases.size());
    run.extraCoverage["constrained_histories_per_case_depth1"] = std::to_string(chists1.size());
    return run.finish();
}
