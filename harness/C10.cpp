// C10 -- Prescribed motion and locks are honoured exactly.
// Engine E2 + twin-system differential: for every (governed mobilizer kind x role x coordinate option x
// governance kind) all operation histories up to a depth over {lock(level), lockAt, unlock, Motion
// disable/enable, set q/u, set time, prescribe, realize} are replayed on the real system; after each,
// prescribe+realize(Acceleration) must give (1) governed q/u/udot equal to the prescribed values of a
// boring harness model of "who governs this mobilizer now", (2) zero motion errors at all three levels,
// (3) accelerations equal to those of a TWIN system without any prescription in which the reported
// motion forces are applied as ordinary mobility forces, and bitwise equal to the twin when nothing governs.
#include "Simbody.h"
#include "verif.h"
#include "models.h"

using namespace SimTK;

// ---------------------------------------------------------------- governance kinds for the governed body
enum Gov { GFree, GSteady, GSinP, GSinV, GSinA, GCustomP, GCustomV, GDefLockP, GDefLockV, GDefLockA, GQuatP, NGOV };
static const char* govName(int g) { static const char* n[] = {"free", "Steady", "Sinusoid(P)", "Sinusoid(V)", "Sinusoid(A)", "Custom(P)", "Custom(V)", "lockByDefault(P)", "lockByDefault(V)", "lockByDefault(A)", "CustomQuaternion(P)"}; return n[g]; }
static const Real SA = 0.35, SW = 1.7, SP = 0.4;    // sinusoid amplitude, rate, phase
static const Real STEADY = 0.7;

// custom motion: per-coordinate polynomial c0+c1 t+c2 t^2 with coordinate-dependent coefficients
class PolyMotion : public Motion::Custom::Implementation {
public:
    explicit PolyMotion(Motion::Level l) : level(l) {}
    Implementation* clone() const override { return new PolyMotion(*this); }
    Motion::Level getLevel(const State&) const override { return level; }
    static Real c0(int i) { return 0.2 - 0.1 * i; } static Real c1(int i) { return 0.3 + 0.05 * i; } static Real c2(int i) { return -0.4 + 0.1 * i; }
    void calcPrescribedPosition(const State& s, int nq, Real* q) const override { Real t = s.getTime(); for (int i = 0; i < nq; ++i) q[i] = c0(i) + c1(i) * t + c2(i) * t * t; }
    void calcPrescribedPositionDot(const State& s, int nq, Real* qd) const override { Real t = s.getTime(); for (int i = 0; i < nq; ++i) qd[i] = c1(i) + 2 * c2(i) * t; }
    void calcPrescribedPositionDotDot(const State&, int nq, Real* qdd) const override { for (int i = 0; i < nq; ++i) qdd[i] = 2 * c2(i); }
    void calcPrescribedVelocity(const State& s, int nu, Real* u) const override { Real t = s.getTime(); for (int i = 0; i < nu; ++i) u[i] = c0(i) + c1(i) * t + c2(i) * t * t; }
    void calcPrescribedVelocityDot(const State& s, int nu, Real* ud) const override { Real t = s.getTime(); for (int i = 0; i < nu; ++i) ud[i] = c1(i) + 2 * c2(i) * t; }
    Motion::Level level;
};

// position-level motion for quaternion mobilizers: rotation about a fixed axis A by theta(t) = T0 + T1 t + T2 t^2/2 (unit
// quaternion trajectory with analytic first and second derivatives); translational q's (Free) follow PolyMotion's polynomials
static const Vec3 QA = Vec3(0.36, -0.48, 0.8);      // unit axis
static const Real QT0 = 0.5, QT1 = 0.9, QT2 = -0.7;
class QuatMotion : public Motion::Custom::Implementation {
public:
    Implementation* clone() const override { return new QuatMotion(*this); }
    Motion::Level getLevel(const State&) const override { return Motion::Position; }
    static void th(Real t, Real& a, Real& ad, Real& add) { a = QT0 + QT1 * t + 0.5 * QT2 * t * t; ad = QT1 + QT2 * t; add = QT2; }
    void calcPrescribedPosition(const State& s, int nq, Real* q) const override {
        Real a, ad, add; th(s.getTime(), a, ad, add); q[0] = std::cos(a / 2); for (int i = 0; i < 3; ++i) q[1 + i] = QA[i] * std::sin(a / 2);
        Real t = s.getTime(); for (int i = 4; i < nq; ++i) q[i] = PolyMotion::c0(i) + PolyMotion::c1(i) * t + PolyMotion::c2(i) * t * t;
    }
    void calcPrescribedPositionDot(const State& s, int nq, Real* qd) const override {
        Real a, ad, add; th(s.getTime(), a, ad, add); qd[0] = -0.5 * ad * std::sin(a / 2); for (int i = 0; i < 3; ++i) qd[1 + i] = 0.5 * ad * QA[i] * std::cos(a / 2);
        Real t = s.getTime(); for (int i = 4; i < nq; ++i) qd[i] = PolyMotion::c1(i) + 2 * PolyMotion::c2(i) * t;
    }
    void calcPrescribedPositionDotDot(const State& s, int nq, Real* qdd) const override {
        Real a, ad, add; th(s.getTime(), a, ad, add);
        qdd[0] = -0.5 * add * std::sin(a / 2) - 0.25 * ad * ad * std::cos(a / 2);
        for (int i = 0; i < 3; ++i) qdd[1 + i] = QA[i] * (0.5 * add * std::cos(a / 2) - 0.25 * ad * ad * std::sin(a / 2));
        for (int i = 4; i < nq; ++i) qdd[i] = 2 * PolyMotion::c2(i);
    }
};

struct Sys {
    std::unique_ptr<mb::Model> M;
    Motion motion; bool hasMotion = false;
    Force::DiscreteForces inject;    // used in the twin only
    int gi = 0;                      // index of the governed body in M->bodies
};

// role 0: governed body is the base (child Pin);  role 1: governed body is the tip (parent Pin base)
static Sys buildSys(int kind, int dir, int role, bool euler, int gov, bool twin) {
    Sys S;
    mb::BodySpec g; g.kind = kind; g.dir = dir; g.frames = 3; g.mass = 0;
    mb::BodySpec p; p.kind = mb::KPin; p.frames = 3; p.mass = 1;
    std::vector<mb::BodySpec> specs;
    if (role == 0) { g.parent = -1; p.parent = 0; specs = {g, p}; S.gi = 0; }
    else { p.parent = -1; g.parent = 0; specs = {p, g}; S.gi = 1; }
    S.M = mb::build(specs, euler);
    mb::Model& M = *S.M;
    Force::Gravity(M.forces, M.matter, UnitVec3(0.2, -1, 0.1), 9.8);
    Force::MobilityLinearDamper(M.forces, M.bodies[1 - S.gi], MobilizerUIndex(0), 0.8);
    S.inject = Force::DiscreteForces(M.forces, M.matter);
    if (!twin) {
        MobilizedBody& gb = M.bodies[S.gi];
        switch (gov) {
            case GSteady: S.motion = Motion::Steady(gb, STEADY); S.hasMotion = true; break;
            case GSinP: S.motion = Motion::Sinusoid(gb, Motion::Position, SA, SW, SP); S.hasMotion = true; break;
            case GSinV: S.motion = Motion::Sinusoid(gb, Motion::Velocity, SA, SW, SP); S.hasMotion = true; break;
            case GSinA: S.motion = Motion::Sinusoid(gb, Motion::Acceleration, SA, SW, SP); S.hasMotion = true; break;
            case GCustomP: S.motion = Motion::Custom(gb, new PolyMotion(Motion::Position)); S.hasMotion = true; break;
            case GCustomV: S.motion = Motion::Custom(gb, new PolyMotion(Motion::Velocity)); S.hasMotion = true; break;
            case GQuatP: S.motion = Motion::Custom(gb, new QuatMotion()); S.hasMotion = true; break;
            case GDefLockP: gb.lockByDefault(Motion::Position); break;
            case GDefLockV: gb.lockByDefault(Motion::Velocity); break;
            case GDefLockA: gb.lockByDefault(Motion::Acceleration); break;
            default: break;
        }
    }
    M.system.realizeTopology();
    return S;
}

// ---------------------------------------------------------------- boring model of governance
struct GovModel {
    int lockLevel = -1;              // -1 none, 0 P, 1 V, 2 A
    std::vector<double> lockVal;     // q (P) or u (V) captured when locked
    bool motionEnabled = false;
    int gov = GFree;
    double steadyRate = 0.7;
    // active governance level: 0 P, 1 V, 2 A, -1 none ; source 0 lock, 1 motion
    int activeLevel() const {
        if (lockLevel >= 0) return lockLevel;
        if (motionEnabled) switch (gov) { case GSteady: case GSinV: case GCustomV: return 1; case GSinP: case GCustomP: case GQuatP: return 0; case GSinA: return 2; default: return -1; }
        return -1;
    }
    bool byLock() const { return lockLevel >= 0; }
};

enum OpK { OLockP, OLockV, OLockA, OLockAtP, OUnlock, OMotionDisable, OMotionEnable, OSetQ, OSetU, OSetTime, OPrescribe, ORealizeAcc, OSetQOther, OSetRate, NOPS };
static const char* opName(int o) { static const char* n[] = {"lock(P)", "lock(V)", "lock(A)", "lockAt(vec,P)", "unlock", "motion.disable", "motion.enable", "setQ(governed)", "setU(governed)", "setTime(0.3)", "prescribe", "realize(Acceleration)", "setQ(other)", "Steady.setRate(1.3)"}; return n[o]; }

struct Case { int kind, dir, role, euler, gov; std::string str() const { return std::string(mb::kindName(kind)) + (dir ? "/rev" : "/fwd") + (role ? "/tip" : "/base") + (euler ? "/euler" : "/quat") + " gov=" + govName(gov); } };

static Vector genericQ(const mb::Model& M, State& s, int bi, int vs) { State t = s; mb::setBodyQ(M, t, bi, 1, vs); return M.bodies[bi].getQAsVector(t); }

struct Result { bool ok = true; std::string key, what; };
static const double TOLV = 1e-12;

static Result runHistory(verif::Run& run, const Case& c, const std::vector<int>& hist) {
    Result R;
    Sys S = buildSys(c.kind, c.dir, c.role, c.euler != 0, c.gov, false);
    mb::Model& M = *S.M; const MobilizedBody& gb = M.bodies[S.gi];
    State s = M.system.getDefaultState();
    M.matter.setUseEulerAngles(s, M.euler); M.system.realizeModel(s);
    const int nq = gb.getNumQ(s), nu = gb.getNumU(s);
    GovModel G; G.gov = c.gov; G.motionEnabled = S.hasMotion;
    if (c.gov == GDefLockP) { G.lockLevel = 0; Vector q = gb.getQAsVector(s); G.lockVal.assign(&q[0], &q[0] + nq); }
    if (c.gov == GDefLockV) { G.lockLevel = 1; G.lockVal.assign(nu, 0.0); }
    if (c.gov == GDefLockA) { G.lockLevel = 2; }
    auto fail = [&](const std::string& k, const std::string& w) { if (R.ok) { R.ok = false; R.key = k; R.what = w; } };
    try {
        for (int o : hist) {
            switch (o) {
                case OLockP: { Vector q0 = gb.getQAsVector(s); gb.lock(s, Motion::Position); G.lockLevel = 0; Vector q = gb.getQAsVector(s); G.lockVal.assign(&q[0], &q[0] + nq);
                    // documented immediate effect: q unchanged, u of this mobilizer set to zero in the state
                    for (int i = 0; i < nq; ++i) if (memcmp(&q[i], &q0[i], sizeof(double))) fail("lock(P)-changed-q", "q[" + std::to_string(i) + "]");
                    Vector u1 = gb.getUAsVector(s); for (int i = 0; i < nu; ++i) if (u1[i] != 0) fail("lock(P)-did-not-zero-u-immediately", "u[" + std::to_string(i) + "]=" + verif::fmtd(u1[i])); } break;
                case OLockV: gb.lock(s, Motion::Velocity); G.lockLevel = 1; { Vector u = gb.getUAsVector(s); G.lockVal.assign(&u[0], &u[0] + nu); } break;
                case OLockA: gb.lock(s, Motion::Acceleration); G.lockLevel = 2; G.lockVal.clear(); break;
                case OLockAtP: { Vector q = genericQ(M, s, S.gi, 2); gb.lockAt(s, q, Motion::Position); G.lockLevel = 0; G.lockVal.assign(&q[0], &q[0] + nq);
                    Vector q1 = gb.getQAsVector(s), u1 = gb.getUAsVector(s);
                    for (int i = 0; i < nq; ++i) if (memcmp(&q[i], &q1[i], sizeof(double))) fail("lockAt(P)-did-not-set-q-immediately", "q[" + std::to_string(i) + "]");
                    for (int i = 0; i < nu; ++i) if (u1[i] != 0) fail("lockAt(P)-did-not-zero-u-immediately", "u[" + std::to_string(i) + "]=" + verif::fmtd(u1[i])); } break;
                case OUnlock: gb.unlock(s); G.lockLevel = -1; G.lockVal.clear(); break;
                case OMotionDisable: if (S.hasMotion) { S.motion.disable(s); G.motionEnabled = false; } break;
                case OMotionEnable: if (S.hasMotion) { S.motion.enable(s); G.motionEnabled = true; } break;
                case OSetQ: mb::setBodyQ(M, s, S.gi, 1, 0); break;
                case OSetU: mb::setBodyU(M, s, S.gi, 1, 0); break;
                case OSetTime: s.setTime(0.3); break;
                case OPrescribe: M.system.realize(s, Stage::Time); M.system.prescribe(s); break;
                case ORealizeAcc: M.system.realize(s, Stage::Acceleration); break;
                case OSetRate: if (c.gov == GSteady) { Motion::Steady::downcast(S.motion).setRate(s, 1.3); G.steadyRate = 1.3; } break;
                case OSetQOther: mb::setBodyQ(M, s, 1 - S.gi, 1, 1); mb::setBodyU(M, s, 1 - S.gi, 1, 1); break;
            }
        }
    } catch (const std::exception& e) {
        run.count("history-rejected-by-library"); R.key = "rejected"; return R;
    }
    // documented immediate effects of lock on the state (checked through the final state below as well)
    const int level = G.activeLevel();
    if (level == 0 && !G.byLock() && mb::kindHasQuaternion(c.kind) && !c.euler && c.gov != GQuatP) { run.count("skipped:position-level-motion-on-quaternion"); R.key = "rejected"; return R; }
    // final: prescribe, then realize
    try {
        M.system.realize(s, Stage::Time);
        M.system.prescribe(s);
        M.system.realize(s, Stage::Acceleration);
    } catch (const std::exception& e) {
        // position-level prescription of quaternion coordinates etc. may legitimately be refused; count by message class
        run.count(std::string("final-realize-threw/") + govName(c.gov) + (mb::kindHasQuaternion(c.kind) && !c.euler ? "/quat" : ""));
        R.key = "rejected"; return R;
    }
    const Real t = s.getTime();
    const Vector q = gb.getQAsVector(s), u = gb.getUAsVector(s), ud = gb.getUDotAsVector(s);
    auto near = [&](Real a, Real b) { return std::abs(a - b) <= TOLV * std::max({Real(1), std::abs(a), std::abs(b)}); };
    run.transition(1);
    // (1) governed values
    if (G.byLock()) {
        if (level == 0) {
            for (int i = 0; i < nq; ++i) if (memcmp(&q[i], &G.lockVal[i], sizeof(double))) fail("locked-q-not-held", "q[" + std::to_string(i) + "]=" + verif::fmtd(q[i]) + " but locked at " + verif::fmtd(G.lockVal[i]));
            for (int i = 0; i < nu; ++i) if (u[i] != 0) fail("locked-P-u-not-zero", "u[" + std::to_string(i) + "]=" + verif::fmtd(u[i]));
            for (int i = 0; i < nu; ++i) if (!near(ud[i], 0)) fail("locked-P-udot-not-zero", "udot[" + std::to_string(i) + "]=" + verif::fmtd(ud[i]));
        } else if (level == 1) {
            for (int i = 0; i < nu; ++i) if (memcmp(&u[i], &G.lockVal[i], sizeof(double))) fail("locked-u-not-held", "u[" + std::to_string(i) + "]=" + verif::fmtd(u[i]) + " but locked at " + verif::fmtd(G.lockVal[i]));
            for (int i = 0; i < nu; ++i) if (!near(ud[i], 0)) fail("locked-V-udot-not-zero", "udot[" + std::to_string(i) + "]=" + verif::fmtd(ud[i]));
        } else {
            for (int i = 0; i < nu; ++i) if (!near(ud[i], 0)) fail("locked-A-udot-not-zero", "udot[" + std::to_string(i) + "]=" + verif::fmtd(ud[i]));
        }
    } else if (level == 0 && c.gov == GQuatP) {
        // unit-quaternion trajectory: q, qdot, qdotdot as prescribed; u = A*theta' (angular velocity about the fixed axis, same in F and M)
        // and udot = A*theta'' for the rotational speeds; translational q's (Free) follow the polynomials with u = qdot
        QuatMotion qm; std::vector<Real> pq(nq), pqd(nq), pqdd(nq);
        qm.calcPrescribedPosition(s, nq, pq.data()); qm.calcPrescribedPositionDot(s, nq, pqd.data()); qm.calcPrescribedPositionDotDot(s, nq, pqdd.data());
        const Vector qd = gb.getQDotAsVector(s), qdd = gb.getQDotDotAsVector(s);
        Real a, ad, add; QuatMotion::th(t, a, ad, add);
        for (int i = 0; i < nq; ++i) {
            if (!near(q[i], pq[i])) fail("prescribed-q-wrong", "q[" + std::to_string(i) + "]=" + verif::fmtd(q[i]) + " prescribed " + verif::fmtd(pq[i]));
            if (std::abs(qd[i] - pqd[i]) > 1e-11) fail("prescribed-qdot-wrong", "qdot[" + std::to_string(i) + "]=" + verif::fmtd(qd[i]) + " prescribed " + verif::fmtd(pqd[i]));
            if (std::abs(qdd[i] - pqdd[i]) > 1e-10) fail("prescribed-qdotdot-wrong", "qdotdot[" + std::to_string(i) + "]=" + verif::fmtd(qdd[i]) + " prescribed " + verif::fmtd(pqdd[i]));
        }
        for (int i = 0; i < 3 && i < nu; ++i) {
            if (std::abs(u[i] - QA[i] * ad) > 1e-11) fail("prescribed-angular-velocity-wrong", "u[" + std::to_string(i) + "]=" + verif::fmtd(u[i]) + " expected " + verif::fmtd(QA[i] * ad));
            if (std::abs(ud[i] - QA[i] * add) > 1e-10) fail("prescribed-angular-acceleration-wrong", "udot[" + std::to_string(i) + "]=" + verif::fmtd(ud[i]) + " expected " + verif::fmtd(QA[i] * add));
        }
    } else if (level >= 0) {
        const Real sn = SA * std::sin(SW * t + SP), cs = SA * SW * std::cos(SW * t + SP), sn2 = -SA * SW * SW * std::sin(SW * t + SP);
        const Vector qd = gb.getQDotAsVector(s), qdd = gb.getQDotDotAsVector(s);
        for (int i = 0; i < (level == 0 ? nq : nu); ++i) {
            Real p0, p1, p2;   // prescribed value, first and second derivative at the prescription level
            if (c.gov == GSteady) { p0 = G.steadyRate; p1 = 0; p2 = 0; }
            else if (c.gov == GCustomP || c.gov == GCustomV) { p0 = PolyMotion::c0(i) + PolyMotion::c1(i) * t + PolyMotion::c2(i) * t * t; p1 = PolyMotion::c1(i) + 2 * PolyMotion::c2(i) * t; p2 = 2 * PolyMotion::c2(i); }
            else { p0 = sn; p1 = cs; p2 = sn2; }
            if (level == 0) {
                if (!near(q[i], p0)) fail("prescribed-q-wrong", "q[" + std::to_string(i) + "]=" + verif::fmtd(q[i]) + " prescribed " + verif::fmtd(p0));
                if (!near(qd[i], p1)) fail("prescribed-qdot-wrong", "qdot[" + std::to_string(i) + "]=" + verif::fmtd(qd[i]) + " prescribed " + verif::fmtd(p1));
                if (std::abs(qdd[i] - p2) > 1e-10 * std::max(Real(1), std::abs(p2))) fail("prescribed-qdotdot-wrong", "qdotdot[" + std::to_string(i) + "]=" + verif::fmtd(qdd[i]) + " prescribed " + verif::fmtd(p2));
            } else if (level == 1) {
                if (!near(u[i], p0)) fail("prescribed-u-wrong", "u[" + std::to_string(i) + "]=" + verif::fmtd(u[i]) + " prescribed " + verif::fmtd(p0));
                if (!near(ud[i], p1)) fail("prescribed-udot-wrong", "udot[" + std::to_string(i) + "]=" + verif::fmtd(ud[i]) + " prescribed " + verif::fmtd(p1));
            } else {
                if (!near(ud[i], p0)) fail("prescribed-udot-wrong", "udot[" + std::to_string(i) + "]=" + verif::fmtd(ud[i]) + " prescribed " + verif::fmtd(p0));
            }
        }
    }
    // (2) motion errors
    for (Stage g : {Stage::Position, Stage::Velocity, Stage::Acceleration}) {
        Vector e = M.matter.calcMotionErrors(s, g);
        for (int i = 0; i < e.size(); ++i) if (!(std::abs(e[i]) <= 1e-10)) fail(std::string("calcMotionErrors-nonzero/") + g.getName(), "error[" + std::to_string(i) + "]=" + verif::fmtd(e[i]));
    }
    // (3) twin system without prescription, reported motion forces applied as ordinary mobility forces
    Vector tau; M.matter.findMotionForces(s, tau);
    const int nMult = M.matter.getMotionMultipliers(s).size();
    {
        int expected = level < 0 ? 0 : nu;
        if (nMult != expected) fail("motion-multiplier-count", "getMotionMultipliers has " + std::to_string(nMult) + " entries, expected " + std::to_string(expected));
    }
    Sys T = buildSys(c.kind, c.dir, c.role, c.euler != 0, GFree, true);
    mb::Model& TM = *T.M;
    State ts = TM.system.getDefaultState();
    TM.matter.setUseEulerAngles(ts, TM.euler); TM.system.realizeModel(ts);
    ts.setTime(t); ts.updQ() = s.getQ(); ts.updU() = s.getU();
    // documented sign convention (calcMotionPower: power = -dot(tau,u)): tau are reaction multipliers on the
    // left-hand side, M udot + tau = f, so as an ordinary applied force they enter with the opposite sign
    if (level >= 0) T.inject.setAllMobilityForces(ts, -1 * tau);
    TM.system.realize(ts, Stage::Acceleration);
    const Vector& a = s.getUDot(); const Vector& b = ts.getUDot();
    if (level < 0) {
        for (int i = 0; i < a.size(); ++i) if (memcmp(&a[i], &b[i], sizeof(double))) fail("ungoverned-differs-from-twin", "udot[" + std::to_string(i) + "]=" + verif::fmtd(a[i]) + " twin " + verif::fmtd(b[i]));
    } else {
        Real scale = 1; for (int i = 0; i < a.size(); ++i) scale = std::max({scale, std::abs(a[i]), std::abs(b[i])});
        Real worst = 0; for (int i = 0; i < a.size(); ++i) worst = std::max(worst, std::abs(a[i] - b[i]) / scale);
        run.residual("udot-vs-twin-with-motion-forces", worst, 1e-11, [&] { return c.str(); });
        if (!(worst <= 1e-11)) fail("udot-vs-twin-with-motion-forces", "worst relative difference " + verif::fmtd(worst));
    }
    run.outcome(verif::hashPod(level) ^ (verif::hashPod(G.byLock()) << 1) ^ verif::hashPod((int)nMult * 31 + c.gov));
    if (run.verbose) {
        printf("%s\n active level=%d byLock=%d t=%g\n q=", c.str().c_str(), level, (int)G.byLock(), t);
        for (int i = 0; i < nq; ++i) printf("%.17g ", q[i]); printf("\n u="); for (int i = 0; i < nu; ++i) printf("%.17g ", u[i]);
        printf("\n udot(all)="); for (int i = 0; i < a.size(); ++i) printf("%.17g ", a[i]); printf("\n twin udot="); for (int i = 0; i < b.size(); ++i) printf("%.17g ", b[i]);
        printf("\n tau="); for (int i = 0; i < tau.size(); ++i) printf("%.17g ", tau[i]); printf("\n");
    }
    return R;
}

static std::string histStr(const std::vector<int>& h) { std::string s; for (int o : h) s += std::string(opName(o)) + " ; "; return s; }
static std::string histIdx(const std::vector<int>& h) { std::string s; for (size_t i = 0; i < h.size(); ++i) s += (i ? "," : "") + std::to_string(h[i]); return s; }

int main(int argc, char** argv) {
    verif::Run run("C10", argc, argv);
    run.setDeadline(240, 3000);
    const bool th = run.thorough();
    const int depth = th ? 3 : 2;
    run.rule = "E2: case = (governed mobilizer kind x direction x role{base,tip} x coordinate option x governance kind{free, Steady, Sinusoid P/V/A, Custom P/V, lockByDefault P/V/A}) x every operation history of depth <= d over 13 operations; oracle after each history as described in the header; distinct = distinct (case, history); non-trivial = some governance is active at the end";
    run.assumptions = {"two-body trees (governed body + a Pin companion)", "position-level Motions on quaternion coordinates are skipped (counted) when the library refuses them", "prescribed values compared to 1e-12 relative (locks bitwise), udot against the twin to 1e-11 relative"};
    const int kinds[] = {mb::KPin, mb::KSlider, mb::KUniversal, mb::KCylinder, mb::KPlanar, mb::KGimbal, mb::KBushing, mb::KBall, mb::KFree, mb::KTranslation, mb::KScrew, mb::KEllipsoid, mb::KBendStretch, mb::KSphericalDefault, mb::KCustomPin, mb::KFBPlanar};
    std::vector<Case> cases;
    for (int k : kinds) for (int dir = 0; dir < 2; ++dir) for (int role = 0; role < 2; ++role) for (int eu = 0; eu < 2; ++eu) for (int g = 0; g < NGOV; ++g) {
        if (dir && !mb::kindReversible(k)) continue;
        if (dir && !th && g % 3 != 0 && g != GQuatP) continue;                      // quick: reversed only with every third governance kind
        if (eu && !mb::kindHasQuaternion(k)) continue;               // the option only matters for quaternion kinds
        if (g == GQuatP && (eu || !(k == mb::KBall || k == mb::KFree))) continue;   // unit-quaternion trajectory: Ball and Free in quaternion mode
        cases.push_back({k, dir, role, eu, g});
    }
    std::vector<std::vector<int>> hists = {{}};
    for (int d = 1; d <= depth; ++d) { size_t n0 = hists.size(); for (size_t i = 0; i < n0; ++i) if ((int)hists[i].size() == d - 1) for (int o = 0; o < NOPS; ++o) { auto h = hists[i]; h.push_back(o); hists.push_back(h); } }

    if (run.replaying()) {
        Case c{atoi(run.replayField("kind").c_str()), atoi(run.replayField("dir").c_str()), atoi(run.replayField("role").c_str()), atoi(run.replayField("euler").c_str()), atoi(run.replayField("gov").c_str())};
        std::vector<int> h; { std::stringstream ss(run.replayField("history")); std::string t; while (std::getline(ss, t, ',')) if (!t.empty()) h.push_back(atoi(t.c_str())); }
        printf("case %s history [%s]\n", c.str().c_str(), histStr(h).c_str());
        Result r = runHistory(run, c, h);
        if (r.ok) { printf("holds (%s)\n", r.key.c_str()); return 0; }
        printf("FAILS key=%s %s\nVIOLATION property=C10 replay=%s\n", r.key.c_str(), r.what.c_str(), run.replayPath.c_str());
        return 1;
    }
    run.parallel("histories", (int64_t)cases.size(), [&](int64_t i) {
        const Case& c = cases[i];
        for (auto& h : hists) {
            Result r = runHistory(run, c, h);
            if (r.key == "rejected") { run.evaluationDistinct(false); continue; }
            run.evaluationDistinct(true);
            if (!r.ok) run.violation(r.key + "/" + govName(c.gov), c.str() + " history [" + histStr(h) + "]: " + r.what,
                "section=histories\nitem=" + std::to_string(i) + "\nkind=" + std::to_string(c.kind) + "\ndir=" + std::to_string(c.dir) + "\nrole=" + std::to_string(c.role) + "\neuler=" + std::to_string(c.euler) + "\ngov=" + std::to_string(c.gov) + "\nhistory=" + histIdx(h) + "\n");
        }
        if (i % 37 == 0) run.sample(c.str() + " x " + std::to_string(hists.size()) + " histories, e.g. [" + histStr(hists.back()) + "]");
    });
    run.extraCoverage["history_depth"] = std::to_string(depth);
    run.extraCoverage["histories_per_case"] = std::to_string(hists.size());
    return run.finish();
}
