// C36 -- Mesh queries match brute force and bounding volumes contain.
// Engine E3 (enum): a fixed family of closed triangle meshes x complete query / ray lattices, compared with
// brute force over all faces (own point-triangle, ray-triangle and winding-number code in engine/geomkit.h);
// every subset of size <= 4 of the 3^3 lattice (all collinear / coplanar / cospherical degenerate configurations
// included) for oriented bounding boxes and bounding spheres; adjacency tables; OBB-tree containment; mesh file
// round trips through files written by the harness (the library has readers only).
#include "SimTKmath.h"
#include "verif.h"
#include "geomkit.h"

#include <fstream>
#include <memory>

using namespace SimTK;
using gk::s3; using gk::sd;

// ------------------------------------------------------------------------------------------------ mesh family
struct MeshCase {
    gk::RefMesh ref;
    bool convex = true; int genus = 0;
    bool viaPolygonal = false, flipInput = false, smooth = false;
    double L = 1;            // size scale
    Vec3 lo, hi;             // bounding box
    std::shared_ptr<ContactGeometry::TriangleMesh> tm;
};

static gk::RefMesh torusMesh(int nu, int nv, double R, double r) {
    gk::RefMesh m; m.name = "torus" + std::to_string(nu) + "x" + std::to_string(nv);
    for (int i = 0; i < nu; ++i) for (int j = 0; j < nv; ++j) {
        double u = 2 * Pi * i / nu, v = 2 * Pi * j / nv;
        m.v.push_back(Vec3((R + r * cos(v)) * cos(u), (R + r * cos(v)) * sin(u), r * sin(v)));
    }
    auto id = [&](int i, int j) { return ((i + nu) % nu) * nv + (j + nv) % nv; };
    for (int i = 0; i < nu; ++i) for (int j = 0; j < nv; ++j) {
        int a = id(i, j), b = id(i + 1, j), c = id(i + 1, j + 1), d = id(i, j + 1);
        m.f.push_back({a, b, c}); m.f.push_back({a, c, d});
    }
    return m;
}
static gk::RefMesh lPrism() {   // non-convex L-shaped prism, height 1
    gk::RefMesh m; m.name = "Lprism";
    double P[6][2] = {{0, 0}, {2, 0}, {2, 1}, {1, 1}, {1, 2}, {0, 2}};   // ccw outline
    for (int k = 0; k < 2; ++k) for (auto& p : P) m.v.push_back(Vec3(p[0] - 0.8, p[1] - 0.9, k ? 0.5 : -0.5));
    int topTri[4][3] = {{0, 1, 2}, {0, 2, 3}, {0, 3, 5}, {3, 4, 5}};
    for (auto& t : topTri) { m.f.push_back({6 + t[0], 6 + t[1], 6 + t[2]}); m.f.push_back({t[0], t[2], t[1]}); }
    for (int i = 0; i < 6; ++i) { int j = (i + 1) % 6; m.f.push_back({i, j, 6 + j}); m.f.push_back({i, 6 + j, 6 + i}); }
    return m;
}

static std::vector<std::string> meshNames(bool thorough) {
    std::vector<std::string> n = {"tetrahedron", "octahedron", "box", "icosphere0", "icosphere1", "icosphere2", "octahedron-rot", "box-rot",
                                  "icosphere1-sliver", "box-plate", "torus12x8", "Lprism", "icosphere1-dented", "box-viaPolygonal-quads",
                                  "icosphere1-viaPolygonal-flipped", "icosphere1-smooth", "Lprism-rot",
                                  "ellipsoid-1x3x0.8-viaPolygonal-flipped", "ellipsoid-1x0.8x3-viaPolygonal-flipped", "ellipsoid-3x1x0.8-viaPolygonal-flipped", "ellipsoid-1x3x0.8-viaPolygonal"};
    if (thorough) { n.push_back("icosphere3"); n.push_back("torus24x12-rot"); n.push_back("icosphere2-sliver"); }
    return n;
}

static MeshCase buildMesh(const std::string& name, long seed) {
    MeshCase C;
    static const double f[3] = {1.0, 0.41, 2.7};
    const double s = f[((seed % 3) + 3) % 3];
    const Vec3 shift = Vec3(0.31, -0.17, 0.23) * s;
    auto rot = [&](const gk::RefMesh& m, int which) { return gk::transformed(m, gk::genericRotation(which), shift, "-rot"); };
    if (name == "tetrahedron") C.ref = gk::tetrahedron(0.9 * s);
    else if (name == "octahedron") C.ref = gk::octahedron(1.3 * s);
    else if (name == "box" || name == "box-viaPolygonal-quads") C.ref = gk::boxMesh(Vec3(1, 1.4, 0.7) * s);
    else if (name == "icosphere0") C.ref = gk::icosphere(0, 1.2 * s);
    else if (name == "icosphere1" || name == "icosphere1-smooth" || name == "icosphere1-viaPolygonal-flipped") C.ref = gk::icosphere(1, 1.2 * s);
    else if (name == "icosphere2") C.ref = gk::icosphere(2, 1.2 * s);
    else if (name == "icosphere3") C.ref = gk::icosphere(3, 1.2 * s);
    else if (name == "octahedron-rot") C.ref = rot(gk::octahedron(1.3 * s), 0);
    else if (name == "box-rot") C.ref = rot(gk::boxMesh(Vec3(1, 1.4, 0.7) * s), 1);
    else if (name == "icosphere1-sliver" || name == "icosphere2-sliver") {
        Mat33 A(1); A(1, 1) = 0.04; A(0, 1) = 0.3;   // squash + shear: long thin triangles
        C.ref = gk::transformed(gk::transformed(gk::icosphere(name == "icosphere1-sliver" ? 1 : 2, 1.2 * s), A, Vec3(0), ""), gk::genericRotation(2), shift, "-sliver");
    } else if (name == "box-plate") C.ref = gk::boxMesh(Vec3(1, 1, 0.01) * s);
    else if (name == "torus12x8") { C.ref = torusMesh(12, 8, 1.0 * s, 0.4 * s); C.convex = false; C.genus = 1; }
    else if (name == "torus24x12-rot") { C.ref = rot(torusMesh(24, 12, 1.0 * s, 0.4 * s), 0); C.convex = false; C.genus = 1; }
    else if (name == "Lprism") { C.ref = gk::transformed(lPrism(), Mat33(s), Vec3(0), ""); C.convex = false; }
    else if (name == "Lprism-rot") { C.ref = rot(gk::transformed(lPrism(), Mat33(s), Vec3(0), ""), 2); C.convex = false; }
    else if (name.rfind("ellipsoid-", 0) == 0) {   // elongated solids given inward- (or outward-) facing to the PolygonalMesh constructor: the documented auto-orientation must not depend on the aspect ratio
        Mat33 A(1); if (name.find("1x3x0.8") != std::string::npos) { A(0, 0) = 1; A(1, 1) = 3; A(2, 2) = 0.8; } else if (name.find("1x0.8x3") != std::string::npos) { A(0, 0) = 1; A(1, 1) = 0.8; A(2, 2) = 3; } else { A(0, 0) = 3; A(1, 1) = 1; A(2, 2) = 0.8; }
        C.ref = gk::transformed(gk::icosphere(1, 0.6 * s), A, Vec3(0), "");
    } else if (name == "longtet-viaPolygonal-flipped") { Mat33 A(1); A(0, 0) = 0.5; A(1, 1) = 4; A(2, 2) = 0.7; C.ref = gk::transformed(gk::tetrahedron(0.9 * s), A, Vec3(0), ""); }
    else if (name == "icosphere1-dented") { C.ref = gk::icosphere(1, 1.2 * s); C.ref.v[0] *= 0.35; C.ref.v[7] *= 0.5; C.convex = false; }
    C.ref.name = name;
    C.viaPolygonal = name.find("viaPolygonal") != std::string::npos;
    C.flipInput = name.find("flipped") != std::string::npos;
    C.smooth = name == "icosphere1-smooth";
    C.lo = Vec3(Infinity); C.hi = Vec3(-Infinity);
    for (auto& v : C.ref.v) for (int i = 0; i < 3; ++i) { C.lo[i] = std::min(C.lo[i], v[i]); C.hi[i] = std::max(C.hi[i], v[i]); }
    C.L = (C.hi - C.lo).norm() / 2;
    if (C.viaPolygonal) {
        PolygonalMesh pm;
        for (auto& v : C.ref.v) pm.addVertex(v);
        if (name == "box-viaPolygonal-quads") {
            int q[6][4] = {{4,6,7,5}, {0,1,3,2}, {2,3,7,6}, {0,4,5,1}, {1,5,7,3}, {0,2,6,4}};
            for (auto& a : q) { Array_<int> fv; for (int k = 0; k < 4; ++k) fv.push_back(a[k]); pm.addFace(fv); }
        } else for (auto& f : C.ref.f) { Array_<int> fv; fv.push_back(f[0]); fv.push_back(C.flipInput ? f[2] : f[1]); fv.push_back(C.flipInput ? f[1] : f[2]); pm.addFace(fv); }
        C.tm.reset(new ContactGeometry::TriangleMesh(pm, C.smooth));
    } else {
        Array_<Vec3> verts; Array_<int> faces;
        for (auto& v : C.ref.v) verts.push_back(v);
        for (auto& f : C.ref.f) for (int k = 0; k < 3; ++k) faces.push_back(f[k]);
        C.tm.reset(new ContactGeometry::TriangleMesh(verts, faces, C.smooth));
    }
    return C;
}
static MeshCase& getMesh(const std::string& name, long seed) {
    static std::map<std::string, MeshCase> cache;   // meshes are immutable after construction
    const std::string key = name + "#" + std::to_string(seed);
    auto it = cache.find(key);
    if (it == cache.end()) it = cache.emplace(key, buildMesh(name, seed)).first;
    return it->second;
}

// ---- brute-force reference on the triangles the library object reports (so that face indices are comparable)
struct Tri { Vec3 a, b, c, n; double kappa = 1; };   // kappa = |e0|^2|e1|^2/|e0 x e1|^2: conditioning of the barycentric solve (1/sin^2 of the corner angle)
static std::vector<Tri> trianglesOf(const ContactGeometry::TriangleMesh& M) {
    std::vector<Tri> t(M.getNumFaces());
    for (int f = 0; f < M.getNumFaces(); ++f) {
        t[f].a = M.getVertexPosition(M.getFaceVertex(f, 0)); t[f].b = M.getVertexPosition(M.getFaceVertex(f, 1)); t[f].c = M.getVertexPosition(M.getFaceVertex(f, 2));
        Vec3 n = (t[f].b - t[f].a) % (t[f].c - t[f].a); t[f].n = n / n.norm();
        t[f].kappa = (t[f].b - t[f].a).normSqr() * (t[f].c - t[f].a).normSqr() / n.normSqr();
    }
    return t;
}
// generalized winding number (Van Oosterom-Strackee solid angles): 1 inside, 0 outside for a closed outward-oriented mesh
static double windingNumber(const std::vector<Tri>& T, const Vec3& q) {
    double sum = 0;
    for (auto& t : T) {
        Vec3 a = t.a - q, b = t.b - q, c = t.c - q; double la = a.norm(), lb = b.norm(), lc = c.norm();
        sum += 2 * std::atan2(dot(a, b % c), la * lb * lc + dot(a, b) * lc + dot(a, c) * lb + dot(b, c) * la);
    }
    return sum / (4 * Pi);
}

static std::vector<Vec3> latticeFor(const MeshCase& C, bool thorough, long seed) {
    std::vector<Vec3> q;
    const int n = thorough ? 5 : 4;                       // 9^3 (quick) / 11^3 (thorough) symmetric lattice
    const Vec3 c = (C.lo + C.hi) / 2, h = (C.hi - C.lo) / 2;
    const double gA[3] = {1.3, 1.22, 1.37}; const double g = gA[((seed / 3 % 3) + 3) % 3];
    for (int i = -n; i <= n; ++i) for (int j = -n; j <= n; ++j) for (int k = -n; k <= n; ++k)
        q.push_back(c + Vec3(g * h[0] * i / n, g * h[1] * j / n, g * h[2] * k / n));
    const int m = thorough ? 3 : 2;                       // generic shifted lattice 5^3 / 7^3
    for (int i = -m; i <= m; ++i) for (int j = -m; j <= m; ++j) for (int k = -m; k <= m; ++k)
        q.push_back(c + Vec3(h[0] * (0.53 * i + 0.071), h[1] * (0.49 * j - 0.043), h[2] * (0.57 * k + 0.029)));
    // degenerate points: vertices, edge midpoints, face centroids of the first faces, and points straight above them
    for (int f = 0; f < std::min<int>(4, (int)C.ref.f.size()); ++f) {
        const Vec3 &a = C.ref.v[C.ref.f[f][0]], &b = C.ref.v[C.ref.f[f][1]], &cc = C.ref.v[C.ref.f[f][2]];
        Vec3 n = (b - a) % (cc - a); n /= n.norm();
        for (const Vec3& p : {a, (a + b) / 2, (a + b + cc) / 3}) { q.push_back(p); q.push_back(p + 0.2 * C.L * n); q.push_back(p - 0.05 * C.L * n); }
    }
    return q;
}

// ------------------------------------------------------------------------------------------------ point clouds
static std::vector<std::vector<int>> allSubsetsUpTo4() {
    std::vector<std::vector<int>> s;
    for (int a = 0; a < 27; ++a) { s.push_back({a});
        for (int b = a + 1; b < 27; ++b) { s.push_back({a, b});
            for (int c = b + 1; c < 27; ++c) { s.push_back({a, b, c});
                for (int d = c + 1; d < 27; ++d) s.push_back({a, b, c, d}); } } }
    return s;
}
static Vec3 latticePoint(int i, int variant) {
    Vec3 p(i / 9 - 1, (i / 3) % 3 - 1, i % 3 - 1);
    switch (variant) {
        case 0: return p;                                               // unit lattice at the origin
        case 1: return Vec3(0.7 * p[0], 1.9 * p[1], 0.23 * p[2]) + Vec3(100.25, -37.5, 11.125);   // anisotropic, far from the origin
        case 2: return gk::genericRotation(1) * Vec3(p[0], 0.5 * p[1], 3 * p[2]) * 1e-3;          // rotated, small
        default: return gk::genericRotation(2) * p * 1e4 + Vec3(3e5, 1e5, -2e5);                   // huge and far
    }
}
// minimal enclosing sphere of <= 4 points by enumeration of support sets (reference)
static bool circum(const std::vector<Vec3>& p, Vec3& c, double& r) {
    const int n = (int)p.size();
    if (n == 1) { c = p[0]; r = 0; return true; }
    if (n == 2) { c = (p[0] + p[1]) / 2; r = (p[0] - p[1]).norm() / 2; return true; }
    if (n == 3) {
        Vec3 ab = p[1] - p[0], ac = p[2] - p[0]; Vec3 nrm = ab % ac; double n2 = nrm.normSqr();
        if (n2 <= 1e-24 * ab.normSqr() * ac.normSqr()) return false;
        c = p[0] + ((nrm % ab) * ac.normSqr() + (ac % nrm) * ab.normSqr()) / (2 * n2); r = (c - p[0]).norm(); return true;
    }
    Vec3 a = p[1] - p[0], b = p[2] - p[0], cc = p[3] - p[0]; double d = dot(a, b % cc);
    if (std::abs(d) <= 1e-12 * a.norm() * b.norm() * cc.norm()) return false;
    c = p[0] + ((b % cc) * a.normSqr() + (cc % a) * b.normSqr() + (a % b) * cc.normSqr()) / (2 * d); r = (c - p[0]).norm(); return true;
}
static double minEnclosingRadius(const std::vector<Vec3>& P) {
    const int n = (int)P.size(); double best = INFINITY;
    for (int mask = 1; mask < (1 << n); ++mask) {
        std::vector<Vec3> s; for (int i = 0; i < n; ++i) if (mask >> i & 1) s.push_back(P[i]);
        Vec3 c; double r; if (!circum(s, c, r)) continue;
        bool all = true; for (auto& x : P) if ((x - c).norm() > r * (1 + 1e-12) + 1e-300) all = false;
        if (all) best = std::min(best, r);
    }
    return best;
}

// ------------------------------------------------------------------------------------------------ file writers (harness side)
static std::string num(double v) { char b[40]; snprintf(b, sizeof b, "%.17g", v); return b; }
static void writeObj(const std::string& path, const gk::RefMesh& m, int style) {
    std::ofstream o(path);
    o << "# written by the C36 harness\no test\n";
    const int nv = (int)m.v.size();
    for (auto& v : m.v) o << "v " << num(v[0]) << " " << num(v[1]) << " " << num(v[2]) << "\n";
    if (style == 2) { o << "vt 0.25 0.75\n"; for (auto& f : m.f) { Vec3 n = (m.v[f[1]] - m.v[f[0]]) % (m.v[f[2]] - m.v[f[0]]); n /= n.norm(); o << "vn " << num(n[0]) << " " << num(n[1]) << " " << num(n[2]) << "\n"; } }
    int fi = 0;
    for (auto& f : m.f) {
        o << "f";
        for (int k = 0; k < 3; ++k) {
            if (style == 0) o << " " << f[k] + 1;
            else if (style == 1) o << " " << f[k] - nv;                       // relative (negative) indices
            else if (style == 2) o << " " << f[k] + 1 << "/1/" << fi + 1;     // v/vt/vn
            else o << (k == 1 ? " \\\n  " : " ") << f[k] + 1;                 // line continuation
        }
        o << "\n"; ++fi;
    }
}
static void writeVtp(const std::string& path, const gk::RefMesh& m) {
    std::ofstream o(path);
    o << "<?xml version=\"1.0\"?>\n<VTKFile type=\"PolyData\" version=\"0.1\" byte_order=\"LittleEndian\">\n <PolyData>\n  <Piece NumberOfPoints=\"" << m.v.size()
      << "\" NumberOfVerts=\"0\" NumberOfLines=\"0\" NumberOfStrips=\"0\" NumberOfPolys=\"" << m.f.size() << "\">\n   <Points>\n    <DataArray type=\"Float64\" NumberOfComponents=\"3\" format=\"ascii\">\n";
    for (auto& v : m.v) o << "     " << num(v[0]) << " " << num(v[1]) << " " << num(v[2]) << "\n";
    o << "    </DataArray>\n   </Points>\n   <Polys>\n    <DataArray type=\"Int32\" Name=\"connectivity\" format=\"ascii\">\n";
    for (auto& f : m.f) o << "     " << f[0] << " " << f[1] << " " << f[2] << "\n";
    o << "    </DataArray>\n    <DataArray type=\"Int32\" Name=\"offsets\" format=\"ascii\">\n     ";
    for (size_t i = 0; i < m.f.size(); ++i) o << 3 * (i + 1) << " ";
    o << "\n    </DataArray>\n   </Polys>\n  </Piece>\n </PolyData>\n</VTKFile>\n";
}
static void writeStlAscii(const std::string& path, const gk::RefMesh& m) {
    std::ofstream o(path);
    o << "solid harness\n";
    for (auto& f : m.f) {
        Vec3 n = (m.v[f[1]] - m.v[f[0]]) % (m.v[f[2]] - m.v[f[0]]); n /= n.norm();
        o << " facet normal " << num(n[0]) << " " << num(n[1]) << " " << num(n[2]) << "\n  outer loop\n";
        for (int k = 0; k < 3; ++k) o << "   vertex " << num(m.v[f[k]][0]) << " " << num(m.v[f[k]][1]) << " " << num(m.v[f[k]][2]) << "\n";
        o << "  endloop\n endfacet\n";
    }
    o << "endsolid harness\n";
}
static void writeStlBinary(const std::string& path, const gk::RefMesh& m) {
    std::ofstream o(path, std::ios::binary);
    char header[80]; memset(header, 0, sizeof header); strcpy(header, "binary stl written by the C36 harness");
    o.write(header, 80); uint32_t nf = (uint32_t)m.f.size(); o.write((char*)&nf, 4);
    for (auto& f : m.f) {
        Vec3 n = (m.v[f[1]] - m.v[f[0]]) % (m.v[f[2]] - m.v[f[0]]); n /= n.norm();
        float b[12]; for (int i = 0; i < 3; ++i) b[i] = (float)n[i];
        for (int k = 0; k < 3; ++k) for (int i = 0; i < 3; ++i) b[3 + 3 * k + i] = (float)m.v[f[k]][i];
        o.write((char*)b, 48); uint16_t attr = 0; o.write((char*)&attr, 2);
    }
}

int main(int argc, char** argv) {
    verif::Run run("C36", argc, argv);
    run.setDeadline(300, 2400);
    const bool thorough = run.thorough();
    const long seed = run.seed;
    run.rule = "E3: 17 [20 thorough] closed triangle meshes (tetrahedron, octahedron, box, icospheres 0-2[3], rotated / sliver / plate versions, non-convex torus, "
               "L-prism and dented sphere, PolygonalMesh-constructed with quads and with flipped orientation, smooth) x complete 9^3 [11^3] + shifted 5^3 [7^3] query lattices "
               "+ vertex/edge/face-aligned degenerate points; rays = lattice origins x 29 directions; every subset of size 1..4 of the 3^3 lattice (20853 subsets) in "
               "4 placements for OBB / bounding spheres; per-mesh adjacency and OBB-tree walk; 5 file formats x 6 meshes round trips. case = (mesh, query) / (placement, subset)";
    run.assumptions = {"sizes and lattice scale come from 3x3 fixed value sets selected by VERIF_SEED",
                       "queries closer than 1e-9*size to the surface are unspecified for the inside flag; rays through an edge/vertex (barycentric margin < 1e-9), grazing rays and rays starting on the surface are unspecified",
                       "the mesh constructor's documented requirements (closed, manifold, outward ccw) hold for every family member; the flipped member relies on the documented auto-orientation of the PolygonalMesh constructor",
                       "file round trips use files written by the harness because the library has no mesh writers"};
    const std::vector<std::string> names = meshNames(thorough);
    const int NM = (int)names.size();
    std::vector<Vec3> dirs = gk::dirs26(); dirs.push_back(Vec3(0.31, -0.77, 0.52)); dirs.push_back(Vec3(-0.9, 0.13, 0.41)); dirs.push_back(Vec3(0.05, 0.02, -1));

    // value sets for the continuous parameters: quick = the one selected by VERIF_SEED, thorough = all 9 (3 sizes x 3 lattice scales)
    std::vector<long> vseeds; if (thorough) for (long v = 0; v < 9; ++v) vseeds.push_back(v); else vseeds.push_back(((seed % 9) + 9) % 9);
    const int NV = (int)vseeds.size();
    std::vector<int64_t> qBase(NM + 1, 0);
    for (int m = 0; m < NM; ++m) qBase[m + 1] = qBase[m] + (int64_t)latticeFor(getMesh(names[m], vseeds[0]), thorough, vseeds[0]).size();
    auto locate = [&](int64_t idx, int& m, int& qi) { m = 0; while (idx >= qBase[m + 1]) ++m; qi = (int)(idx - qBase[m]); };

    // harness self-check: reference meshes are closed and outward oriented (winding number of an interior point is 1)
    for (long vs : vseeds) for (auto& nm : names) {
        MeshCase& C = getMesh(nm, vs);
        std::vector<Tri> T; for (auto& f : C.ref.f) { Tri t; t.a = C.ref.v[f[0]]; t.b = C.ref.v[f[1]]; t.c = C.ref.v[f[2]]; T.push_back(t); }
        Vec3 far = C.hi + Vec3(C.L);
        if (std::abs(windingNumber(T, far)) > 1e-9) run.harnessError("reference mesh " + nm + " is not closed");
        std::map<std::pair<int,int>, int> edges; for (auto& f : C.ref.f) for (int k = 0; k < 3; ++k) edges[{f[k], f[(k + 1) % 3]}]++;
        for (auto& e : edges) if (e.second != 1 || !edges.count({e.first.second, e.first.first})) run.harnessError("reference mesh " + nm + " is not an oriented manifold");
    }

    // =================================================================================== section 1: nearest point / inside
    run.parallel("mesh-nearest", qBase[NM] * NV, [&](int64_t idx0) {
        const long vs = vseeds[idx0 / qBase[NM]]; const int64_t idx = idx0 % qBase[NM];
        int mi, qi; locate(idx, mi, qi);
        MeshCase& C = getMesh(names[mi], vs);
        const ContactGeometry::TriangleMesh& M = *C.tm;
        const std::string ck = names[mi] + "#" + std::to_string(vs);
        static std::map<std::string, std::vector<Tri>> triCache; if (!triCache.count(ck)) triCache[ck] = trianglesOf(M);
        const std::vector<Tri>& T = triCache[ck];
        const Vec3 q = latticeFor(C, thorough, vs)[qi];
        const double L = C.L;
        auto where = [&] { return names[mi] + " valueset=" + std::to_string(vs) + " q=" + s3(q); };
        auto rp = [&] { return run.replayHeader() + "mesh=" + names[mi] + "\nvalueset=" + std::to_string(vs) + "\nq=" + s3(q) + "\n"; };
        // brute force
        double best2 = INFINITY; Vec3 bp(0); std::vector<double> d2(T.size());
        for (size_t f = 0; f < T.size(); ++f) { Vec3 cp; d2[f] = gk::closestPtTriangle(q, T[f].a, T[f].b, T[f].c, cp); if (d2[f] < best2) { best2 = d2[f]; bp = cp; } }
        const double dRef = std::sqrt(best2);
        const bool definite = dRef > 1e-9 * L;
        run.evaluation(gk::hashVec(q, verif::hashStr(ck)), definite);
        bool in1 = true, in2 = false; int face = -1, face2 = -1; Vec2 uv(NaN), uv2(NaN);
        Vec3 p = M.findNearestPoint(q, in1, face, uv); M.findNearestPoint(q, in2, face2, uv2);
        if (run.verbose) fprintf(stderr, "%s -> p=%s face=%d uv=(%.17g,%.17g) inside=%d | ref d=%.17g at %s winding=%.6f\n", where().c_str(), s3(p).c_str(), face, uv[0], uv[1], (int)in1, dRef, s3(bp).c_str(), windingNumber(T, q));
        run.expect(in1 == in2 && face == face2, "nearest-outputs-set", [&] { return "inside/face not assigned deterministically at " + where(); }, rp);
        if (!run.expect(gk::finite3(p) && face >= 0 && face < (int)T.size(), "nearest-valid-face", [&] { return "p=" + s3(p) + " face=" + std::to_string(face) + " at " + where(); }, rp)) return;
        // the library solves a 2x2 system per face whose conditioning is kappa (sliver faces: ~1e4): residuals are condition-scaled
        run.residual("nearest-distance-vs-brute-force", std::abs((q - p).norm() - dRef) / (L * T[face].kappa), 1e-13, where, rp);
        run.residual("nearest-point-on-reported-face", std::sqrt(gk::closestPtTriangle(p, T[face].a, T[face].b, T[face].c, bp)) / L, 1e-13, where, rp);
        run.residual("nearest-uv-names-point", (M.findPoint(face, uv) - p).norm() / L, 1e-13, where, rp);
        run.expect(uv[0] >= -1e-12 && uv[1] >= -1e-12 && uv[0] + uv[1] <= 1 + 1e-12, "nearest-uv-in-triangle", [&] { return "uv=(" + sd(uv[0]) + "," + sd(uv[1]) + ") at " + where(); }, rp);
        { Vec2 uvf(NaN); Vec3 pf = M.findNearestPointToFace(q, face, uvf); run.residual("nearest-point-to-face-vs-brute-force", std::abs((q - pf).norm() - std::sqrt(d2[face])) / (L * T[face].kappa), 1e-13, where, rp); }
        // inside flag vs winding number
        if (definite) {
            double w = windingNumber(T, q); bool refIn = w > 0.5;
            if (std::abs(w - std::round(w)) > 1e-6) run.harnessError("winding number not integral at " + where());
            const double w3 = 1 - uv[0] - uv[1]; const int nz = (std::abs(uv[0]) < 1e-12) + (std::abs(uv[1]) < 1e-12) + (std::abs(w3) < 1e-12);
            const std::string feature = nz == 0 ? "face" : nz == 1 ? "edge" : "vertex";
            run.count("nearest-feature:" + feature);
            run.expect(in1 == refIn, std::string("inside-flag/") + (C.convex ? "convex" : "nonconvex") + "/nearest-on-" + feature,
                       [&] { return "inside=" + std::to_string(in1) + " but winding number " + sd(w) + "; distance to the surface " + sd(dRef) + ", nearest point on a " + feature + " of face " + std::to_string(face) + ", signed distance to that face's plane " + sd(dot(q - T[face].a, T[face].n)) + " at " + where(); }, rp);
            run.count(refIn ? "queries-inside" : "queries-outside");
        } else run.count("unspecified:on-surface");
        // the (inside, normal) overload
        { bool in3 = !in1; UnitVec3 n; Vec3 p3 = M.findNearestPoint(q, in3, n);
          run.expect(p3 == p && in3 == in1, "nearest-overloads-agree", [&] { return "overloads disagree at " + where(); }, rp);
          if (!C.smooth) run.residual("nearest-normal-is-face-normal", (Vec3(n) - T[face].n).norm(), 1e-12, where, rp);
          else run.residual("nearest-smooth-normal-unit", std::abs(Vec3(n).norm() - 1), 1e-13, where, rp); }
        run.outcome(gk::hashVec(p, in1 ? 1 : 2));
        if (idx % 2503 == 0) run.sample(where() + " -> p=" + s3(p) + " face=" + std::to_string(face) + " inside=" + std::to_string(in1) + " dRef=" + sd(dRef));
    });

    // =================================================================================== section 2: rays
    const int nO = thorough ? 2 : 1;
    std::vector<Vec3> originLattice;
    for (int i = -nO; i <= nO; ++i) for (int j = -nO; j <= nO; ++j) for (int k = -nO; k <= nO; ++k) originLattice.push_back(Vec3(i, j, k) * (1.6 / nO));
    for (int i = -1; i <= 1; ++i) for (int j = -1; j <= 1; ++j) for (int k = -1; k <= 1; ++k) originLattice.push_back(Vec3(0.83 * i + 0.113, 0.79 * j - 0.071, 0.87 * k + 0.059));
    const int64_t nRay = (int64_t)originLattice.size() * (int64_t)dirs.size();
    run.parallel("mesh-ray", NM * nRay * NV, [&](int64_t idx0) {
        const long vs = vseeds[idx0 / (NM * nRay)]; const int64_t idx = idx0 % (NM * nRay);
        const int mi = (int)(idx / nRay); const int64_t r = idx % nRay;
        MeshCase& C = getMesh(names[mi], vs);
        const ContactGeometry::TriangleMesh& M = *C.tm;
        const std::string ck = names[mi] + "#" + std::to_string(vs);
        static std::map<std::string, std::vector<Tri>> triCache; if (!triCache.count(ck)) triCache[ck] = trianglesOf(M);
        const std::vector<Tri>& T = triCache[ck];
        const Vec3 c = (C.lo + C.hi) / 2, h = (C.hi - C.lo) / 2; const Vec3 o0 = originLattice[r / dirs.size()];
        const Vec3 o = c + Vec3(o0[0] * h[0], o0[1] * h[1], o0[2] * h[2]);
        Vec3 d = dirs[r % dirs.size()]; d /= d.norm();
        const double L = C.L;
        auto where = [&] { return names[mi] + " valueset=" + std::to_string(vs) + " o=" + s3(o) + " d=" + s3(d); };
        auto rp = [&] { return run.replayHeader() + "mesh=" + names[mi] + "\nvalueset=" + std::to_string(vs) + "\no=" + s3(o) + "\nd=" + s3(d) + "\n"; };
        double tStrict = INFINITY, tLoose = INFINITY; int fStrict = -1; bool unspecified = false;
        for (size_t f = 0; f < T.size(); ++f) {
            gk::RayTri rt = gk::rayTriangle(o, d, T[f].a, T[f].b, T[f].c);
            if (std::abs(rt.cosIncidence) < 1e-9) { if (rt.margin > -1e-9 && std::isfinite(rt.t)) unspecified = true; continue; }
            if (rt.t < -1e-9 * L) continue;
            if (rt.margin > -1e-9) tLoose = std::min(tLoose, rt.t);
            if (rt.margin > 1e-9 && rt.t > 1e-9 * L && rt.t < tStrict) { tStrict = rt.t; fStrict = (int)f; }
        }
        if (tLoose < tStrict - 1e-9 * L) unspecified = true;
        const bool refHit = std::isfinite(tStrict);
        run.evaluation(gk::hashVec(o, gk::hashVec(d, verif::hashStr(ck + "/ray"))), !unspecified);
        const Real preset = -7.25; Real dist = preset; int face = -77; Vec2 uv(-5, -5);
        bool hit = M.intersectsRay(o, UnitVec3(d), dist, face, uv);
        if (run.verbose) fprintf(stderr, "%s -> hit=%d dist=%.17g face=%d uv=(%g,%g) | ref hit=%d t=%.17g face=%d unspecified=%d\n", where().c_str(), (int)hit, dist, face, uv[0], uv[1], (int)refHit, tStrict, fStrict, (int)unspecified);
        if (!hit) run.expect(dist == preset && face == -77 && uv == Vec2(-5, -5), "ray-miss-leaves-outputs-unchanged", [&] { return "no hit reported but outputs were modified (dist=" + sd(dist) + " face=" + std::to_string(face) + ") at " + where(); }, rp);
        else if (run.expect(face >= 0 && face < (int)T.size() && std::isfinite(dist), "ray-hit-valid-face", [&] { return "hit with face=" + std::to_string(face) + " dist=" + sd(dist) + " at " + where(); }, rp)) {
            // whatever is reported must be a real intersection: the named point lies on the ray and on the named face
            Vec3 x = o + dist * d;
            run.residual("ray-hit-point-on-face", (M.findPoint(face, uv) - x).norm() / L, 1e-11, where, rp);
            run.expect(uv[0] >= -1e-9 && uv[1] >= -1e-9 && uv[0] + uv[1] <= 1 + 1e-9 && dist >= 0, "ray-hit-uv-in-triangle", [&] { return "uv=(" + sd(uv[0]) + "," + sd(uv[1]) + ") dist=" + sd(dist) + " at " + where(); }, rp);
        }
        if (unspecified) { run.count("unspecified:ray-through-edge-or-grazing"); return; }
        if (!run.expect(hit == refHit, refHit ? "ray-missed-hit" : "ray-phantom-hit", [&] { return "intersectsRay=" + std::to_string(hit) + " brute force=" + std::to_string(refHit) + " t=" + sd(tStrict) + " face " + std::to_string(fStrict) + " at " + where(); }, rp)) return;
        if (hit) {
            run.residual("ray-distance-vs-brute-force", std::abs(dist - tStrict) / L, 1e-11, where, rp);
            Real dist2 = preset; UnitVec3 n; bool hit2 = M.intersectsRay(o, UnitVec3(d), dist2, n);
            run.expect(hit2 && dist2 == dist, "ray-overloads-agree", [&] { return "the two intersectsRay overloads disagree at " + where(); }, rp);
            if (hit2 && !C.smooth && face >= 0 && face < (int)T.size()) run.residual("ray-normal-is-face-normal", (Vec3(n) - T[face].n).norm(), 1e-12, where, rp);
        }
        run.count(hit ? "ray-hits" : "ray-misses");
        run.outcome(verif::hashPod(hit ? dist : -1.0, face));
        if (idx % 3001 == 0) run.sample(where() + " -> hit=" + std::to_string(hit) + (hit ? " dist=" + sd(dist) + " face=" + std::to_string(face) : ""));
    });

    // =================================================================================== section 3: structure (adjacency, normals, OBB tree, bounding sphere)
    run.parallel("mesh-structure", NM * NV, [&](int64_t idx0) {
        const long vs = vseeds[idx0 / NM]; const int64_t idx = idx0 % NM;
        MeshCase& C = getMesh(names[idx], vs);
        const ContactGeometry::TriangleMesh& M = *C.tm;
        const std::string nm = names[idx] + "#" + std::to_string(vs); const double L = C.L;
        auto rp = [&] { return run.replayHeader() + "mesh=" + nm + "\n"; };
        auto W = [&](const std::string& s) { return [=] { return nm + ": " + s; }; };
        run.evaluation(verif::hashStr(nm + "/structure"), true);
        const int F = M.getNumFaces(), E = M.getNumEdges(), V = M.getNumVertices();
        run.expect(F == (int)C.ref.f.size() && V == (int)C.ref.v.size(), "counts-match-input", W("faces " + std::to_string(F) + " vertices " + std::to_string(V)), rp);
        run.expect(2 * E == 3 * F && V - E + F == 2 - 2 * C.genus, "euler-characteristic", W("V-E+F=" + std::to_string(V - E + F)), rp);
        // faces as given (or consistently re-oriented), normals outward, areas
        std::vector<Tri> T = trianglesOf(M);
        bool sameFaces = true; double worstN = 0, worstA = 0;
        for (int f = 0; f < F && !C.viaPolygonal; ++f) for (int k = 0; k < 3; ++k) if (M.getFaceVertex(f, k) != C.ref.f[f][k]) sameFaces = false;
        run.expect(sameFaces, "faces-preserved", W("face vertex lists differ from the constructor input"), rp);
        for (int f = 0; f < F; ++f) {
            Vec3 n = (T[f].b - T[f].a) % (T[f].c - T[f].a); double a = n.norm() / 2;
            worstN = std::max(worstN, (Vec3(M.getFaceNormal(f)) - n / n.norm()).norm()); worstA = std::max(worstA, std::abs(M.getFaceArea(f) - a) / (L * L));
            run.residual("face-centroid", (M.findCentroid(f) - (T[f].a + T[f].b + T[f].c) / 3).norm() / L, 1e-14, W("face " + std::to_string(f)), rp);
        }
        run.residual("face-normal-is-ccw-cross-product", worstN, 1e-13, W("worst face"), rp);
        run.residual("face-area", worstA, 1e-14, W("worst face"), rp);
        // outward orientation: the signed volume is positive and the winding number of an interior point is +1
        { double vol = 0; for (auto& t : T) vol += dot(t.a, t.b % t.c) / 6; run.expect(vol > 0, "orientation-outward", W("signed volume " + sd(vol) + (C.flipInput ? " (input was given inward-facing; the PolygonalMesh constructor documents re-orientation)" : "")), rp); }
        // adjacency tables
        int bad = 0; std::string first;
        auto fail = [&](const std::string& s) { if (!bad++) first = s; };
        for (int f = 0; f < F; ++f) for (int k = 0; k < 3; ++k) {
            int e = M.getFaceEdge(f, k); if (e < 0 || e >= E) { fail("face " + std::to_string(f) + " edge index out of range"); continue; }
            int a = M.getFaceVertex(f, k == 2 ? 0 : k), b = M.getFaceVertex(f, k == 2 ? 2 : k + 1);   // documented: edge0=v0v1, edge1=v1v2, edge2=v0v2
            int ea = M.getEdgeVertex(e, 0), eb = M.getEdgeVertex(e, 1);
            if (!((ea == a && eb == b) || (ea == b && eb == a))) fail("face " + std::to_string(f) + " edge " + std::to_string(k) + " does not connect the documented vertices");
            if (M.getEdgeFace(e, 0) != f && M.getEdgeFace(e, 1) != f) fail("edge " + std::to_string(e) + " does not list face " + std::to_string(f));
        }
        std::vector<std::set<int>> incident(V);
        for (int e = 0; e < E; ++e) {
            int f0 = M.getEdgeFace(e, 0), f1 = M.getEdgeFace(e, 1), a = M.getEdgeVertex(e, 0), b = M.getEdgeVertex(e, 1);
            if (f0 == f1 || a == b) fail("edge " + std::to_string(e) + " degenerate");
            for (int f : {f0, f1}) { int cnt = 0; for (int k = 0; k < 3; ++k) { int v = M.getFaceVertex(f, k); if (v == a || v == b) ++cnt; } if (cnt != 2) fail("edge " + std::to_string(e) + " vertices not in its face " + std::to_string(f)); }
            incident[a].insert(e); incident[b].insert(e);
        }
        for (int v = 0; v < V; ++v) {
            Array_<int> ve; M.findVertexEdges(v, ve); std::set<int> s(ve.begin(), ve.end());
            if (s.size() != ve.size()) fail("findVertexEdges(" + std::to_string(v) + ") repeats an edge");
            if (s != incident[v]) fail("findVertexEdges(" + std::to_string(v) + ") is not the set of incident edges");
        }
        run.expect(bad == 0, "adjacency-consistent", W(std::to_string(bad) + " inconsistencies, first: " + first), rp);
        // smooth normals: at a vertex the interpolated normal is the angle-weighted average of incident face normals (as implemented and as needed for C1 behaviour)
        if (C.smooth) {
            double worst = 0;
            for (int f = 0; f < F; ++f) for (int k = 0; k < 3; ++k) {
                int v = M.getFaceVertex(f, k); Vec3 acc(0);
                for (int g = 0; g < F; ++g) for (int j = 0; j < 3; ++j) if (M.getFaceVertex(g, j) == v) {
                    Vec3 p0 = M.getVertexPosition(v), p1 = M.getVertexPosition(M.getFaceVertex(g, (j + 1) % 3)), p2 = M.getVertexPosition(M.getFaceVertex(g, (j + 2) % 3));
                    Vec3 u = (p1 - p0) / (p1 - p0).norm(), w = (p2 - p0) / (p2 - p0).norm(); acc += T[g].n * std::acos(dot(u, w));
                }
                Vec2 uv = k == 0 ? Vec2(1, 0) : k == 1 ? Vec2(0, 1) : Vec2(0, 0);
                worst = std::max(worst, (Vec3(M.findNormalAtPoint(f, uv)) - acc / acc.norm()).norm());
            }
            run.residual("smooth-vertex-normal-angle-weighted", worst, 1e-12, W("worst vertex"), rp);
        } else { double worst = 0; for (int f = 0; f < F; ++f) worst = std::max(worst, (Vec3(M.findNormalAtPoint(f, Vec2(0.2, 0.3))) - T[f].n).norm()); run.residual("faceted-normal-is-face-normal", worst, 1e-13, W("worst face"), rp); }
        // OBB tree: every node's box contains the vertices of all triangles below it; leaves partition the faces
        std::vector<int> seen(F, 0); int nodes = 0, leaves = 0, badBox = 0, badCount = 0, maxLeaf = 0; double worstOut = 0;
        std::function<std::vector<int>(const ContactGeometry::TriangleMesh::OBBTreeNode&)> walk = [&](const ContactGeometry::TriangleMesh::OBBTreeNode& nd) {
            ++nodes; std::vector<int> tris;
            if (nd.isLeafNode()) { ++leaves; for (int t : nd.getTriangles()) { tris.push_back(t); if (t >= 0 && t < F) seen[t]++; } maxLeaf = std::max(maxLeaf, (int)tris.size()); }
            else { auto a = walk(nd.getFirstChildNode()), b = walk(nd.getSecondChildNode()); tris = a; tris.insert(tris.end(), b.begin(), b.end()); if (a.empty() || b.empty()) ++badCount; }
            if ((int)tris.size() != nd.getNumTriangles()) ++badCount;
            const OrientedBoundingBox& bb = nd.getBounds();
            for (int t : tris) for (int k = 0; k < 3; ++k) {
                const Vec3& p = M.getVertexPosition(M.getFaceVertex(t, k));
                if (!bb.containsPoint(p)) { ++badBox; Vec3 l = ~bb.getTransform() * p; for (int i = 0; i < 3; ++i) worstOut = std::max(worstOut, std::max(-l[i], l[i] - bb.getSize()[i])); }
            }
            return tris;
        };
        walk(M.getOBBTreeNode());
        run.expect(badBox == 0, "obbtree-node-contains-its-triangles", W(std::to_string(badBox) + " vertices outside their node's box, worst by " + sd(worstOut)), rp);
        bool part = true; for (int f = 0; f < F; ++f) if (seen[f] != 1) part = false;
        run.expect(part && badCount == 0, "obbtree-leaves-partition-faces", W("some face is in 0 or >1 leaves, or a node count is inconsistent"), rp);
        run.count("obbtree-nodes", nodes); run.count("obbtree-leaves", leaves); run.count("obbtree-max-leaf-size:" + nm, maxLeaf);
        // bounding sphere
        { Vec3 c; Real r; M.getBoundingSphere(c, r); double worst = 0; for (int v = 0; v < V; ++v) worst = std::max(worst, (M.getVertexPosition(v) - c).norm() - r);
          run.residual("mesh-bounding-sphere-contains-vertices", std::max(0.0, worst) / L, 0, W("worst vertex"), rp); }
        // createPolygonalMesh round trip
        { PolygonalMesh pm = M.createPolygonalMesh(); bool same = pm.getNumVertices() == V && pm.getNumFaces() == F;
          for (int v = 0; same && v < V; ++v) same = pm.getVertexPosition(v) == M.getVertexPosition(v);
          for (int f = 0; same && f < F; ++f) for (int k = 0; k < 3; ++k) same = same && pm.getNumVerticesForFace(f) == 3 && pm.getFaceVertex(f, k) == M.getFaceVertex(f, k);
          run.expect(same, "createPolygonalMesh-round-trip", W("PolygonalMesh copy differs"), rp); }
        run.outcome(verif::hashStr(nm + std::to_string(nodes) + "/" + std::to_string(leaves)));
        run.sample(nm + ": V=" + std::to_string(V) + " E=" + std::to_string(E) + " F=" + std::to_string(F) + " obb nodes=" + std::to_string(nodes) + " leaves=" + std::to_string(leaves) + " max leaf=" + std::to_string(maxLeaf));
    });

    // ---- documented rejection of an open mesh (three-valued: "not guaranteed to detect all problems")
    {
        gk::RefMesh open = gk::boxMesh(Vec3(1, 1, 1)); open.f.pop_back(); open.f.pop_back();
        Array_<Vec3> verts; Array_<int> faces; for (auto& v : open.v) verts.push_back(v); for (auto& f : open.f) for (int k = 0; k < 3; ++k) faces.push_back(f[k]);
        bool threw = false; try { ContactGeometry::TriangleMesh m(verts, faces); } catch (const std::exception&) { threw = true; }
        run.count(threw ? "open-box-rejected" : "open-box-accepted(unspecified)");
    }

    // =================================================================================== section 4: point clouds -> OBB and bounding spheres
    const std::vector<std::vector<int>> subsets = allSubsetsUpTo4();
    const int nVariants = thorough ? 4 : 2;
    const int64_t nSub = (int64_t)subsets.size();
    // ---- PolygonalMesh-constructed meshes: the documented re-orientation must not depend on which face comes first, on the winding of
    //      the input or on the aspect ratio of the solid.  Every face of a 20-face icosphere-based ellipsoid is taken as first face,
    //      x 4 aspect ratios x {outward, inward} input winding.
    {
        static const double ASP[4][3] = {{1, 1, 1}, {1, 3, 0.8}, {1, 0.8, 3}, {3, 1, 0.8}};
        const gk::RefMesh base = gk::icosphere(0, 0.6);
        const int NF0 = (int)base.f.size();
        run.parallel("polygonal-orientation", (int64_t)NF0 * 4 * 2, [&](int64_t idx) {
            const int first = (int)(idx % NF0), asp = (int)(idx / NF0 % 4), inward = (int)(idx / NF0 / 4);
            const std::string nm = "icosphere0 aspect=" + std::to_string(asp) + " first-face=" + std::to_string(first) + (inward ? " inward-wound input" : " outward-wound input");
            auto rp = [&] { return run.replayHeader() + "mesh=" + nm + "\n"; };
            PolygonalMesh pm;
            for (auto& v : base.v) pm.addVertex(Vec3(v[0] * ASP[asp][0], v[1] * ASP[asp][1], v[2] * ASP[asp][2]));
            for (int k = 0; k < NF0; ++k) { const auto& f = base.f[(first + k) % NF0]; Array_<int> fv; fv.push_back(f[0]); fv.push_back(inward ? f[2] : f[1]); fv.push_back(inward ? f[1] : f[2]); pm.addFace(fv); }
            ContactGeometry::TriangleMesh M(pm);
            run.evaluation(verif::hashStr(nm), true);
            double vol = 0; int inwardNormals = 0;
            for (int f = 0; f < M.getNumFaces(); ++f) {
                const Vec3 a = M.getVertexPosition(M.getFaceVertex(f, 0)), b = M.getVertexPosition(M.getFaceVertex(f, 1)), c = M.getVertexPosition(M.getFaceVertex(f, 2));
                vol += dot(a, b % c) / 6;
                if (dot(Vec3(M.getFaceNormal(f)), (a + b + c) / 3) <= 0) ++inwardNormals;     // the solid is star-shaped about the origin
            }
            run.expect(vol > 0 && inwardNormals == 0, "orientation-outward", [&] { return nm + ": signed volume " + sd(vol) + ", " + std::to_string(inwardNormals) + " of " + std::to_string(M.getNumFaces()) + " face normals point inward"; }, rp);
            bool in0 = false, in1 = true; UnitVec3 n0, n1;
            M.findNearestPoint(Vec3(0.01, -0.02, 0.015), in0, n0); M.findNearestPoint(Vec3(5, 4, 6), in1, n1);
            run.expect(in0 && !in1, "inside-flag/convex/nearest-on-face", [&] { return nm + ": inside flag of an interior point " + std::to_string(in0) + ", of a far point " + std::to_string(in1); }, rp);
        });
    }
    run.parallel("clouds", nSub * nVariants, [&](int64_t idx) {
        const int variant = thorough ? (int)(idx / nSub) : (int)(idx / nSub == 0 ? 0 : 1 + ((seed % 3) + 3) % 3);
        const std::vector<int>& sub = subsets[idx % nSub];
        std::vector<Vec3> P; for (int i : sub) P.push_back(latticePoint(i, variant));
        const int n = (int)P.size();
        const std::string place = (variant == 0 || variant == 2) ? "near-origin" : "far-from-origin";
        std::string desc = "variant=" + std::to_string(variant) + " points="; for (int i : sub) desc += std::to_string(i) + ",";
        auto where = [&] { return desc; };
        auto rp = [&] { std::string s = run.replayHeader() + desc + "\n"; for (auto& p : P) s += "p=" + s3(p) + "\n"; return s; };
        double ext = 0, mag = 0; for (auto& p : P) { mag = std::max(mag, p.norm()); for (auto& q : P) ext = std::max(ext, (p - q).norm()); }
        // degeneracy class (named in the evidence counters)
        std::string cls = n == 1 ? "point" : n == 2 ? "segment" : "";
        if (n >= 3) { Vec3 nrm = (P[1] - P[0]) % (P[2] - P[0]); bool col = nrm.norm() <= 1e-12 * ext * ext;
            if (n == 3) cls = col ? "collinear3" : "triangle";
            else { bool col4 = col && ((P[1] - P[0]) % (P[3] - P[0])).norm() <= 1e-12 * ext * ext; double vol = std::abs(dot(P[3] - P[0], nrm));
                   cls = col4 ? "collinear4" : vol <= 1e-12 * ext * ext * ext ? "coplanar4" : "tetrahedron"; } }
        run.evaluation(verif::hashStr(desc), true); run.count("cloud-class:" + cls);
        const double Ls = std::max(ext, 1e-300);
        // ---- OrientedBoundingBox(points)
        { Vector_<Vec3> pts(n); for (int i = 0; i < n; ++i) pts[i] = P[i];
          OrientedBoundingBox obb(pts);
          bool fin = gk::finite3(obb.getSize()) && gk::finite3(obb.getTransform().p()) && gk::finite3(Vec3(obb.getTransform().R().x())) && gk::finite3(Vec3(obb.getTransform().R().y()));
          if (run.expect(fin, "obb-finite", [&] { return "OrientedBoundingBox has NaN/inf size or transform for " + where(); }, rp)) {
              int out = 0; for (auto& p : P) if (!obb.containsPoint(p)) ++out;
              run.expect(out == 0, "obb-contains-points/" + place, [&] { return std::to_string(out) + " of the points are outside their OrientedBoundingBox, " + where(); }, rp);
              Mat33 R = obb.getTransform().R().asMat33();
              run.residual("obb-rotation-orthonormal", (R * R.transpose() - Mat33(1)).norm() + std::abs(det(R) - 1), 1e-11, where, rp);
              // not absurdly larger than the cloud (the documented inflation is 1e-5 relative / 1e-10 absolute per side)
              run.residual("obb-diagonal-vs-cloud-extent", obb.getSize().norm() / (std::sqrt(3.0) * ext + 1e-9), 1.001, where, rp);
              for (auto& p : P) run.residual("obb-nearest-point-of-contained-point", (obb.findNearestPoint(p) - p).norm() / std::max(mag, 1.0), 1e-12, where, rp);
              run.outcome(gk::hashVec(obb.getSize(), 11));
          } }
        // ---- Geo::Point oriented and axis-aligned boxes
        { Array_<Vec3> pts; for (auto& p : P) pts.push_back(p);
          Geo::OrientedBox ob = Geo::Point::calcOrientedBoundingBox(pts);
          bool fin = gk::finite3(ob.getHalfLengths()) && gk::finite3(ob.getCenter());
          if (run.expect(fin, "geo-obb-finite", [&] { return "Geo::Point::calcOrientedBoundingBox returned NaN for " + where(); }, rp)) {
              int out = 0; double over = 0;
              for (auto& p : P) if (!ob.containsPoint(p)) { ++out; Vec3 l = ~ob.getTransform() * p; for (int i = 0; i < 3; ++i) over = std::max(over, std::abs(l[i]) - ob.getHalfLengths()[i]); }
              run.expect(out == 0, "geo-obb-contains-points/" + place, [&] { return std::to_string(out) + " points test outside the box returned by Geo::Point::calcOrientedBoundingBox (class " + cls + ", by " + sd(over) + ", cloud at distance " + sd(mag) + " from the origin), " + where(); }, rp);
              if (out) run.count("geo-obb-overshoot-class:" + cls);
          }
          Geo::AlignedBox ab = Geo::Point::calcAxisAlignedBoundingBox(pts);
          int out = 0; for (auto& p : P) if (!ab.containsPoint(p)) ++out;
          run.expect(out == 0, "geo-aabb-contains-points", [&] { return std::to_string(out) + " points outside calcAxisAlignedBoundingBox, " + where(); }, rp);
          // ---- bounding spheres
          const double rMin = minEnclosingRadius(P);
          Array_<int> which;
          Geo::Sphere sp = Geo::Point::calcBoundingSphere(pts, which);
          auto checkSphere = [&](const Geo::Sphere& s, const Array_<int>& wh, const std::string& tag, bool minimal) {
              if (!run.expect(gk::finite3(s.getCenter()) && std::isfinite(s.getRadius()), "sphere-finite/" + tag, [&] { return tag + " returned NaN for " + where(); }, rp)) return;
              int out = 0; for (auto& p : P) if (s.isPointOutside(p)) ++out;
              run.expect(out == 0, "sphere-contains-points/" + tag, [&] { return std::to_string(out) + " points are outside the " + tag + " sphere (center " + s3(s.getCenter()) + " radius " + sd(s.getRadius()) + "), " + where(); }, rp);
              // documented stretch: max(scale*eps, tol) with scale = max(|center|, radius)
              const double stretch = std::max(std::max(max(s.getCenter().abs()), (double)s.getRadius()) * Eps, SignificantReal);
              bool isMin = true;
              if (minimal) isMin = run.residual("sphere-minimal/" + tag, std::max(0.0, s.getRadius() - rMin - 4 * stretch) / Ls, 1e-9, [&] { return where() + " class " + cls + " radius " + sd(s.getRadius()) + " minimal " + sd(rMin); }, rp);
              if (!wh.empty() && isMin) {
                  bool ok = wh.size() <= 4; for (int w : wh) ok = ok && w >= 0 && w < n;
                  run.expect(ok, "sphere-support-indices/" + tag, [&] { return "support index list invalid for " + where(); }, rp);
                  if (ok) for (int w : wh) run.residual("sphere-support-point-on-boundary/" + tag, std::abs((P[w] - s.getCenter()).norm() - s.getRadius()) / std::max(Ls, 4 * stretch), wh.size() == 1 ? 1e300 : 1e-6, where, rp);
              }
          };
          checkSphere(sp, which, "calcBoundingSphere(n)", true);
          Geo::Sphere ritter = Geo::Point::calcApproxBoundingSphere(pts);
          checkSphere(ritter, Array_<int>(), "calcApproxBoundingSphere", false);
          run.residual("welzl-not-larger-than-ritter", std::max(0.0, sp.getRadius() - ritter.getRadius()) / Ls, 1e-9, [&] { return where() + " class " + cls + " welzl " + sd(sp.getRadius()) + " ritter " + sd(ritter.getRadius()); }, rp);
          if (n == 2) { Array_<int> w; checkSphere(Geo::Point::calcBoundingSphere(P[0], P[1], w), w, "calcBoundingSphere(2)", true); }
          if (n == 3) { Array_<int> w; checkSphere(Geo::Point::calcBoundingSphere(P[0], P[1], P[2], false, w), w, "calcBoundingSphere(3)", true);
                        checkSphere(Geo::Triangle(P[0], P[1], P[2]).calcBoundingSphere(), Array_<int>(), "Triangle::calcBoundingSphere", true); }
          if (n == 4) { Array_<int> w; checkSphere(Geo::Point::calcBoundingSphere(P[0], P[1], P[2], P[3], false, w), w, "calcBoundingSphere(4)", true); }
          run.outcome(gk::hashVec(sp.getCenter(), verif::hashPod((double)sp.getRadius())));
        }
        if (idx % 4099 == 0) run.sample(desc + " class=" + cls + " rMin=" + sd(minEnclosingRadius(P)));
    });

    // ---- fixed larger clouds
    run.parallel("big-clouds", 6 * 4, [&](int64_t idx) {
        const int kind = (int)(idx % 6), variant = (int)(idx / 6);
        std::vector<Vec3> P;
        if (kind == 0) for (int i = 0; i < 27; ++i) P.push_back(latticePoint(i, variant));
        else if (kind == 1) for (int i = 0; i < 27; ++i) { if (i / 9 == 1) P.push_back(latticePoint(i, variant)); }        // coplanar 9
        else if (kind == 2) for (int i = 0; i < 9; ++i) P.push_back(latticePoint(13, variant) + (latticePoint(26, variant) - latticePoint(0, variant)) * (i / 8.0 - 0.5));   // collinear 9
        else if (kind == 3) { for (auto& v : gk::icosphere(2, 1.0).v) P.push_back(latticePoint(13, variant) + v * (latticePoint(26, variant) - latticePoint(13, variant)).norm()); }   // cospherical 162
        else if (kind == 4) { for (int i = 0; i < 27; ++i) { P.push_back(latticePoint(i, variant)); P.push_back(latticePoint(i, variant)); } }   // every point twice
        else { auto m = torusMesh(12, 8, 1.0, 0.4); for (auto& v : m.v) P.push_back(latticePoint(13, variant) + v * (latticePoint(14, variant) - latticePoint(13, variant)).norm()); }
        std::string desc = "big-cloud kind=" + std::to_string(kind) + " variant=" + std::to_string(variant) + " n=" + std::to_string(P.size());
        auto where = [&] { return desc; }; auto rp = [&] { return run.replayHeader() + desc + "\n"; };
        run.evaluation(verif::hashStr(desc), true);
        Vector_<Vec3> pv((int)P.size()); Array_<Vec3> pa; for (size_t i = 0; i < P.size(); ++i) { pv[(int)i] = P[i]; pa.push_back(P[i]); }
        OrientedBoundingBox obb(pv); int out = 0; for (auto& p : P) if (!obb.containsPoint(p)) ++out;
        run.expect(out == 0, "obb-contains-points/big", [&] { return std::to_string(out) + " points outside, " + where(); }, rp);
        Geo::OrientedBox ob = Geo::Point::calcOrientedBoundingBox(pa); out = 0; for (auto& p : P) if (!ob.containsPoint(p)) ++out;
        run.expect(out == 0, "geo-obb-contains-points/big", [&] { return std::to_string(out) + " points outside, " + where(); }, rp);
        Array_<int> which; Geo::Sphere sp = Geo::Point::calcBoundingSphere(pa, which); out = 0; for (auto& p : P) if (sp.isPointOutside(p)) ++out;
        run.expect(out == 0, "sphere-contains-points/big", [&] { return std::to_string(out) + " points outside, " + where(); }, rp);
        Geo::Sphere ri = Geo::Point::calcApproxBoundingSphere(pa); out = 0; for (auto& p : P) if (ri.isPointOutside(p)) ++out;
        run.expect(out == 0, "ritter-sphere-contains-points/big", [&] { return std::to_string(out) + " points outside, " + where(); }, rp);
        double ext = 0; for (auto& p : P) ext = std::max(ext, (p - P[0]).norm());
        run.residual("welzl-not-larger-than-ritter", std::max(0.0, sp.getRadius() - ri.getRadius()) / ext, 1e-9, where, rp);
        // a sphere around a symmetric cloud cannot be smaller than half its diameter
        double diam = 0; for (auto& p : P) for (auto& q : P) diam = std::max(diam, (p - q).norm());
        run.residual("sphere-radius-vs-half-diameter/big", std::max(0.0, diam / 2 - sp.getRadius()) / ext, 1e-12, where, rp);
        run.outcome(verif::hashPod((double)sp.getRadius(), kind));
        run.sample(desc + " -> sphere r=" + sd(sp.getRadius()) + " ritter r=" + sd(ri.getRadius()) + " half diameter " + sd(diam / 2) + " obb size " + s3(obb.getSize()));
    });

    // =================================================================================== section 5: file round trips
    const std::vector<std::string> fileMeshes = {"tetrahedron", "octahedron", "box-rot", "icosphere1", "torus12x8", "Lprism", "icosphere1-sliver"};
    const std::vector<std::string> formats = {"obj", "obj-negative-indices", "obj-v/vt/vn", "obj-continuation", "vtp", "stl-ascii", "stla", "stl-binary", "obj-append", "vtp-append", "stl-append"};
    run.parallel("files", (int64_t)fileMeshes.size() * (int64_t)formats.size(), [&](int64_t idx) {
        const std::string mn = fileMeshes[idx / formats.size()], fmt = formats[idx % formats.size()];
        MeshCase& C = getMesh(mn, vseeds[0]); const gk::RefMesh& R = C.ref;
        auto where = [&] { return mn + " format=" + fmt; };
        auto rp = [&] { return run.replayHeader() + "mesh=" + mn + "\nformat=" + fmt + "\n"; };
        run.evaluation(verif::hashStr(mn + "/" + fmt), true);
        const bool append = fmt.find("append") != std::string::npos;
        const std::string base = fmt.substr(0, 3);
        std::string ext = base == "obj" ? ".obj" : base == "vtp" ? ".vtp" : fmt == "stla" ? ".stla" : ".stl";
        std::string path = run.buildDir + "/tmp/C36." + std::to_string(getpid()) + "." + std::to_string(idx) + ext;
        if (base == "obj") writeObj(path, R, fmt == "obj-negative-indices" ? 1 : fmt == "obj-v/vt/vn" ? 2 : fmt == "obj-continuation" ? 3 : 0);
        else if (base == "vtp") writeVtp(path, R);
        else if (fmt == "stl-binary") writeStlBinary(path, R);
        else writeStlAscii(path, R);
        PolygonalMesh pm; int v0 = 0, f0 = 0;
        if (append) {   // documented: load*File *adds* the file's vertices and faces to the mesh
            pm.addVertex(Vec3(11, 12, 13)); pm.addVertex(Vec3(14, 12, 13)); pm.addVertex(Vec3(11, 15, 13)); pm.addVertex(Vec3(11, 12, 16));
            Array_<int> fv; fv.push_back(0); fv.push_back(1); fv.push_back(2); pm.addFace(fv); v0 = 4; f0 = 1;
        }
        try { pm.loadFile(path); }
        catch (const std::exception& e) { unlink(path.c_str()); run.violation("file-load-throws/" + fmt, std::string("loadFile threw ") + e.what() + " for " + where(), rp()); return; }
        unlink(path.c_str());
        const bool isStl = base == "stl";
        const bool binary = fmt == "stl-binary";
        auto expectPos = [&](const Vec3& v) { return binary ? Vec3((double)(float)v[0], (double)(float)v[1], (double)(float)v[2]) : v; };
        bool countsOK = run.expect(pm.getNumFaces() == f0 + (int)R.f.size() && pm.getNumVertices() == v0 + (int)R.v.size(), std::string("file-counts/") + (append ? base + "-append" : fmt),
                                   [&] { return "loaded " + std::to_string(pm.getNumVertices()) + " vertices / " + std::to_string(pm.getNumFaces()) + " faces, file has " + std::to_string(R.v.size()) + " / " + std::to_string(R.f.size()) + (append ? " (+4/+1 already in the mesh)" : "") + " for " + where(); }, rp);
        if (!countsOK) return;
        // the faces must reference the positions the file gives them (for obj/vtp also the same vertex order)
        double worst = 0; bool orderOK = true; int badFaces = 0;
        for (int f = 0; f < (int)R.f.size(); ++f) {
            if (pm.getNumVerticesForFace(f0 + f) != 3) { ++badFaces; continue; }
            for (int k = 0; k < 3; ++k) {
                int vi = pm.getFaceVertex(f0 + f, k);
                if (vi < 0 || vi >= pm.getNumVertices()) { ++badFaces; continue; }
                worst = std::max(worst, (pm.getVertexPosition(vi) - expectPos(R.v[R.f[f][k]])).norm());
                if (!isStl && vi != v0 + R.f[f][k]) orderOK = false;
            }
        }
        run.expect(badFaces == 0, "file-face-shape/" + fmt, [&] { return std::to_string(badFaces) + " faces malformed for " + where(); }, rp);
        run.residual(std::string("file-face-vertex-positions/") + (append ? base + "-append" : fmt), worst / C.L, 0, where, rp);
        if (!isStl) {
            run.expect(orderOK, std::string("file-face-indices/") + (append ? base + "-append" : fmt), [&] { return "face vertex indices differ from the file (offset by the vertices already present) for " + where(); }, rp);
            double wv = 0; for (int v = 0; v < (int)R.v.size(); ++v) wv = std::max(wv, (pm.getVertexPosition(v0 + v) - R.v[v]).norm());
            run.residual("file-vertex-positions/" + fmt, wv / C.L, 0, where, rp);
        }
        if (append) { bool kept = pm.getVertexPosition(0) == Vec3(11, 12, 13) && pm.getNumVerticesForFace(0) == 3 && pm.getFaceVertex(0, 1) == 1; run.expect(kept, "file-append-keeps-existing/" + base, [&] { return "pre-existing vertices/faces were changed for " + where(); }, rp); }
        // the loaded mesh is a valid closed surface again
        if (!append) {
            try { ContactGeometry::TriangleMesh tm(pm); run.expect(tm.getNumFaces() == (int)R.f.size() && tm.getNumVertices() == (int)R.v.size() && 2 * tm.getNumEdges() == 3 * tm.getNumFaces(), "file-mesh-rebuilds/" + fmt, [&] { return "TriangleMesh from the loaded file has different counts for " + where(); }, rp); }
            catch (const std::exception& e) { run.violation("file-mesh-rebuilds/" + fmt, std::string("TriangleMesh(loaded mesh) threw ") + e.what() + " for " + where(), rp()); }
        }
        run.outcome(verif::hashStr(where()));
        if (idx % 7 == 0) run.sample(where() + " -> " + std::to_string(pm.getNumVertices()) + " vertices " + std::to_string(pm.getNumFaces()) + " faces, worst position error " + sd(worst));
    });

    return run.finish();
}
