// C18 -- State stage and cache semantics follow the documented model.
// Engine E2 (operation histories) directly on a bare SimTK::State.
//
// Every history (base prefix + operation sequence) is replayed on fresh State objects
// (a primary S and a secondary T used for copies) in lockstep with a boring reference
// model (logical clocks); after every operation the complete oracle is evaluated.
// Two modes, both reported: plain depth-d enumeration (no merging) and BFS with
// canonical-state merging.  Rule source: the /** **/ documentation in State.h.
#include "SimTKcommon.h"
#include "verif.h"

#include <deque>
#include <unordered_set>

using namespace SimTK;

namespace {

enum { EMPTY = 0, TOPO = 1, MODEL = 2, INST = 3, TIME = 4, POS = 5, VEL = 6, DYN = 7, ACC = 8, REP = 9, INF = 10 };
const char* SN[] = {"Empty", "Topology", "Model", "Instance", "Time", "Position", "Velocity", "Dynamics", "Acceleration", "Report", "Infinity"};
inline Stage stg(int g) { return Stage(g); }   // Stage(int) constructor

// ------------------------------------------------------------------ value alphabets (selected by VERIF_SEED)
struct Vals { double v[2]; double w[2]; double qi, ui, zi, di, ci; };
const Vals VALSETS[] = {
    {{1.5, -2.25}, {2.0, 0.5}, 0.25, -0.5, 0.125, 7.0, 41.0},
    {{-0.75, 3.5}, {4.0, 0.25}, 1.0, 2.0, -3.0, -1.0, 0.5},
    {{1e-3, 1e3}, {1e-2, 1e2}, 0.0, 0.0, 0.0, 0.0, 0.0},
    {{-8.0, 0.015625}, {3.0, 7.0}, -1.0, -1.0, -1.0, 2.0, 2.0},
};
const int NVALSETS = 4;
const Vals* VV = &VALSETS[0];
inline double toggle(double cur, const double* two) { return cur == two[0] ? two[1] : two[0]; }
inline bool sameD(double a, double b) { return (std::isnan(a) && std::isnan(b)) || a == b; }

// ------------------------------------------------------------------ fixtures
struct Item {
    char kind;            // 'Q','U','Z' continuous block; 'D' discrete var; 'A' auto-update discrete var; 'C' cache entry; 'e' err/trigger slots
    int sub, alloc;       // allocation stage: 1 = while Empty (Topology-stage allocation), 2 = Model, 3 = Instance
    int a, b, c;          // Q/U/Z: n=a.  D: invalidates=a.  A: invalidates=a, updateDependsOn=b.  C: dependsOn=a computedBy=b.  e: which=a(0 qerr,1 uerr,2 udoterr,3 trigger) n=b stage=c
    bool pq, pu, pz;
    std::vector<int> pd, pc;   // prerequisite item indices (D/A items; C items, or A items meaning their update entry)
};
struct Fixture {
    std::string name;
    int nsub;
    std::vector<int> order;     // realization order of the subsystems for stages <= Instance
    std::vector<Item> items;
};
Item blk(char k, int sub, int alloc, int n) { return Item{k, sub, alloc, n, 0, 0, false, false, false, {}, {}}; }
Item dvI(int sub, int alloc, int inval) { return Item{'D', sub, alloc, inval, 0, 0, false, false, false, {}, {}}; }
Item auI(int sub, int alloc, int inval, int updDep) { return Item{'A', sub, alloc, inval, updDep, 0, false, false, false, {}, {}}; }
Item ceI(int sub, int alloc, int dep, int comp, bool q = false, bool u = false, bool z = false, std::vector<int> pd = {}, std::vector<int> pc = {}) {
    return Item{'C', sub, alloc, dep, comp, 0, q, u, z, pd, pc};
}
Item erI(int sub, int alloc, int which, int n, int stage = 0) { return Item{'e', sub, alloc, which, n, stage, false, false, false, {}, {}}; }

std::vector<Fixture> makeFixtures() {
    std::vector<Fixture> F;
    {   // 0: tiny, for the deepest plain enumeration
        Fixture f; f.name = "tiny"; f.nsub = 1; f.order = {0};
        f.items = { blk('Q', 0, 1, 1), blk('U', 0, 1, 1), blk('Z', 0, 2, 1),
                    dvI(0, 1, POS),                                  // 3
                    ceI(0, 1, POS, INF),                             // 4 lazy, stage only
                    ceI(0, 2, TIME, INF, true, false, false),        // 5 lazy below Position with q prerequisite
                    ceI(0, 3, INST, DYN, false, false, false, {3}),  // 6 dv prerequisite, computed-by Dynamics
                    erI(0, 1, 0, 1) };
        F.push_back(f);
    }
    {   // 1: one subsystem, the design's menu
        Fixture f; f.name = "one"; f.nsub = 1; f.order = {0};
        f.items = { blk('Q', 0, 1, 2), blk('U', 0, 1, 2), blk('Z', 0, 2, 1),
                    dvI(0, 1, INST),                                         // 3
                    dvI(0, 2, POS),                                          // 4
                    auI(0, 2, DYN, VEL),                                     // 5
                    ceI(0, 1, POS, VEL),                                     // 6
                    ceI(0, 2, TIME, INF, true),                              // 7 {q}
                    ceI(0, 3, INST, DYN, false, true, true),                 // 8 {u,z}
                    ceI(0, 3, TIME, INF, false, false, false, {4}),          // 9 {dv 4}
                    ceI(0, 3, POS, INF, false, false, false, {}, {7}),       // 10 {ce 7}
                    erI(0, 1, 0, 1), erI(0, 2, 1, 2), erI(0, 3, 2, 1), erI(0, 2, 3, 2, POS) };
        F.push_back(f);
    }
    {   // 2: two subsystems, cross-subsystem prerequisites (as in StateTest), prerequisite holder realized first
        Fixture f; f.name = "cross01"; f.nsub = 2; f.order = {0, 1};
        f.items = { blk('Q', 0, 1, 1), blk('U', 0, 1, 1), blk('Z', 1, 1, 1),
                    dvI(0, 1, TIME),                                              // 3
                    ceI(0, 1, TIME, INF),                                         // 4
                    ceI(1, 3, TIME, VEL, false, false, true, {3}, {4}),           // 5 {z, dv(0), ce(0)}
                    ceI(1, 3, POS, INF, false, false, false, {}, {5}),            // 6 {ce 5}
                    erI(1, 3, 0, 1), erI(0, 1, 1, 1) };
        F.push_back(f);
    }
    {   // 3: the dependent lives in subsystem 0, prerequisites in subsystem 1, realization order 1 then 0
        Fixture f; f.name = "cross10"; f.nsub = 2; f.order = {1, 0};
        f.items = { blk('Q', 1, 1, 1), blk('U', 0, 2, 1),
                    dvI(1, 2, VEL),                                               // 2
                    ceI(1, 2, MODEL, TIME),                                       // 3 (as cx0TopoModel of StateTest)
                    ceI(0, 2, INST, INF, false, true, false, {2}, {3}),           // 4 {u, dv(1), ce(1)}
                    ceI(0, 3, VEL, ACC, true, false, false, {2}) };               // 5 {q, dv(1)}
        F.push_back(f);
    }
    {   // 4: three subsystems, the high stages
        Fixture f; f.name = "three"; f.nsub = 3; f.order = {0, 1, 2};
        f.items = { blk('Q', 0, 1, 1), blk('U', 1, 1, 1), blk('Z', 2, 2, 2),
                    dvI(0, 2, VEL), dvI(1, 2, ACC), dvI(2, 1, REP),               // 3,4,5
                    ceI(0, 3, DYN, ACC),                                          // 6
                    ceI(1, 3, REP, INF, false, false, false, {5}),                // 7 {dv(2)}
                    ceI(2, 3, ACC, REP, false, false, true) };                    // 8 {z}
        F.push_back(f);
    }
    {   // 5: auto-update variables and entries hanging off them
        Fixture f; f.name = "auto"; f.nsub = 1; f.order = {0};
        f.items = { blk('Q', 0, 1, 1), blk('Z', 0, 1, 1),
                    auI(0, 1, POS, TIME),                                         // 2
                    auI(0, 2, REP, ACC),                                          // 3
                    ceI(0, 3, TIME, INF, false, false, false, {2}),               // 4 prerequisite = auto-update variable
                    ceI(0, 3, TIME, INF, false, false, false, {}, {2}),           // 5 prerequisite = update cache entry of item 2
                    dvI(0, 2, MODEL) };                                           // 6 -- hmm allocated at Model stage cannot invalidate Model; fixed below
        f.items[6] = dvI(0, 1, MODEL);                                            // Model-invalidating variable must be allocated while Empty
        F.push_back(f);
    }
    {   // 6: allocation-order stress: dependents registered, then the same stacks grow; 3-level cache chain
        Fixture f; f.name = "chain"; f.nsub = 1; f.order = {0};
        f.items = { blk('Q', 0, 1, 1), blk('U', 0, 2, 1),
                    dvI(0, 1, TIME),                                              // 2
                    ceI(0, 1, TIME, INF, false, false, false, {2}),               // 3 {dv 2}
                    dvI(0, 1, DYN),                                               // 4 (discrete stack grows after 3 registered on 2)
                    ceI(0, 1, TIME, INF, false, false, false, {}, {3}),           // 5 {ce 3}
                    dvI(0, 2, POS),                                               // 6
                    ceI(0, 2, POS, INF, false, false, false, {6}, {5}),           // 7 {dv 6, ce 5}
                    ceI(0, 3, POS, DYN, false, true, false, {4}, {7}),            // 8 {u, dv 4, ce 7}
                    dvI(0, 2, INST), ceI(0, 3, INST, INF) };                      // 9, 10
        F.push_back(f);
    }
    {   // 7: one discrete variable for every invalidated stage
        Fixture f; f.name = "dvstages"; f.nsub = 2; f.order = {0, 1};
        f.items = { blk('Q', 0, 1, 1), blk('U', 1, 1, 1), blk('Z', 1, 1, 1),
                    dvI(0, 1, MODEL), dvI(0, 1, INST), dvI(0, 2, TIME), dvI(0, 2, POS),        // 3..6
                    dvI(1, 1, VEL), dvI(1, 2, DYN), dvI(1, 2, ACC), dvI(1, 2, REP),            // 7..10
                    ceI(0, 3, TIME, POS), ceI(1, 3, VEL, INF), ceI(1, 3, REP, INF),            // 11,12,13
                    ceI(1, 1, TOPO, INF), ceI(0, 2, MODEL, INST) };                            // 14,15
        F.push_back(f);
    }
    return F;
}

// ------------------------------------------------------------------ reference model
struct MDv { int item, alloc, inval; bool isAuto; int ce; double val; int64_t lastWrite; double lastUpdT; };
struct MCe { int item, alloc, dep, comp; bool isAuto; int dv; double val; int64_t mark, expl; bool unspec, ambig; };
struct MBlock { int alloc, n, aux; };
struct MSub {
    int stage = 0;
    std::vector<MDv> dv; std::vector<MCe> ce;
    std::vector<MBlock> qb, ub, zb, qeb, ueb, udeb, trg;
    std::vector<double> q, u, z, uw, zw, qew, uew;    // present iff the system stage has reached Model / Instance
    int64_t lastInval[11];
    MSub() { for (auto& x : lastInval) x = 0; }
};
struct Model {
    int nsub = 0, sys = 0;
    std::vector<MSub> sub;
    double t = NaN;
    int64_t qW = 0, uW = 0, zW = 0;
    std::vector<int> dvOf, ceOf;    // item -> local index, -1 if not allocated
    bool bumpedWin[11], bumpedStep[11];
    Model() { for (int i = 0; i < 11; ++i) bumpedWin[i] = bumpedStep[i] = false; }
};
enum Tri { NO = 0, YES = 1, UNSPEC = 2 };

int sumBlocks(const std::vector<MBlock>& b) { int n = 0; for (auto& x : b) n += x.n; return n; }
void popBlocks(std::vector<MBlock>& b, int g) { while (!b.empty() && b.back().alloc > g) b.pop_back(); }

struct ModelOps {
    const Fixture& F;
    explicit ModelOps(const Fixture& f) : F(f) {}

    void init(Model& M) const {
        M = Model(); M.nsub = F.nsub; M.sub.assign(F.nsub, MSub());
        M.dvOf.assign(F.items.size(), -1); M.ceOf.assign(F.items.size(), -1);
    }
    const MCe& ceOfItem(const Model& M, int item) const { return M.sub[F.items[item].sub].ce[M.ceOf[item]]; }
    const MDv& dvOfItem(const Model& M, int item) const { return M.sub[F.items[item].sub].dv[M.dvOf[item]]; }

    // time of the last "write" that a dependent of cache entry `item` must have been marked after
    int64_t prereqWrite(const Model& M, int item) const {
        const Item& it = F.items[item];
        int64_t w = 0;
        if (it.kind != 'C') return 0;   // update entries of auto-update variables have no explicit prerequisites
        if (it.pq) w = std::max(w, M.qW);
        if (it.pu) w = std::max(w, M.uW);
        if (it.pz) w = std::max(w, M.zW);
        for (int d : it.pd) w = std::max(w, dvOfItem(M, d).lastWrite);
        for (int c : it.pc) w = std::max(w, writeOfCe(M, c));
        return w;
    }
    int64_t writeOfCe(const Model& M, int item) const { return std::max(ceOfItem(M, item).expl, prereqWrite(M, item)); }
    // marked after everything that invalidates it (irrespective of the current stage)
    bool latent(const Model& M, int s, const MCe& e) const {
        if (e.mark == 0) return false;
        if (e.mark <= M.sub[s].lastInval[e.dep]) return false;
        if (e.mark <= e.expl) return false;
        if (e.mark <= prereqWrite(M, e.item)) return false;
        return true;
    }
    Tri valid(const Model& M, int s, const MCe& e) const {
        int st = M.sub[s].stage;
        if (st >= e.comp) return e.ambig ? UNSPEC : YES;
        if (st < e.dep) return NO;
        if (!latent(M, s, e)) return NO;
        return e.unspec ? UNSPEC : YES;
    }

    // invalidate stage g and above, everywhere
    void invalidate(Model& M, int g, int64_t now) const {
        if (M.sys >= g) {
            for (int i = g; i <= M.sys; ++i) M.bumpedWin[i] = M.bumpedStep[i] = true;
            if (g <= MODEL && M.sys >= MODEL) M.qW = M.uW = M.zW = now;   // the variables are destroyed
            if (g <= TOPO) M.t = NaN;
            M.sys = g - 1;
        }
        for (int s = 0; s < M.nsub; ++s) {
            MSub& ss = M.sub[s];
            if (M.sys < INST) { ss.qew.clear(); ss.uew.clear(); }
            if (M.sys < MODEL) { ss.q.clear(); ss.u.clear(); ss.z.clear(); ss.uw.clear(); ss.zw.clear(); }
            if (ss.stage < g) continue;
            for (int i = g; i <= ss.stage; ++i) ss.lastInval[i] = now;
            ss.stage = g - 1;
            while (!ss.ce.empty() && ss.ce.back().alloc > g - 1) { M.ceOf[ss.ce.back().item] = -1; ss.ce.pop_back(); }
            while (!ss.dv.empty() && ss.dv.back().alloc > g - 1) { M.dvOf[ss.dv.back().item] = -1; ss.dv.pop_back(); }
            popBlocks(ss.qb, g - 1); popBlocks(ss.ub, g - 1); popBlocks(ss.zb, g - 1);
            popBlocks(ss.qeb, g - 1); popBlocks(ss.ueb, g - 1); popBlocks(ss.udeb, g - 1); popBlocks(ss.trg, g - 1);
            for (auto& e : ss.ce) if (e.ambig && ss.stage < e.comp) e.ambig = false;
        }
    }
    bool canAdvSub(const Model& M, int s) const {
        if (M.nsub == 0) return false;
        int g = M.sub[s].stage + 1;
        if (g > REP) return false;
        if (g <= INST)
            for (int o : F.order) { if (o == s) break; if (M.sub[o].stage < g) return false; }
        return true;
    }
    bool canAdvSys(const Model& M) const {
        if (M.nsub == 0 || M.sys >= REP) return false;
        for (auto& ss : M.sub) if (ss.stage < M.sys + 1) return false;
        return true;
    }
    void advSys(Model& M, int64_t now) const {
        int g = M.sys + 1;
        if (g == TOPO) M.t = 0;
        if (g == MODEL) {
            for (auto& ss : M.sub) {
                ss.q.assign(sumBlocks(ss.qb), VV->qi); ss.u.assign(sumBlocks(ss.ub), VV->ui); ss.z.assign(sumBlocks(ss.zb), VV->zi);
                ss.uw.assign(ss.u.size(), 1.0); ss.zw.assign(ss.z.size(), 1.0);
            }
            M.qW = M.uW = M.zW = now;    // freshly (re)initialized variables: dependents are told
        }
        if (g == INST)
            for (auto& ss : M.sub) { ss.qew.assign(sumBlocks(ss.qeb), 1.0); ss.uew.assign(sumBlocks(ss.ueb), 1.0); }
        M.sys = g;
    }
    // model of "the copy of M" (copy constructor / copy assignment)
    Model copyOf(const Model& src, int64_t now) const {
        Model M = src;
        for (int i = 0; i < 11; ++i) M.bumpedWin[i] = M.bumpedStep[i] = false;
        for (int s = 0; s < M.nsub; ++s) {
            MSub& ss = M.sub[s];
            for (auto& e : ss.ce) {
                bool lat = latent(src, s, src.sub[s].ce[&e - &ss.ce[0]]);
                if (e.dep > INST) {
                    // "copying only state variables and not the cache": nothing above Instance is valid in the
                    // copy until it is marked there.  (Entries marked in violation of the documented
                    // precondition stay unspecified.)
                    if (!(e.unspec && lat)) { e.mark = 0; e.unspec = false; }
                } else if (lat) e.unspec = true;   // Instance and below: the implementation keeps them, the docs say cache is not copied
                e.ambig = false;
            }
            int ns = std::min(ss.stage, (int)INST);
            for (int i = ns + 1; i <= ss.stage; ++i) ss.lastInval[i] = now;
            ss.stage = ns;
        }
        M.sys = std::min(M.sys, (int)INST);
        return M;
    }
};
