// VERIF_FLAGS: -O2
// C18 -- State stage and cache semantics follow the documented model.
// Engine E2 (operation histories) directly on a bare SimTK::State.
//
// Every history (base prefix + operation sequence) is replayed on fresh State objects
// (a primary S and a secondary T used for copies) in lockstep with a boring reference
// model (logical clocks); after every operation the complete oracle is evaluated.
// Two modes, both reported: plain depth-d enumeration (no merging) and BFS with
// canonical-state merging.  Rule source: the /** **/ documentation in State.h.
#include "SimTKcommon.h"
#include "verif.h"

#include <deque>
#include <unordered_set>

using namespace SimTK;

namespace {

enum { EMPTY = 0, TOPO = 1, MODEL = 2, INST = 3, TIME = 4, POS = 5, VEL = 6, DYN = 7, ACC = 8, REP = 9, INF = 10 };
const char* SN[] = {"Empty", "Topology", "Model", "Instance", "Time", "Position", "Velocity", "Dynamics", "Acceleration", "Report", "Infinity"};
inline Stage stg(int g) { return Stage(g); }   // Stage(int) constructor

// ------------------------------------------------------------------ value alphabets (selected by VERIF_SEED)
struct Vals { double v[2]; double w[2]; double qi, ui, zi, di, ci; };
const Vals VALSETS[] = {
    {{1.5, -2.25}, {2.0, 0.5}, 0.25, -0.5, 0.125, 7.0, 41.0},
    {{-0.75, 3.5}, {4.0, 0.25}, 1.0, 2.0, -3.0, -1.0, 0.5},
    {{1e-3, 1e3}, {1e-2, 1e2}, 0.0, 0.0, 0.0, 0.0, 0.0},
    {{-8.0, 0.015625}, {3.0, 7.0}, -1.0, -1.0, -1.0, 2.0, 2.0},
};
const int NVALSETS = 4;
const Vals* VV = &VALSETS[0];
inline double toggle(double cur, const double* two) { return cur == two[0] ? two[1] : two[0]; }
inline bool sameD(double a, double b) { return (std::isnan(a) && std::isnan(b)) || a == b; }

// ------------------------------------------------------------------ fixtures
struct Item {
    char kind;            // 'Q','U','Z' continuous block; 'D' discrete var; 'A' auto-update discrete var; 'C' cache entry; 'e' err/trigger slots
    int sub, alloc;       // allocation stage: 1 = while Empty (Topology-stage allocation), 2 = Model, 3 = Instance
    int a, b, c;          // Q/U/Z: n=a.  D: invalidates=a.  A: invalidates=a, updateDependsOn=b.  C: dependsOn=a computedBy=b.  e: which=a(0 qerr,1 uerr,2 udoterr,3 trigger) n=b stage=c
    bool pq, pu, pz;
    std::vector<int> pd, pc;   // prerequisite item indices (D/A items; C items, or A items meaning their update entry)
};
struct Fixture {
    std::string name;
    int nsub;
    std::vector<int> order;     // realization order of the subsystems for stages <= Instance
    std::vector<Item> items;
};
Item blk(char k, int sub, int alloc, int n) { return Item{k, sub, alloc, n, 0, 0, false, false, false, {}, {}}; }
Item dvI(int sub, int alloc, int inval) { return Item{'D', sub, alloc, inval, 0, 0, false, false, false, {}, {}}; }
Item auI(int sub, int alloc, int inval, int updDep) { return Item{'A', sub, alloc, inval, updDep, 0, false, false, false, {}, {}}; }
Item ceI(int sub, int alloc, int dep, int comp, bool q = false, bool u = false, bool z = false, std::vector<int> pd = {}, std::vector<int> pc = {}) {
    return Item{'C', sub, alloc, dep, comp, 0, q, u, z, pd, pc};
}
Item erI(int sub, int alloc, int which, int n, int stage = 0) { return Item{'e', sub, alloc, which, n, stage, false, false, false, {}, {}}; }

std::vector<Fixture> makeFixtures() {
    std::vector<Fixture> F;
    {   // 0: tiny, for the deepest plain enumeration
        Fixture f; f.name = "tiny"; f.nsub = 1; f.order = {0};
        f.items = { blk('Q', 0, 1, 1), blk('U', 0, 1, 1), blk('Z', 0, 2, 1),
                    dvI(0, 1, POS),                                  // 3
                    ceI(0, 1, POS, INF),                             // 4 lazy, stage only
                    ceI(0, 2, TIME, INF, true, false, false),        // 5 lazy below Position with q prerequisite
                    ceI(0, 3, INST, DYN, false, false, false, {3}),  // 6 dv prerequisite, computed-by Dynamics
                    erI(0, 1, 0, 1) };
        F.push_back(f);
    }
    {   // 1: one subsystem, the design's menu
        Fixture f; f.name = "one"; f.nsub = 1; f.order = {0};
        f.items = { blk('Q', 0, 1, 2), blk('U', 0, 1, 2), blk('Z', 0, 2, 1),
                    dvI(0, 1, INST),                                         // 3
                    dvI(0, 2, POS),                                          // 4
                    auI(0, 2, DYN, VEL),                                     // 5
                    ceI(0, 1, POS, VEL),                                     // 6
                    ceI(0, 2, TIME, INF, true),                              // 7 {q}
                    ceI(0, 3, INST, DYN, false, true, true),                 // 8 {u,z}
                    ceI(0, 3, TIME, INF, false, false, false, {4}),          // 9 {dv 4}
                    ceI(0, 3, POS, INF, false, false, false, {}, {7}),       // 10 {ce 7}
                    erI(0, 1, 0, 1), erI(0, 2, 1, 2), erI(0, 3, 2, 1), erI(0, 2, 3, 2, POS) };
        F.push_back(f);
    }
    {   // 2: two subsystems, cross-subsystem prerequisites (as in StateTest), prerequisite holder realized first
        Fixture f; f.name = "cross01"; f.nsub = 2; f.order = {0, 1};
        f.items = { blk('Q', 0, 1, 1), blk('U', 0, 1, 1), blk('Z', 1, 1, 1),
                    dvI(0, 1, TIME),                                              // 3
                    ceI(0, 1, TIME, INF),                                         // 4
                    ceI(1, 3, TIME, VEL, false, false, true, {3}, {4}),           // 5 {z, dv(0), ce(0)}
                    ceI(1, 3, POS, INF, false, false, false, {}, {5}),            // 6 {ce 5}
                    erI(1, 3, 0, 1), erI(0, 1, 1, 1) };
        F.push_back(f);
    }
    {   // 3: the dependent lives in subsystem 0, prerequisites in subsystem 1, realization order 1 then 0
        Fixture f; f.name = "cross10"; f.nsub = 2; f.order = {1, 0};
        f.items = { blk('Q', 1, 1, 1), blk('U', 0, 2, 1),
                    dvI(1, 2, VEL),                                               // 2
                    ceI(1, 2, MODEL, TIME),                                       // 3 (as cx0TopoModel of StateTest)
                    ceI(0, 2, INST, INF, false, true, false, {2}, {3}),           // 4 {u, dv(1), ce(1)}
                    ceI(0, 3, VEL, ACC, true, false, false, {2}) };               // 5 {q, dv(1)}
        F.push_back(f);
    }
    {   // 4: three subsystems, the high stages
        Fixture f; f.name = "three"; f.nsub = 3; f.order = {0, 1, 2};
        f.items = { blk('Q', 0, 1, 1), blk('U', 1, 1, 1), blk('Z', 2, 2, 2),
                    dvI(0, 2, VEL), dvI(1, 2, ACC), dvI(2, 1, REP),               // 3,4,5
                    ceI(0, 3, DYN, ACC),                                          // 6
                    ceI(1, 3, REP, INF, false, false, false, {5}),                // 7 {dv(2)}
                    ceI(2, 3, ACC, REP, false, false, true) };                    // 8 {z}
        F.push_back(f);
    }
    {   // 5: auto-update variables and entries hanging off them
        Fixture f; f.name = "auto"; f.nsub = 1; f.order = {0};
        f.items = { blk('Q', 0, 1, 1), blk('Z', 0, 1, 1),
                    auI(0, 1, POS, TIME),                                         // 2
                    auI(0, 2, REP, ACC),                                          // 3
                    ceI(0, 3, TIME, INF, false, false, false, {2}),               // 4 prerequisite = auto-update variable
                    ceI(0, 3, TIME, INF, false, false, false, {}, {2}),           // 5 prerequisite = update cache entry of item 2
                    dvI(0, 1, MODEL) };                                           // 6 Model-invalidating variable (must be allocated while Empty)
        F.push_back(f);
    }
    {   // 6: allocation-order stress: dependents registered, then the same stacks grow; 3-level cache chain
        Fixture f; f.name = "chain"; f.nsub = 1; f.order = {0};
        f.items = { blk('Q', 0, 1, 1), blk('U', 0, 2, 1),
                    dvI(0, 1, TIME),                                              // 2
                    ceI(0, 1, TIME, INF, false, false, false, {2}),               // 3 {dv 2}
                    dvI(0, 1, DYN),                                               // 4 (discrete stack grows after 3 registered on 2)
                    ceI(0, 1, TIME, INF, false, false, false, {}, {3}),           // 5 {ce 3}
                    dvI(0, 2, POS),                                               // 6
                    ceI(0, 2, POS, INF, false, false, false, {6}, {5}),           // 7 {dv 6, ce 5}
                    ceI(0, 3, POS, DYN, false, true, false, {4}, {7}),            // 8 {u, dv 4, ce 7}
                    dvI(0, 2, INST), ceI(0, 3, INST, INF) };                      // 9, 10
        F.push_back(f);
    }
    {   // 7: one discrete variable for every invalidated stage
        Fixture f; f.name = "dvstages"; f.nsub = 2; f.order = {0, 1};
        f.items = { blk('Q', 0, 1, 1), blk('U', 1, 1, 1), blk('Z', 1, 1, 1),
                    dvI(0, 1, MODEL), dvI(0, 1, INST), dvI(0, 2, TIME), dvI(0, 2, POS),        // 3..6
                    dvI(1, 1, VEL), dvI(1, 2, DYN), dvI(1, 2, ACC), dvI(1, 2, REP),            // 7..10
                    ceI(0, 3, TIME, POS), ceI(1, 3, VEL, INF), ceI(1, 3, REP, INF),            // 11,12,13
                    ceI(1, 1, TOPO, INF), ceI(0, 2, MODEL, INST) };                            // 14,15
        F.push_back(f);
    }
    return F;
}

// ------------------------------------------------------------------ reference model
struct MDv { int item, alloc, inval; bool isAuto; int ce; double val; int64_t lastWrite; double lastUpdT; };
struct MCe { int item, alloc, dep, comp; bool isAuto; int dv; double val; int64_t mark, expl; bool unspec, ambig; bool sinceCopy = false, srcRealized = false; };
struct MBlock { int alloc, n, aux; };
struct MSub {
    int stage = 0;
    std::vector<MDv> dv; std::vector<MCe> ce;
    std::vector<MBlock> qb, ub, zb, qeb, ueb, udeb, trg;
    std::vector<double> q, u, z, uw, zw, qew, uew;    // present iff the system stage has reached Model / Instance
    int64_t lastInval[11];
    MSub() { for (auto& x : lastInval) x = 0; }
};
struct Model {
    int nsub = 0, sys = 0;
    std::vector<MSub> sub;
    double t = NaN;
    int64_t qW = 0, uW = 0, zW = 0;
    std::vector<int> dvOf, ceOf;    // item -> local index, -1 if not allocated
    bool bumpedWin[11], bumpedStep[11];
    Model() { for (int i = 0; i < 11; ++i) bumpedWin[i] = bumpedStep[i] = false; }
};
enum Tri { NO = 0, YES = 1, UNSPEC = 2 };

int sumBlocks(const std::vector<MBlock>& b) { int n = 0; for (auto& x : b) n += x.n; return n; }
void popBlocks(std::vector<MBlock>& b, int g) { while (!b.empty() && b.back().alloc > g) b.pop_back(); }

struct ModelOps {
    const Fixture& F;
    explicit ModelOps(const Fixture& f) : F(f) {}

    void init(Model& M) const {
        M = Model(); M.nsub = F.nsub; M.sub.assign(F.nsub, MSub());
        M.dvOf.assign(F.items.size(), -1); M.ceOf.assign(F.items.size(), -1);
    }
    const MCe& ceOfItem(const Model& M, int item) const { return M.sub[F.items[item].sub].ce[M.ceOf[item]]; }
    const MDv& dvOfItem(const Model& M, int item) const { return M.sub[F.items[item].sub].dv[M.dvOf[item]]; }

    // time of the last "write" that a dependent of cache entry `item` must have been marked after
    int64_t prereqWrite(const Model& M, int item) const {
        const Item& it = F.items[item];
        int64_t w = 0;
        if (it.kind != 'C') return 0;   // update entries of auto-update variables have no explicit prerequisites
        if (it.pq) w = std::max(w, M.qW);
        if (it.pu) w = std::max(w, M.uW);
        if (it.pz) w = std::max(w, M.zW);
        for (int d : it.pd) w = std::max(w, dvOfItem(M, d).lastWrite);
        for (int c : it.pc) w = std::max(w, writeOfCe(M, c));
        return w;
    }
    int64_t writeOfCe(const Model& M, int item) const { return std::max(ceOfItem(M, item).expl, prereqWrite(M, item)); }
    // marked after everything that invalidates it (irrespective of the current stage)
    bool latent(const Model& M, int s, const MCe& e) const {
        if (e.mark == 0) return false;
        if (e.mark <= M.sub[s].lastInval[e.dep]) return false;
        if (e.mark <= e.expl) return false;
        if (e.mark <= prereqWrite(M, e.item)) return false;
        return true;
    }
    Tri valid(const Model& M, int s, const MCe& e) const {
        int st = M.sub[s].stage;
        if (st >= e.comp) return e.ambig ? UNSPEC : YES;
        if (st < e.dep) return NO;
        if (!latent(M, s, e)) return NO;
        return e.unspec ? UNSPEC : YES;
    }

    // invalidate stage g and above, everywhere
    void invalidate(Model& M, int g, int64_t now) const {
        if (M.sys >= g) {
            for (int i = g; i <= M.sys; ++i) M.bumpedWin[i] = M.bumpedStep[i] = true;
            if (g <= MODEL && M.sys >= MODEL) M.qW = M.uW = M.zW = now;   // the variables are destroyed
            if (g <= TOPO) M.t = NaN;
            M.sys = g - 1;
        }
        for (int s = 0; s < M.nsub; ++s) {
            MSub& ss = M.sub[s];
            if (M.sys < INST) { ss.qew.clear(); ss.uew.clear(); }
            if (M.sys < MODEL) { ss.q.clear(); ss.u.clear(); ss.z.clear(); ss.uw.clear(); ss.zw.clear(); }
            if (ss.stage < g) continue;
            for (int i = g; i <= ss.stage; ++i) ss.lastInval[i] = now;
            ss.stage = g - 1;
            while (!ss.ce.empty() && ss.ce.back().alloc > g - 1) { M.ceOf[ss.ce.back().item] = -1; ss.ce.pop_back(); }
            while (!ss.dv.empty() && ss.dv.back().alloc > g - 1) { M.dvOf[ss.dv.back().item] = -1; ss.dv.pop_back(); }
            popBlocks(ss.qb, g - 1); popBlocks(ss.ub, g - 1); popBlocks(ss.zb, g - 1);
            popBlocks(ss.qeb, g - 1); popBlocks(ss.ueb, g - 1); popBlocks(ss.udeb, g - 1); popBlocks(ss.trg, g - 1);
            for (auto& e : ss.ce) if (e.ambig && ss.stage < e.comp) e.ambig = false;
        }
    }
    bool canAdvSub(const Model& M, int s) const {
        if (M.nsub == 0) return false;
        int g = M.sub[s].stage + 1;
        if (g > REP) return false;
        if (g <= INST) {
            // allocation stages are realized in lockstep, in the fixture's subsystem order (as a System does): subsystems earlier
            // in the order have finished stage g, later ones have finished stage g-1 -- so every prerequisite exists when its
            // dependent is allocated and outlives it
            bool before = true;
            for (int o : F.order) { if (o == s) { before = false; continue; } if (M.sub[o].stage < (before ? g : g - 1)) return false; }
        }
        return true;
    }
    bool canAdvSys(const Model& M) const {
        if (M.nsub == 0 || M.sys >= REP) return false;
        for (auto& ss : M.sub) if (ss.stage < M.sys + 1) return false;
        return true;
    }
    void advSys(Model& M, int64_t now) const {
        int g = M.sys + 1;
        if (g == TOPO) M.t = 0;
        if (g == MODEL) {
            for (auto& ss : M.sub) {
                ss.q.assign(sumBlocks(ss.qb), VV->qi); ss.u.assign(sumBlocks(ss.ub), VV->ui); ss.z.assign(sumBlocks(ss.zb), VV->zi);
                ss.uw.assign(ss.u.size(), 1.0); ss.zw.assign(ss.z.size(), 1.0);
            }
            M.qW = M.uW = M.zW = now;    // freshly (re)initialized variables: dependents are told
        }
        if (g == INST)
            for (auto& ss : M.sub) { ss.qew.assign(sumBlocks(ss.qeb), 1.0); ss.uew.assign(sumBlocks(ss.ueb), 1.0); }
        M.sys = g;
    }
    // model of "the copy of M" (copy constructor / copy assignment)
    Model copyOf(const Model& src, int64_t now) const {
        Model M = src;
        for (int i = 0; i < 11; ++i) M.bumpedWin[i] = M.bumpedStep[i] = false;
        for (int s = 0; s < M.nsub; ++s) {
            MSub& ss = M.sub[s];
            for (auto& e : ss.ce) {
                bool lat = latent(src, s, src.sub[s].ce[&e - &ss.ce[0]]);
                if (e.dep > INST) {
                    // "copying only state variables and not the cache": nothing above Instance is valid in the
                    // copy until it is marked there.  (Entries marked in violation of the documented
                    // precondition stay unspecified.)
                    if (!(e.unspec && lat)) { e.mark = 0; e.unspec = false; e.sinceCopy = true; e.srcRealized = src.sub[s].stage >= e.dep; }
                } else if (lat) e.unspec = true;   // Instance and below: the implementation keeps them, the docs say cache is not copied
                e.ambig = false;
            }
            int ns = std::min(ss.stage, (int)INST);
            for (int i = ns + 1; i <= ss.stage; ++i) ss.lastInval[i] = now;
            ss.stage = ns;
        }
        M.sys = std::min(M.sys, (int)INST);
        return M;
    }
};

// ------------------------------------------------------------------ operations
enum Kind { K_ADV, K_ADVSYS, K_INVALL, K_INVCACHE, K_TIME, K_Q, K_U, K_Z, K_Y, K_QS, K_US, K_ZS, K_UW, K_ZW, K_UWS, K_ZWS,
            K_QEW, K_UEW, K_QEWS, K_UEWS, K_DV, K_MARK, K_UNMARK, K_UPDCE, K_AUTO, K_COPYCTOR, K_ASSIGN_TS, K_ASSIGN_ST,
            K_SWAP, K_CLEAR, K_INIT, K_NKINDS };
const char* KN[] = {"advanceSubsystemToStage", "advanceSystemToStage", "invalidateAll", "invalidateAllCacheAtOrAbove", "updTime",
                    "updQ-global", "updU-global", "updZ-global", "updY", "updQ-sub", "updU-sub", "updZ-sub", "updUWeights-global",
                    "updZWeights-global", "updUWeights-sub", "updZWeights-sub", "updQErrWeights-global", "updUErrWeights-global",
                    "updQErrWeights-sub", "updUErrWeights-sub", "updDiscreteVariable", "markCacheValueRealized",
                    "markCacheValueNotRealized", "updCacheEntry", "autoUpdateDiscreteVariables", "copy-construct", "copy-assign-T=S",
                    "copy-assign-S=T", "move-swap", "clear", "init"};
struct Op { int kind, a; bool core; std::string name; };

// (stage that must be invalidated for soundness, whether the documentation states the stage exactly)
struct InvRule { int must; bool exact; };
InvRule ruleOf(int kind) {
    switch (kind) {
        case K_TIME: return {TIME, true};      // State.h: "the stage will be backed up if necessary to the indicated stage" (Time-1)
        case K_Q:    return {POS, true};
        case K_U:    return {VEL, true};
        case K_Z:    return {DYN, true};
        case K_Y:    return {POS, false};      // the remark says Dynamics-1 although y contains q: only the sound direction is demanded
        case K_QS:   return {POS, false};      // per-subsystem overloads carry no documentation
        case K_US:   return {VEL, false};
        case K_ZS:   return {DYN, false};
        case K_UW:   return {REP, true};       // "This will invalidate just Report stage"
        case K_ZW:   return {REP, true};       // "will invalidate just Report stage"
        case K_UWS:  return {REP, false};
        case K_ZWS:  return {REP, false};
        case K_QEW:  return {POS, true};       // "Position stage is invalidated"
        case K_UEW:  return {VEL, true};       // "Velocity stage is invalidated"
        case K_QEWS: return {POS, false};
        case K_UEWS: return {VEL, false};
        default:     return {INF, false};
    }
}

std::vector<Op> makeOps(const Fixture& F) {
    // `core` operations are the ones histories are extended with in the plain mode; every operation (core or not) is
    // evaluated as the last operation of every history.  The BFS mode expands with all of them.
    std::vector<Op> ops;
    bool hasAuto = false; for (auto& it : F.items) hasAuto |= it.kind == 'A';
    auto add = [&](int k, int a, bool core, const std::string& nm) { ops.push_back(Op{k, a, core, nm}); };
    for (int s = 0; s < F.nsub; ++s) add(K_ADV, s, true, "adv(" + std::to_string(s) + ")");
    add(K_ADVSYS, 0, true, "advSys");
    for (int g = TOPO; g <= REP; ++g) add(K_INVALL, g, g == INST || g == POS, std::string("invAll(") + SN[g] + ")");
    for (int g = MODEL; g <= REP; ++g) add(K_INVCACHE, g, g == DYN, std::string("invCache(") + SN[g] + ")");
    add(K_TIME, 0, true, "updTime"); add(K_Q, 0, true, "updQ"); add(K_U, 0, false, "updU"); add(K_Z, 0, true, "updZ"); add(K_Y, 0, false, "updY");
    for (int s = 0; s < F.nsub; ++s) {
        std::string p = "(" + std::to_string(s) + ")";
        add(K_QS, s, false, "updQ" + p); add(K_US, s, false, "updU" + p); add(K_ZS, s, false, "updZ" + p);
        add(K_UWS, s, false, "updUWeights" + p); add(K_ZWS, s, false, "updZWeights" + p);
        add(K_QEWS, s, false, "updQErrWeights" + p); add(K_UEWS, s, false, "updUErrWeights" + p);
    }
    add(K_UW, 0, false, "updUWeights"); add(K_ZW, 0, false, "updZWeights");
    add(K_QEW, 0, false, "updQErrWeights"); add(K_UEW, 0, false, "updUErrWeights");
    for (size_t i = 0; i < F.items.size(); ++i) {
        char k = F.items[i].kind; std::string p = "(" + std::to_string(i) + ")";
        if (k == 'D' || k == 'A') add(K_DV, (int)i, true, "updDV" + p);
        if (k == 'C' || k == 'A') {
            bool isPrereq = false; for (auto& o : F.items) for (int c : o.pc) isPrereq |= c == (int)i;
            add(K_MARK, (int)i, true, "mark" + p); add(K_UNMARK, (int)i, isPrereq, "unmark" + p); add(K_UPDCE, (int)i, k == 'A', "updCE" + p);
        }
    }
    add(K_AUTO, 0, hasAuto, "autoUpdate");
    add(K_COPYCTOR, 0, true, "T=State(S)"); add(K_ASSIGN_TS, 0, false, "T=S"); add(K_ASSIGN_ST, 0, true, "S=T");
    add(K_SWAP, 0, true, "swap"); add(K_CLEAR, 0, false, "clear"); add(K_INIT, 0, true, "init");
    return ops;
}

// ------------------------------------------------------------------ the world: two real States and their models
struct World {
    State S, T;
    Model mS, mT;
    int64_t now = 1;
    Array_<StageVersion> snapWin, snapStep;
    int snapWinSys = 0, snapStepSys = 0;
};

// reporting context for one operation application
struct Ctx {
    verif::Run* run = nullptr;
    bool check = false;           // evaluate the complete oracle
    bool stepWindowOnly = false;  // BFS: version-difference oracle over one step only
    std::function<std::string()> where, replay;
    int64_t nChecks = 0;
    int64_t nowForResync = 0;
    std::string tag;              // "<mode>|<fixture>" for the cross-check between the two modes
    bool bad = false;             // a violation that makes model and implementation diverge: do not extend this history
    bool verbose = false;
    void fail(const std::string& key, const std::string& msg, bool diverges = true) {
        if (diverges) bad = true;
        if (run) run->violation(key, msg + " | at " + (where ? where() : ""), replay ? replay() : "");
        if (run) run->count("oracle:" + key + ":FAIL");
        if (run && !tag.empty()) run->count("viol|" + tag + "|" + key);
    }
};

struct Engine {
    const Fixture& F;
    ModelOps MO;
    std::vector<Op> ops;
    explicit Engine(const Fixture& f) : F(f), MO(f), ops(makeOps(f)) {}

    // ---------------------------------------------------------------- enabledness (documented preconditions)
    bool enabled(const World& w, const Op& op) const {
        const Model& M = w.mS;
        if (op.kind == K_INIT) return M.nsub == 0;
        if (op.kind == K_COPYCTOR || op.kind == K_ASSIGN_TS || op.kind == K_ASSIGN_ST || op.kind == K_SWAP || op.kind == K_CLEAR) return true;
        if (M.nsub == 0) return false;
        switch (op.kind) {
            case K_ADV: return MO.canAdvSub(M, op.a);
            case K_ADVSYS: return MO.canAdvSys(M);
            case K_INVALL: case K_INVCACHE: case K_AUTO: return true;
            case K_TIME: return M.sys >= TOPO;
            case K_Q: case K_U: case K_Z: case K_Y: case K_QS: case K_US: case K_ZS: case K_UW: case K_ZW: case K_UWS: case K_ZWS: return M.sys >= MODEL;
            case K_QEW: case K_UEW: case K_QEWS: case K_UEWS: return M.sys >= INST;
            case K_DV: return M.dvOf[op.a] >= 0;
            case K_MARK: { if (M.ceOf[op.a] < 0) return false; const MCe& e = MO.ceOfItem(M, op.a); return M.sub[F.items[op.a].sub].stage >= e.dep - 1; }
            case K_UNMARK: case K_UPDCE: return M.ceOf[op.a] >= 0;
        }
        return false;
    }

    // ---------------------------------------------------------------- allocation done while realizing stage g of subsystem s
    void allocate(State& X, Model& M, int s, int g, Ctx& c) const {
        const SubsystemIndex sx(s);
        MSub& ss = M.sub[s];
        for (size_t i = 0; i < F.items.size(); ++i) {
            const Item& it = F.items[i];
            if (it.sub != s || it.alloc != g) continue;
            switch (it.kind) {
                case 'Q': { int exp = sumBlocks(ss.qb); int got = X.allocateQ(sx, Vector(it.a, VV->qi)); ss.qb.push_back({g, it.a, 0}); c.nChecks++; if (got != exp) c.fail("allocate/index", "allocateQ returned " + std::to_string(got) + " expected " + std::to_string(exp)); break; }
                case 'U': { int exp = sumBlocks(ss.ub); int got = X.allocateU(sx, Vector(it.a, VV->ui)); ss.ub.push_back({g, it.a, 0}); c.nChecks++; if (got != exp) c.fail("allocate/index", "allocateU returned " + std::to_string(got)); break; }
                case 'Z': { int exp = sumBlocks(ss.zb); int got = X.allocateZ(sx, Vector(it.a, VV->zi)); ss.zb.push_back({g, it.a, 0}); c.nChecks++; if (got != exp) c.fail("allocate/index", "allocateZ returned " + std::to_string(got)); break; }
                case 'e': {
                    int got = -1, exp = -1;
                    if (it.a == 0) { exp = sumBlocks(ss.qeb); got = X.allocateQErr(sx, it.b); ss.qeb.push_back({g, it.b, 0}); }
                    else if (it.a == 1) { exp = sumBlocks(ss.ueb); got = X.allocateUErr(sx, it.b); ss.ueb.push_back({g, it.b, 0}); }
                    else if (it.a == 2) { exp = sumBlocks(ss.udeb); got = X.allocateUDotErr(sx, it.b); ss.udeb.push_back({g, it.b, 0}); }
                    else { exp = 0; for (auto& b : ss.trg) if (b.aux == it.c) exp += b.n; got = X.allocateEventTrigger(sx, stg(it.c), it.b); ss.trg.push_back({g, it.b, it.c}); }
                    c.nChecks++; if (got != exp) c.fail("allocate/index", "constraint-error/trigger slot allocation returned " + std::to_string(got) + " expected " + std::to_string(exp));
                    break;
                }
                case 'D': {
                    int exp = (int)ss.dv.size();
                    int got = X.allocateDiscreteVariable(sx, stg(it.a), new Value<double>(VV->di));
                    ss.dv.push_back(MDv{(int)i, g, it.a, false, -1, VV->di, 0, NaN}); M.dvOf[i] = exp;
                    c.nChecks++; if (got != exp) c.fail("allocate/index", "allocateDiscreteVariable returned " + std::to_string(got));
                    break;
                }
                case 'A': {
                    int expD = (int)ss.dv.size(), expC = (int)ss.ce.size();
                    int got = X.allocateAutoUpdateDiscreteVariable(sx, stg(it.a), new Value<double>(VV->di), stg(it.b));
                    int gotC = X.getDiscreteVarUpdateIndex(sx, DiscreteVariableIndex(got));
                    ss.dv.push_back(MDv{(int)i, g, it.a, true, expC, VV->di, 0, NaN}); M.dvOf[i] = expD;
                    ss.ce.push_back(MCe{(int)i, g, it.b, INF, true, expD, VV->di, 0, 0, false, false}); M.ceOf[i] = expC;
                    c.nChecks++; if (got != expD || gotC != expC) c.fail("allocate/index", "allocateAutoUpdateDiscreteVariable returned " + std::to_string(got) + "/" + std::to_string(gotC));
                    break;
                }
                case 'C': {
                    int exp = (int)ss.ce.size(), got;
                    bool pre = it.pq || it.pu || it.pz || !it.pd.empty() || !it.pc.empty();
                    if (pre) {
                        Array_<DiscreteVarKey> dk; Array_<CacheEntryKey> ck;
                        for (int d : it.pd) dk.push_back(DiscreteVarKey(SubsystemIndex(F.items[d].sub), DiscreteVariableIndex(M.dvOf[d])));
                        for (int e : it.pc) ck.push_back(CacheEntryKey(SubsystemIndex(F.items[e].sub), CacheEntryIndex(M.ceOf[e])));
                        got = X.allocateCacheEntryWithPrerequisites(sx, stg(it.a), stg(it.b), it.pq, it.pu, it.pz, dk, ck, new Value<double>(VV->ci));
                    } else got = X.allocateCacheEntry(sx, stg(it.a), stg(it.b), new Value<double>(VV->ci));
                    ss.ce.push_back(MCe{(int)i, g, it.a, it.b, false, -1, VV->ci, 0, 0, false, false}); M.ceOf[i] = exp;
                    c.nChecks++; if (got != exp) c.fail("allocate/index", "allocateCacheEntry returned " + std::to_string(got));
                    break;
                }
            }
        }
    }

    static void setAll(std::vector<double>& v, double x) { for (auto& e : v) e = x; }
    static double cur(const std::vector<double>& v, double dflt) { return v.empty() ? dflt : v[0]; }
    // first value of a per-subsystem vector member over all subsystems (dflt if none has elements)
    static double first(const Model& M, std::vector<double> MSub::*mem, double dflt) { for (auto& ss : M.sub) if (!(ss.*mem).empty()) return (ss.*mem)[0]; return dflt; }

    // After an invalidating operation: compare observed stages with the expectation "stage := min(stage, g-1)".
    // Over-invalidation re-synchronises the model (and is a violation only where the documentation states the stage).
    void reconcileStages(const State& X, Model& M, const std::vector<int>& before, int sysBefore, int g, bool exact, const Op& op, int64_t now, Ctx& c) const {
        int low = INF; bool under = false;
        auto look = [&](int obs, int bef) { int e = std::min(bef, g - 1); if (obs > e) under = true; if (obs < e) low = std::min(low, obs + 1); };
        for (int s = 0; s < M.nsub; ++s) look((int)X.getSubsystemStage(SubsystemIndex(s)), before[s]);
        look((int)X.getSystemStage(), sysBefore);
        c.nChecks += M.nsub + 1;
        if (under) { c.fail(std::string(KN[op.kind]) + "/under-invalidates", op.name + " left a stage above " + SN[g - 1] + " (must invalidate " + SN[g] + ")"); return; }
        if (low < INF) {
            if (exact) c.fail(std::string(KN[op.kind]) + "/over-invalidates-" + SN[low], op.name + " invalidated stage " + SN[low] + " although the documentation says it invalidates " + (g <= REP ? SN[g] : "nothing"), false);
            else if (c.run && c.check) c.run->count(std::string("unspecified:over-invalidation-undocumented:") + KN[op.kind]);
            MO.invalidate(M, low, now);     // follow the implementation so that the rest of the history stays comparable
        }
    }

    // ---------------------------------------------------------------- apply one operation to implementation and model
    // returns false if model and implementation have diverged (do not extend)
    bool apply(World& w, const Op& op, Ctx& c) const {
        w.now++;
        const int64_t now = w.now;
        c.nowForResync = now;
        State& S = w.S; Model& M = w.mS;
        std::vector<int> before(M.nsub); for (int s = 0; s < M.nsub; ++s) before[s] = M.sub[s].stage;
        const int sysBefore = M.sys;
        for (int i = 0; i < 11; ++i) M.bumpedStep[i] = false;
        bool replaced = false;     // the whole State object content was replaced: no version continuity
        ValueVersion qv0 = 0, uv0 = 0, zv0 = 0, dvv0 = 0, cev0 = 0;
        if (M.nsub > 0 || true) { qv0 = S.getQValueVersion(); uv0 = S.getUValueVersion(); zv0 = S.getZValueVersion(); }
        if (c.check) { S.getSystemStageVersions(w.snapStep); w.snapStepSys = M.sys; }
        bool wroteQ = false, wroteU = false, wroteZ = false;
        try {
            switch (op.kind) {
                case K_INIT: {
                    S.setNumSubsystems(F.nsub);
                    for (int s = 0; s < F.nsub; ++s) S.initializeSubsystem(SubsystemIndex(s), "sub" + std::to_string(s), "v" + std::to_string(s));
                    MO.init(M); replaced = true; break;
                }
                case K_ADV: {
                    int s = op.a, g = M.sub[s].stage + 1;
                    if (g <= INST) allocate(S, M, s, g, c);
                    S.advanceSubsystemToStage(SubsystemIndex(s), stg(g));
                    M.sub[s].stage = g; break;
                }
                case K_ADVSYS: { int g = M.sys + 1; S.advanceSystemToStage(stg(g)); MO.advSys(M, now); break; }
                case K_INVALL: { S.invalidateAll(stg(op.a)); MO.invalidate(M, op.a, now); reconcileStages(S, M, before, sysBefore, op.a, true, op, now, c); break; }
                case K_INVCACHE: {
                    if (op.a < INST) {
                        bool threw = false;
                        try { S.invalidateAllCacheAtOrAbove(stg(op.a)); } catch (const std::exception&) { threw = true; }
                        c.nChecks++; if (!threw) c.fail("invalidateAllCacheAtOrAbove/accepts-stage-below-Instance", "invalidateAllCacheAtOrAbove(Model) did not throw");
                    } else { S.invalidateAllCacheAtOrAbove(stg(op.a)); MO.invalidate(M, op.a, now); reconcileStages(S, M, before, sysBefore, op.a, true, op, now, c); }
                    break;
                }
                case K_TIME: { double nv = toggle(M.t, VV->v); S.updTime() = nv; MO.invalidate(M, TIME, now); M.t = nv; break; }
                case K_Q: { double nv = toggle(first(M, &MSub::q, VV->qi), VV->v); S.updQ() = nv; MO.invalidate(M, POS, now); M.qW = now; for (auto& ss : M.sub) setAll(ss.q, nv); wroteQ = true; break; }
                case K_U: { double nv = toggle(first(M, &MSub::u, VV->ui), VV->v); S.updU() = nv; MO.invalidate(M, VEL, now); M.uW = now; for (auto& ss : M.sub) setAll(ss.u, nv); wroteU = true; break; }
                case K_Z: { double nv = toggle(first(M, &MSub::z, VV->zi), VV->v); S.updZ() = nv; MO.invalidate(M, DYN, now); M.zW = now; for (auto& ss : M.sub) setAll(ss.z, nv); wroteZ = true; break; }
                case K_Y: {
                    double nv = toggle(first(M, &MSub::q, first(M, &MSub::u, first(M, &MSub::z, VV->qi))), VV->v); S.updY() = nv; MO.invalidate(M, POS, now); M.qW = M.uW = M.zW = now;
                    for (auto& ss : M.sub) { setAll(ss.q, nv); setAll(ss.u, nv); setAll(ss.z, nv); }
                    wroteQ = wroteU = wroteZ = true; break;
                }
                case K_QS: { MSub& ss = M.sub[op.a]; double nv = toggle(cur(ss.q, VV->qi), VV->v); S.updQ(SubsystemIndex(op.a)) = nv; MO.invalidate(M, POS, now); M.qW = now; setAll(ss.q, nv); wroteQ = true; break; }
                case K_US: { MSub& ss = M.sub[op.a]; double nv = toggle(cur(ss.u, VV->ui), VV->v); S.updU(SubsystemIndex(op.a)) = nv; MO.invalidate(M, VEL, now); M.uW = now; setAll(ss.u, nv); wroteU = true; break; }
                case K_ZS: { MSub& ss = M.sub[op.a]; double nv = toggle(cur(ss.z, VV->zi), VV->v); S.updZ(SubsystemIndex(op.a)) = nv; MO.invalidate(M, DYN, now); M.zW = now; setAll(ss.z, nv); wroteZ = true; break; }
                case K_UW: { double nv = toggle(first(M, &MSub::uw, 1.0), VV->w); S.updUWeights() = nv; MO.invalidate(M, REP, now); for (auto& ss : M.sub) setAll(ss.uw, nv); break; }
                case K_ZW: { double nv = toggle(first(M, &MSub::zw, 1.0), VV->w); S.updZWeights() = nv; MO.invalidate(M, REP, now); for (auto& ss : M.sub) setAll(ss.zw, nv); break; }
                case K_UWS: { MSub& ss = M.sub[op.a]; double nv = toggle(cur(ss.uw, 1.0), VV->w); S.updUWeights(SubsystemIndex(op.a)) = nv; MO.invalidate(M, REP, now); setAll(ss.uw, nv); break; }
                case K_ZWS: { MSub& ss = M.sub[op.a]; double nv = toggle(cur(ss.zw, 1.0), VV->w); S.updZWeights(SubsystemIndex(op.a)) = nv; MO.invalidate(M, REP, now); setAll(ss.zw, nv); break; }
                case K_QEW: { double nv = toggle(first(M, &MSub::qew, 1.0), VV->w); S.updQErrWeights() = nv; MO.invalidate(M, POS, now); for (auto& ss : M.sub) setAll(ss.qew, nv); break; }
                case K_UEW: { double nv = toggle(first(M, &MSub::uew, 1.0), VV->w); S.updUErrWeights() = nv; MO.invalidate(M, VEL, now); for (auto& ss : M.sub) setAll(ss.uew, nv); break; }
                case K_QEWS: { MSub& ss = M.sub[op.a]; double nv = toggle(cur(ss.qew, 1.0), VV->w); S.updQErrWeights(SubsystemIndex(op.a)) = nv; MO.invalidate(M, POS, now); setAll(ss.qew, nv); break; }
                case K_UEWS: { MSub& ss = M.sub[op.a]; double nv = toggle(cur(ss.uew, 1.0), VV->w); S.updUErrWeights(SubsystemIndex(op.a)) = nv; MO.invalidate(M, VEL, now); setAll(ss.uew, nv); break; }
                case K_DV: {
                    int s = F.items[op.a].sub, ix = M.dvOf[op.a];
                    const DiscreteVarKey key{SubsystemIndex(s), DiscreteVariableIndex(ix)};
                    dvv0 = S.getDiscreteVarInfo(key).getValueVersion();
                    int g = M.sub[s].dv[ix].inval; double nv = toggle(M.sub[s].dv[ix].val, VV->v);
                    Value<double>::updDowncast(S.updDiscreteVariable(key.first, key.second)) = nv;
                    MO.invalidate(M, g, now);
                    MDv& d = M.sub[s].dv[ix];        // survives: allocation stage < invalidated stage
                    d.val = nv; d.lastWrite = now; d.lastUpdT = M.t;
                    if (d.isAuto) M.sub[s].ce[d.ce].expl = now;   // "The auto-update cache entry is always invalidated by an explicit change to the variable"
                    reconcileStages(S, M, before, sysBefore, g, true, op, now, c);
                    c.nChecks++; if (!(S.getDiscreteVarInfo(key).getValueVersion() > dvv0)) c.fail("value-version/discrete-variable-not-increased", "value version of the discrete variable did not increase in " + op.name, false);
                    break;
                }
                case K_MARK: {
                    int s = F.items[op.a].sub, ix = M.ceOf[op.a]; MCe& e = M.sub[s].ce[ix];
                    if (e.isAuto) S.markDiscreteVarUpdateValueRealized(SubsystemIndex(s), DiscreteVariableIndex(e.dv));
                    else S.markCacheValueRealized(SubsystemIndex(s), CacheEntryIndex(ix));
                    e.mark = now; e.ambig = false; e.sinceCopy = false;
                    e.unspec = M.sub[s].stage < e.dep;     // marked below the documented minimum stage: validity afterwards is unspecified
                    break;
                }
                case K_UNMARK: {
                    int s = F.items[op.a].sub, ix = M.ceOf[op.a]; MCe& e = M.sub[s].ce[ix];
                    const CacheEntryKey key{SubsystemIndex(s), CacheEntryIndex(ix)};
                    cev0 = S.getCacheEntryInfo(key).getValueVersion();
                    S.markCacheValueNotRealized(key.first, key.second);
                    e.expl = now; if (M.sub[s].stage >= e.comp) e.ambig = true;   // docs conflict: "will return false" vs. presumed valid at computed-by stage
                    c.nChecks++; if (!(S.getCacheEntryInfo(key).getValueVersion() > cev0)) c.fail("value-version/cache-entry-not-increased-by-invalidation", "value version of the cache entry did not increase in " + op.name, false);
                    break;
                }
                case K_UPDCE: {
                    int s = F.items[op.a].sub, ix = M.ceOf[op.a]; MCe& e = M.sub[s].ce[ix];
                    double nv = toggle(e.val, VV->v);
                    if (e.isAuto) Value<double>::updDowncast(S.updDiscreteVarUpdateValue(SubsystemIndex(s), DiscreteVariableIndex(e.dv))) = nv;
                    else Value<double>::updDowncast(S.updCacheEntry(SubsystemIndex(s), CacheEntryIndex(ix))) = nv;
                    e.val = nv; break;
                }
                case K_AUTO: {
                    S.autoUpdateDiscreteVariables();
                    for (int s = 0; s < M.nsub; ++s) for (auto& d : M.sub[s].dv) {
                        if (!d.isAuto) continue;
                        MCe& e = M.sub[s].ce[d.ce];
                        Tri v = MO.valid(M, s, e);
                        if (v == UNSPEC) { if (c.run) c.run->harnessError("autoUpdate on an entry of unspecified validity"); continue; }
                        if (v != YES) continue;
                        std::swap(d.val, e.val); d.lastUpdT = M.t; e.expl = now;
                        // entries that named the variable itself as prerequisite: the documentation does not say (nothing is invalidated by the swap)
                        for (int s2 = 0; s2 < M.nsub; ++s2) for (auto& e2 : M.sub[s2].ce) {
                            if (e2.isAuto) continue;
                            bool dep = false; for (int p : F.items[e2.item].pd) if (p == d.item) dep = true;
                            if (dep && MO.latent(M, s2, e2)) { e2.unspec = true; if (c.run && c.check) c.run->count("unspecified:autoUpdate-swap-with-dependent-of-the-variable"); }
                        }
                    }
                    break;
                }
                case K_COPYCTOR: { State tmp(S); w.T = std::move(tmp); w.mT = MO.copyOf(M, now); break; }   // copy constructor, then move assignment (pointer swap)
                case K_ASSIGN_TS: { w.T = S; w.mT = MO.copyOf(M, now); break; }
                case K_ASSIGN_ST: { S = w.T; M = MO.copyOf(w.mT, now); replaced = true; break; }
                case K_SWAP: { State tmp(std::move(S)); S = std::move(w.T); w.T = std::move(tmp); std::swap(w.mS, w.mT); replaced = true; break; }
                case K_CLEAR: { S.clear(); Model e; M = e; replaced = true; break; }
            }
            InvRule r = ruleOf(op.kind);
            if (r.must < INF) reconcileStages(S, M, before, sysBefore, r.must, r.exact, op, now, c);
        } catch (const std::exception& e) {
            c.fail(std::string("unexpected-exception/") + KN[op.kind], op.name + " threw: " + std::string(e.what()).substr(0, 300));
            return false;
        }
        if (c.bad) return false;
        try {
        // ---- value versions of q,u,z (State.h: "incremented whenever any q is changed (... returned with writable access)")
        if (!replaced) {
            ValueVersion qv = S.getQValueVersion(), uv = S.getUValueVersion(), zv = S.getZValueVersion();
            c.nChecks += 3;
            if (wroteQ && !(qv > qv0)) c.fail("value-version/q-not-increased", "q value version not increased by " + op.name, false);
            if (wroteU && !(uv > uv0)) c.fail("value-version/u-not-increased", "u value version not increased by " + op.name, false);
            if (wroteZ && !(zv > zv0)) c.fail("value-version/z-not-increased", "z value version not increased by " + op.name, false);
            if (qv < qv0 || uv < uv0 || zv < zv0) c.fail("value-version/decreased", "a q/u/z value version decreased in " + op.name, false);
        }
        adopt(S, M, c, "S"); adopt(w.T, w.mT, c, "T");
        if (replaced) { S.getSystemStageVersions(w.snapWin); w.snapWinSys = w.mS.sys; for (int i = 0; i < 11; ++i) w.mS.bumpedWin[i] = false; }
        else if (c.check) {
            // ---- system stage versions through the public API
            int expStep = expectedDiff(w.mS.bumpedStep, w.snapStepSys, w.mS.sys);
            int gotStep = (int)S.getLowestSystemStageDifference(w.snapStep);
            c.nChecks++; if (gotStep != expStep) c.fail("stage-version/lowest-difference-one-step", std::string("getLowestSystemStageDifference over ") + op.name + " = " + SN[gotStep] + " expected " + SN[expStep], false);
            if (!c.stepWindowOnly) {
                int expW = expectedDiff(w.mS.bumpedWin, w.snapWinSys, w.mS.sys);
                int gotW = (int)S.getLowestSystemStageDifference(w.snapWin);
                c.nChecks++; if (gotW != expW) c.fail("stage-version/lowest-difference-window", std::string("getLowestSystemStageDifference since the start of the history = ") + SN[gotW] + " expected " + SN[expW], false);
            }
        }
        if (c.check) {
            bool fullT = op.kind == K_COPYCTOR || op.kind == K_ASSIGN_TS || op.kind == K_ASSIGN_ST || op.kind == K_SWAP;
            oracle(S, w.mS, "S", true, c);
            oracle(w.T, w.mT, "T", fullT, c);
        }
        } catch (const std::exception& e) {
            c.fail(std::string("unexpected-exception/observer-after-") + KN[op.kind], "an observer (getter) threw after " + op.name + ": " + std::string(e.what()).substr(0, 300));
            return false;
        }
        return !c.bad;
    }

    static int expectedDiff(const bool* bumped, int p, int nowSys) {
        for (int g = 1; g <= std::min(p, nowSys); ++g) if (bumped[g]) return g;
        return nowSys >= p ? INF : nowSys + 1;
    }

    // Where the documentation leaves the validity of an entry open, follow the implementation once it is observable.
    void adopt(const State& X, Model& M, Ctx& c, const char* who = "") const {
        for (int s = 0; s < M.nsub; ++s) for (size_t i = 0; i < M.sub[s].ce.size(); ++i) {
            MCe& e = M.sub[s].ce[i];
            int st = M.sub[s].stage;
            if (e.sinceCopy && e.mark == 0 && st >= e.dep && st < e.comp && X.isCacheValueRealized(SubsystemIndex(s), CacheEntryIndex((int)i))) {
                // This State object received its content by copy construction / copy assignment and the entry (depends-on above
                // Instance) has not been marked valid since: "copying only state variables and not the cache".  Precise key; the
                // model follows the implementation so that the rest of the history stays comparable.
                // Sub-keyed by whether the source had its depends-on stage realized at the time of the copy (different code paths:
                // versions of realized source stages are bumped in the copy, versions of unrealized ones are left as they were).
                c.fail(std::string("copy/entry-above-Instance-reads-valid-in-copy-without-being-marked/") + (e.srcRealized ? "source-had-depends-on-stage-realized" : "source-below-depends-on-stage"),
                       std::string(who) + ": cache entry (" + std::to_string(s) + "," + std::to_string(i) + ") item " + std::to_string(e.item) + " dependsOn=" + SN[e.dep] + " computedBy=" + SN[e.comp] +
                       " reads valid at subsystem stage " + SN[st] + " although it was never marked valid in this State object since its content was produced by a copy", false);
                e.mark = c.nowForResync; e.unspec = false; e.sinceCopy = false;
                if (e.mark <= e.expl) e.expl = 0;
                continue;
            }
            if (!e.unspec) continue;
            if (st < e.dep || st >= e.comp) continue;
            if (!MO.latent(M, s, e)) { e.unspec = false; continue; }    // definitely invalid anyway
            bool iv = X.isCacheValueRealized(SubsystemIndex(s), CacheEntryIndex((int)i));
            e.unspec = false; if (!iv) e.mark = 0;
            if (c.run && c.check) c.run->count(iv ? "unspecified:resolved-valid" : "unspecified:resolved-invalid");
        }
    }

    // ---------------------------------------------------------------- the oracle: everything observable, against the model
    void oracle(const State& X, Model& M, const char* who, bool full, Ctx& c) const {
        auto bad = [&](const std::string& key, const std::string& msg) { c.fail(key, std::string(who) + ": " + msg); };
        c.nChecks++;
        if (X.getNumSubsystems() != M.nsub) { bad("structure/num-subsystems", "getNumSubsystems=" + std::to_string(X.getNumSubsystems()) + " model " + std::to_string(M.nsub)); return; }
        c.nChecks++;
        if ((int)X.getSystemStage() != M.sys) bad("stage/system", std::string("system stage ") + SN[(int)X.getSystemStage()] + " model " + SN[M.sys]);
        for (int s = 0; s < M.nsub; ++s) { c.nChecks++; if ((int)X.getSubsystemStage(SubsystemIndex(s)) != M.sub[s].stage) bad("stage/subsystem", "subsystem " + std::to_string(s) + " stage " + SN[(int)X.getSubsystemStage(SubsystemIndex(s))] + " model " + SN[M.sub[s].stage]); }
        if (c.bad || M.nsub == 0) return;
        // time and continuous variables
        if (M.sys >= TOPO) { c.nChecks++; if (!sameD(X.getTime(), M.t)) bad("value/time", "time " + verif::fmtd(X.getTime()) + " model " + verif::fmtd(M.t)); }
        if (M.sys >= MODEL) {
            std::vector<double> gq, gu, gz;
            auto cmpv = [&](const Vector& v, const std::vector<double>& m, const char* nm, int s) {
                c.nChecks++;
                bool ok = v.size() == (int)m.size(); for (int i = 0; ok && i < v.size(); ++i) ok = v[i] == m[i];
                if (!ok) bad(std::string("value/") + nm, std::string(nm) + " of subsystem " + std::to_string(s) + " differs from the model (size " + std::to_string(v.size()) + " vs " + std::to_string(m.size()) + ")");
            };
            std::vector<double> guw, gzw;
            for (int s = 0; s < M.nsub; ++s) {
                const MSub& ss = M.sub[s]; SubsystemIndex sx(s);
                cmpv(X.getQ(sx), ss.q, "q", s); cmpv(X.getU(sx), ss.u, "u", s); cmpv(X.getZ(sx), ss.z, "z", s);
                cmpv(X.getUWeights(sx), ss.uw, "uWeights", s); cmpv(X.getZWeights(sx), ss.zw, "zWeights", s);
                gq.insert(gq.end(), ss.q.begin(), ss.q.end()); gu.insert(gu.end(), ss.u.begin(), ss.u.end()); gz.insert(gz.end(), ss.z.begin(), ss.z.end());
                guw.insert(guw.end(), ss.uw.begin(), ss.uw.end()); gzw.insert(gzw.end(), ss.zw.begin(), ss.zw.end());
                c.nChecks++; if (X.getQStart(sx) != (int)(gq.size() - ss.q.size()) || X.getUStart(sx) != (int)(gu.size() - ss.u.size()) || X.getZStart(sx) != (int)(gz.size() - ss.z.size())) bad("structure/start-index", "q/u/z start index of subsystem " + std::to_string(s));
            }
            std::vector<double> gy = gq; gy.insert(gy.end(), gu.begin(), gu.end()); gy.insert(gy.end(), gz.begin(), gz.end());
            cmpv(X.getQ(), gq, "global-q", -1); cmpv(X.getU(), gu, "global-u", -1); cmpv(X.getZ(), gz, "global-z", -1); cmpv(X.getY(), gy, "global-y", -1);
            cmpv(X.getUWeights(), guw, "global-uWeights", -1); cmpv(X.getZWeights(), gzw, "global-zWeights", -1);
            if (M.sys >= INST) {
                std::vector<double> gqe, gue; int nud = 0, ntr = 0;
                for (int s = 0; s < M.nsub; ++s) {
                    const MSub& ss = M.sub[s]; SubsystemIndex sx(s);
                    cmpv(X.getQErrWeights(sx), ss.qew, "qErrWeights", s); cmpv(X.getUErrWeights(sx), ss.uew, "uErrWeights", s);
                    gqe.insert(gqe.end(), ss.qew.begin(), ss.qew.end()); gue.insert(gue.end(), ss.uew.begin(), ss.uew.end());
                    int nd = sumBlocks(ss.udeb); nud += nd; ntr += sumBlocks(ss.trg);
                    c.nChecks++; if (X.getNQErr(sx) != (int)ss.qew.size() || X.getNUErr(sx) != (int)ss.uew.size() || X.getNUDotErr(sx) != nd || X.getNMultipliers(sx) != nd) bad("structure/constraint-error-sizes", "per-subsystem constraint error sizes of subsystem " + std::to_string(s));
                }
                cmpv(X.getQErrWeights(), gqe, "global-qErrWeights", -1); cmpv(X.getUErrWeights(), gue, "global-uErrWeights", -1);
                c.nChecks++; if (X.getNYErr() != (int)(gqe.size() + gue.size()) || X.getNUDotErr() != nud || X.getNMultipliers() != nud || X.getNEventTriggers() != ntr) bad("structure/constraint-error-sizes", "global constraint error / trigger sizes");
            }
        }
        // discrete variables and cache entries
        std::vector<std::vector<std::pair<int,int>>> expQ(3);   // expected dependents of q,u,z
        for (int s = 0; s < M.nsub; ++s) {
            MSub& ss = M.sub[s]; SubsystemIndex sx(s);
            const PerSubsystemInfo& pi = X.getPerSubsystemInfo(sx);
            c.nChecks++;
            if ((int)pi.discreteInfo.size() != (int)ss.dv.size() || (int)pi.cacheInfo.size() != (int)ss.ce.size()) { bad("structure/allocation-stack", "subsystem " + std::to_string(s) + " has " + std::to_string(pi.discreteInfo.size()) + " discrete variables / " + std::to_string(pi.cacheInfo.size()) + " cache entries, model " + std::to_string(ss.dv.size()) + "/" + std::to_string(ss.ce.size())); return; }
            for (size_t i = 0; i < ss.dv.size(); ++i) {
                const MDv& d = ss.dv[i]; DiscreteVariableIndex dx((int)i);
                c.nChecks += 3;
                double v = Value<double>::downcast(X.getDiscreteVariable(sx, dx)).get();
                if (v != d.val) bad("value/discrete-variable", "discrete variable (" + std::to_string(s) + "," + std::to_string(i) + ") = " + verif::fmtd(v) + " model " + verif::fmtd(d.val));
                if (!sameD(X.getDiscreteVarLastUpdateTime(sx, dx), d.lastUpdT)) bad("value/discrete-variable-last-update-time", "last update time of (" + std::to_string(s) + "," + std::to_string(i) + ") = " + verif::fmtd(X.getDiscreteVarLastUpdateTime(sx, dx)) + " model " + verif::fmtd(d.lastUpdT));
                if ((int)X.getDiscreteVarInvalidatesStage(sx, dx) != d.inval || (int)X.getDiscreteVarAllocationStage(sx, dx) != d.alloc || (d.isAuto ? (int)X.getDiscreteVarUpdateIndex(sx, dx) != d.ce : X.getDiscreteVarUpdateIndex(sx, dx).isValid())) bad("structure/discrete-variable-attributes", "attributes of discrete variable (" + std::to_string(s) + "," + std::to_string(i) + ")");
            }
            for (size_t i = 0; i < ss.ce.size(); ++i) {
                MCe& e = ss.ce[i]; CacheEntryIndex cx((int)i);
                Tri mv = MO.valid(M, s, e);
                bool iv = X.isCacheValueRealized(sx, cx);
                c.nChecks++;
                if (mv == UNSPEC) { if (c.run) c.run->count("unspecified:validity-not-compared"); }
                else if (iv != (mv == YES)) {
                    const Item& it = F.items[e.item];
                    std::string cls = std::string(e.isAuto ? "auto-update-entry" : "entry") + (it.kind == 'C' && (it.pq || it.pu || it.pz || !it.pd.empty() || !it.pc.empty()) ? "-with-prerequisites" : "");
                    bad(std::string(iv ? "cache/valid-but-model-stale/" : "cache/stale-but-model-valid/") + cls,
                        "cache entry (" + std::to_string(s) + "," + std::to_string(i) + ") item " + std::to_string(e.item) + " dependsOn=" + SN[e.dep] + " computedBy=" + SN[e.comp] + " isCacheValueRealized=" + std::to_string(iv) + " but the model says " + (mv == YES ? "valid" : "stale") + " at subsystem stage " + SN[ss.stage]);
                }
                if (iv || full) {
                    bool threw = false; double v = NaN;
                    try { v = Value<double>::downcast(X.getCacheEntry(sx, cx)).get(); } catch (const std::exception&) { threw = true; }
                    c.nChecks++;
                    if (threw == iv) bad("cache/getCacheEntry-throws-iff-stale", "getCacheEntry on (" + std::to_string(s) + "," + std::to_string(i) + ") " + (threw ? "threw" : "did not throw") + " although isCacheValueRealized=" + std::to_string(iv));
                    if (!threw && mv != NO) { c.nChecks++; if (v != e.val) bad("value/cache-entry", "valid cache entry (" + std::to_string(s) + "," + std::to_string(i) + ") holds " + verif::fmtd(v) + " model " + verif::fmtd(e.val)); }
                }
                if (e.isAuto) { c.nChecks++; if (X.isDiscreteVarUpdateValueRealized(sx, DiscreteVariableIndex(e.dv)) != iv) bad("cache/auto-update-alias", "isDiscreteVarUpdateValueRealized disagrees with isCacheValueRealized"); }
                if (full) {
                    c.nChecks++;
                    double uvv = Value<double>::downcast(X.updCacheEntry(sx, cx)).get();   // reading through the writable accessor: must not change validity
                    if (uvv != e.val && mv != NO) bad("value/cache-entry", "updCacheEntry value of (" + std::to_string(s) + "," + std::to_string(i) + ")");
                    if (X.isCacheValueRealized(sx, cx) != iv) bad("cache/updCacheEntry-changed-validity", "updCacheEntry changed validity");
                    if ((int)X.getCacheEntryAllocationStage(sx, cx) != e.alloc) bad("structure/cache-entry-attributes", "allocation stage of cache entry");
                }
                const Item& it = F.items[e.item];
                if (it.kind == 'C') { if (it.pq) expQ[0].push_back({s, (int)i}); if (it.pu) expQ[1].push_back({s, (int)i}); if (it.pz) expQ[2].push_back({s, (int)i}); }
            }
        }
        if (c.bad || !full) return;
        // dependents lists (public "advanced" API, exercised by StateTest): exactly the registered dependents
        auto same = [&](const ListOfDependents& l, std::vector<std::pair<int,int>> exp) {
            std::vector<std::pair<int,int>> got; for (auto it = l.cbegin(); it != l.cend(); ++it) got.push_back({(int)it->first, (int)it->second});
            std::sort(got.begin(), got.end()); std::sort(exp.begin(), exp.end()); return got == exp;
        };
        c.nChecks += 3;
        if (!same(X.getQDependents(), expQ[0]) || !same(X.getUDependents(), expQ[1]) || !same(X.getZDependents(), expQ[2])) bad("dependents/qUZ-lists", "q/u/z dependents lists differ from the registered prerequisites");
        for (size_t p = 0; p < F.items.size(); ++p) {
            const Item& pit = F.items[p];
            if (pit.kind != 'D' && pit.kind != 'A' && pit.kind != 'C') continue;
            std::vector<std::pair<int,int>> expD, expC;
            for (size_t j = 0; j < F.items.size(); ++j) {
                if (F.items[j].kind != 'C' || M.ceOf[j] < 0) continue;
                for (int d : F.items[j].pd) if (d == (int)p) expD.push_back({F.items[j].sub, M.ceOf[j]});
                for (int e : F.items[j].pc) if (e == (int)p) expC.push_back({F.items[j].sub, M.ceOf[j]});
            }
            if ((pit.kind == 'D' || pit.kind == 'A') && M.dvOf[p] >= 0) { c.nChecks++; if (!same(X.getDiscreteVarInfo(DiscreteVarKey(SubsystemIndex(pit.sub), DiscreteVariableIndex(M.dvOf[p]))).getDependents(), expD)) bad("dependents/discrete-variable-list", "dependents of discrete variable item " + std::to_string(p)); }
            if ((pit.kind == 'C' || pit.kind == 'A') && M.ceOf[p] >= 0) { c.nChecks++; if (!same(X.getCacheEntryInfo(CacheEntryKey(SubsystemIndex(pit.sub), CacheEntryIndex(M.ceOf[p]))).getDependents(), expC)) bad("dependents/cache-entry-list", "dependents of cache entry item " + std::to_string(p)); }
        }
    }

    // ---------------------------------------------------------------- canonical state (BFS merging)
    // stages, values, per-entry hidden relations (saved depends-on version == current, up-to-date flag) -- never raw
    // counters -- plus the model's own latent relations (so that two merged histories have the same model future).
    static void put(std::string& k, const void* p, size_t n) { k.append((const char*)p, n); }
    static void putD(std::string& k, double d) { if (std::isnan(d)) d = NaN; uint64_t b; memcpy(&b, &d, 8); if (d == 0) b = 0; put(k, &b, 8); }
    static void putI(std::string& k, int i) { put(k, &i, 4); }
    void canonOne(std::string& k, const State& X, const Model& M) const {
        putI(k, M.nsub); putI(k, M.sys); putD(k, M.t);
        for (int s = 0; s < M.nsub; ++s) {
            const MSub& ss = M.sub[s];
            const PerSubsystemInfo& pi = X.getPerSubsystemInfo(SubsystemIndex(s));
            putI(k, ss.stage); putI(k, (int)pi.getCurrentStage());
            for (auto* v : {&ss.q, &ss.u, &ss.z, &ss.uw, &ss.zw, &ss.qew, &ss.uew}) { putI(k, (int)v->size()); for (double d : *v) putD(k, d); }
            putI(k, (int)ss.dv.size());
            for (auto& d : ss.dv) { putD(k, d.val); putD(k, d.lastUpdT); }
            putI(k, (int)pi.cacheInfo.size());
            for (size_t i = 0; i < pi.cacheInfo.size(); ++i) {
                const CacheEntryInfo& ce = pi.cacheInfo[(int)i];
                char b[6];
                b[0] = ce.m_dependsOnVersionWhenLastComputed == pi.stageVersions[(int)ce.m_dependsOnStage];
                b[1] = ce.m_isUpToDateWithPrerequisites;
                const MCe& e = ss.ce[i];
                b[2] = MO.latent(M, s, e); b[3] = e.unspec; b[4] = e.ambig; b[5] = 0;
                put(k, b, 6);
                putD(k, Value<double>::downcast(*ce.m_value).get());
            }
        }
    }
    std::pair<uint64_t, uint64_t> canon(const World& w) const {
        std::string k; k.reserve(512);
        canonOne(k, w.S, w.mS); k.push_back('|'); canonOne(k, w.T, w.mT);
        return {verif::fnv1a(k.data(), k.size()), verif::fnv1a(k.data(), k.size(), 0x9E3779B97F4A7C15ULL)};
    }
    uint64_t outcomeHash(const World& w) const {
        std::string k;
        for (const State* X : {&w.S, &w.T}) {
            putI(k, (int)X->getSystemStage());
            for (int s = 0; s < X->getNumSubsystems(); ++s) {
                putI(k, (int)X->getSubsystemStage(SubsystemIndex(s)));
                const PerSubsystemInfo& pi = X->getPerSubsystemInfo(SubsystemIndex(s));
                for (size_t i = 0; i < pi.cacheInfo.size(); ++i) k.push_back(X->isCacheValueRealized(SubsystemIndex(s), CacheEntryIndex((int)i)) ? 'v' : 's');
            }
        }
        return verif::hashStr(k);
    }

    int opId(int kind, int a) const { for (size_t i = 0; i < ops.size(); ++i) if (ops[i].kind == kind && ops[i].a == a) return (int)i; return -1; }
    int opByName(const std::string& n) const { for (size_t i = 0; i < ops.size(); ++i) if (ops[i].name == n) return (int)i; return -1; }
};

// ------------------------------------------------------------------ bases: deterministic prefixes that bring the State to an interesting region
struct Base { std::string name; int level; bool mark; int stagger; };   // stagger: -1 none, else the first subsystem in order goes to Report, the others to `level`
std::vector<Base> makeBases() {
    std::vector<Base> B;
    B.push_back({"empty", 0, false, -1});
    for (int g : {MODEL, INST, TIME, POS, VEL, DYN, ACC, REP}) B.push_back({std::string("R-") + SN[g], g, false, -1});
    for (int g : {INST, TIME, POS, VEL, DYN, ACC, REP}) B.push_back({std::string("R-") + SN[g] + "+marked", g, true, -1});
    B.push_back({"stagger-Time+marked", TIME, true, 1});
    B.push_back({"stagger-Model", MODEL, false, 1});
    return B;
}

struct Case {
    const Engine* E; const Base* B;
    std::vector<int> prefix;     // op ids of the base
};

// prefix of a base, computed on a scratch world
std::vector<int> computePrefix(const Engine& E, const Base& B) {
    std::vector<int> pre;
    World w; Ctx c;
    auto doOp = [&](int id) { if (id < 0 || !E.enabled(w, E.ops[id])) return false; pre.push_back(id); Ctx cc; return E.apply(w, E.ops[id], cc); };
    doOp(E.opId(K_INIT, 0));
    for (int g = 1; g <= B.level; ++g) { for (int s : E.F.order) doOp(E.opId(K_ADV, s)); doOp(E.opId(K_ADVSYS, 0)); }
    if (B.stagger >= 0) for (int g = B.level + 1; g <= REP; ++g) doOp(E.opId(K_ADV, E.F.order[0]));
    if (B.mark)
        for (size_t i = 0; i < E.F.items.size(); ++i) {
            int id = E.opId(K_MARK, (int)i); if (id < 0 || w.mS.ceOf[i] < 0) continue;
            const MCe& e = E.MO.ceOfItem(w.mS, (int)i);
            if (w.mS.sub[E.F.items[i].sub].stage >= e.dep) doOp(id);     // only marks that satisfy the documented precondition
        }
    return pre;
}

// fresh world = prefix + history, replayed silently; false if a replayed step diverged (reported at its own node)
bool build(const Case& cs, const std::vector<uint8_t>& hist, World& w) {
    Ctx c;
    for (int id : cs.prefix) { if (!cs.E->apply(w, cs.E->ops[id], c)) return false; }
    w.S.getSystemStageVersions(w.snapWin); w.snapWinSys = w.mS.sys; for (int i = 0; i < 11; ++i) w.mS.bumpedWin[i] = false;
    for (uint8_t id : hist) { if (!cs.E->apply(w, cs.E->ops[id], c)) return false; }
    return true;
}

std::string histStr(const Case& cs, const std::vector<uint8_t>& hist, int extra = -1) {
    std::string s;
    for (uint8_t id : hist) { if (!s.empty()) s += " "; s += cs.E->ops[id].name; }
    if (extra >= 0) { if (!s.empty()) s += " "; s += cs.E->ops[extra].name; }
    return s;
}
std::string replayText(verif::Run& run, const Case& cs, const std::vector<uint8_t>& hist, int extra) {
    return run.replayHeader() + "fixture=" + cs.E->F.name + "\nbase=" + cs.B->name + "\nseed=" + std::to_string(run.seed) + "\nops=" + histStr(cs, hist, extra) + "\n";
}

struct Tally { int64_t nodes = 0, checks = 0, pruned = 0, buildDiverged = 0; };

// Evaluate every enabled operation as the next operation after `hist` (each on a freshly replayed world, complete oracle).
// fn(opIdx, world, ok) is called for every evaluated node; ok = the history may be extended.
template <class Fn>
void forEachChild(verif::Run& run, const Case& cs, const std::vector<uint8_t>& hist, bool stepOnly, Tally& t, int onlyOp, Fn&& fn) {
    const Engine& E = *cs.E;
    std::vector<char> en(E.ops.size(), 0);
    { World w0; if (!build(cs, hist, w0)) { t.buildDiverged++; return; } for (size_t i = 0; i < E.ops.size(); ++i) en[i] = E.enabled(w0, E.ops[i]); }
    for (size_t i = 0; i < E.ops.size(); ++i) {
        if (!en[i] || (onlyOp >= 0 && (int)i != onlyOp)) continue;
        if (run.expired()) return;
        World w;
        if (!build(cs, hist, w)) { t.buildDiverged++; return; }
        const Op& op = E.ops[i];
        Ctx c; c.run = &run; c.check = true; c.stepWindowOnly = stepOnly; c.tag = std::string(stepOnly ? "bfs" : "plain") + "|" + E.F.name;
        c.where = [&] { return "fixture=" + E.F.name + " base=" + cs.B->name + " ops=[" + histStr(cs, hist, (int)i) + "]"; };
        c.replay = [&] { return replayText(run, cs, hist, (int)i); };
        bool ok = E.apply(w, op, c);
        t.nodes++; t.checks += c.nChecks;
        run.evaluationDistinct(true);
        run.outcome(E.outcomeHash(w));
        if (!ok) t.pruned++;
        fn((int)i, w, ok);
    }
}

// ---- plain enumeration: histories core^k x full, k < depth, no merging
void plainDfs(verif::Run& run, const Case& cs, std::vector<uint8_t>& hist, int depth, Tally& t, int onlyOp = -1) {
    std::vector<int> extend;
    forEachChild(run, cs, hist, false, t, onlyOp, [&](int i, World&, bool ok) { if (ok && cs.E->ops[i].core) extend.push_back(i); });
    if ((int)hist.size() + 1 >= depth) return;
    for (int i : extend) { hist.push_back((uint8_t)i); plainDfs(run, cs, hist, depth, t); hist.pop_back(); }
}

struct KeyHash { size_t operator()(const std::pair<uint64_t, uint64_t>& k) const { return (size_t)(k.first ^ (k.second * 0x9E3779B97F4A7C15ULL)); } };

// ---- BFS with canonical-state merging, full alphabet at every level
void bfs(verif::Run& run, const Case& cs, int maxDepth, int64_t maxStates, int plainDepth, Tally& t) {
    const Engine& E = *cs.E;
    std::unordered_set<std::pair<uint64_t, uint64_t>, KeyHash> seen;
    std::vector<std::vector<uint8_t>> frontier, next;
    { World w; std::vector<uint8_t> h; if (!build(cs, h, w)) return; auto k = E.canon(w); seen.insert(k); run.state(k.first); frontier.push_back(h); }
    int depth = 0; bool capped = false;
    int64_t replayChecks = 0;
    while (!frontier.empty() && depth < maxDepth) {
        next.clear();
        for (auto& h : frontier) {
            if (run.expired()) { capped = true; break; }
            forEachChild(run, cs, h, true, t, -1, [&](int i, World& w, bool ok) {
                if (!ok) return;
                auto k = E.canon(w);
                if (!seen.insert(k).second) return;
                run.state(k.first);
                std::vector<uint8_t> h2 = h; h2.push_back((uint8_t)i);
                if ((seen.size() & 63) == 0) {   // canon-on-replay: the same history built twice must give the same canonical key
                    World w2; bool b = build(cs, h2, w2); replayChecks++;
                    if (!b || E.canon(w2) != k) run.harnessError("canonical key of a replayed history differs: " + histStr(cs, h2));
                }
                next.push_back(std::move(h2));
            });
            if ((int64_t)seen.size() > maxStates) { capped = true; break; }
        }
        if (capped) break;
        frontier.swap(next); depth++;
    }
    bool fix = !capped && frontier.empty();
    run.count(fix ? "bfs:fixpoint-reached" : (capped ? "bfs:state-cap-or-deadline" : "bfs:depth-bound-reached"));
    if (capped && run.expired()) run.acc.expired = true;
    run.count("bfs:canonical-states-summed-over-items", (int64_t)seen.size());
    run.count("bfs:canon-on-replay-checks", replayChecks);
    run.count("bfs:levels-completed-summed", depth);
    if (!fix && depth < plainDepth) run.count("bfs-shallower-than-plain|" + E.F.name);
    run.count("bfs:unexpanded-frontier-states", capped ? (int64_t)frontier.size() + (int64_t)next.size() : (int64_t)frontier.size());
    if (cs.B->level == POS || cs.B->level == 0) run.sample("bfs fixture=" + E.F.name + " base=" + cs.B->name + " states=" + std::to_string(seen.size()) + " levels=" + std::to_string(depth) + (fix ? " fixpoint" : capped ? " state-cap" : " depth-bound"));
}

}  // namespace

// ------------------------------------------------------------------ main
int main(int argc, char** argv) {
    verif::Run run("C18", argc, argv);
    run.setDeadline(600, 3000);
    run.maxSamples = 40;
    const bool thorough = run.thorough();
    long seed = run.replaying() && !run.replayField("seed").empty() ? atol(run.replayField("seed").c_str()) : run.seed;
    VV = &VALSETS[((seed % NVALSETS) + NVALSETS) % NVALSETS];

    auto fixtures = makeFixtures();
    auto bases = makeBases();
    std::vector<Engine> engines; engines.reserve(fixtures.size());
    for (auto& f : fixtures) engines.emplace_back(f);

    run.rule = "E2 histories on a bare SimTK::State: case = (fixture, base prefix, operation sequence); every node of the history tree is replayed on "
               "fresh State objects S (primary) and T (copy target) in lockstep with a clock-based reference model and judged by the complete oracle "
               "(stages, values, isCacheValueRealized, getCacheEntry throws iff stale, value/stage versions, dependents lists, independence of T). "
               "plain = all sequences core^k x full (k < depth) without merging; bfs = breadth-first over the full alphabet with canonical-state merging. "
               "Only operations whose documented preconditions hold are applied. non-trivial = every evaluated node (a real operation on the real State)";
    run.assumptions = {"operations are applied only where State.h's documented preconditions hold (Release builds do not check them)",
                       "continuous values come from a 2-value alphabet per variable selected by VERIF_SEED (+ the initial value)",
                       "where the documentation leaves validity open (marks below the documented minimum stage, Instance-and-below entries in a copy, markCacheValueNotRealized at the computed-by stage, dependents of an auto-update variable at the swap) the implementation's answer is adopted and counted, not judged",
                       "fixtures are finite: 1-3 subsystems, <= 8 discrete variables, <= 7 cache entries",
                       "BFS merging trusts the canonical form (stages, values, per-entry <saved-version == current, up-to-date flag>, model relations); the plain mode does not"};

    // ---------------------------------------------------------------- replay: one history, linearly, verbose
    if (run.replaying()) {
        std::string fx = run.replayField("fixture"), bn = run.replayField("base"), opsS = run.replayField("ops");
        const Engine* E = nullptr; const Base* B = nullptr;
        for (auto& e : engines) if (e.F.name == fx) E = &e;
        for (auto& b : bases) if (b.name == bn) B = &b;
        if (!E || !B) { fprintf(stderr, "replay: unknown fixture/base\n"); return 2; }
        Case cs{E, B, computePrefix(*E, *B)};
        printf("fixture=%s base=%s seed=%ld values={%g,%g}\n", fx.c_str(), bn.c_str(), seed, VV->v[0], VV->v[1]);
        printf("fixture items:\n");
        for (size_t i = 0; i < E->F.items.size(); ++i) {
            const Item& it = E->F.items[i];
            printf("  item %zu: kind=%c sub=%d allocated-while-realizing=%s", i, it.kind, it.sub, SN[it.alloc]);
            if (it.kind == 'D') printf(" invalidates=%s", SN[it.a]);
            if (it.kind == 'A') printf(" invalidates=%s updateDependsOn=%s", SN[it.a], SN[it.b]);
            if (it.kind == 'C') { printf(" dependsOn=%s computedBy=%s prereq:%s%s%s", SN[it.a], SN[it.b], it.pq ? " q" : "", it.pu ? " u" : "", it.pz ? " z" : ""); for (int d : it.pd) printf(" dv-item%d", d); for (int c : it.pc) printf(" ce-item%d", c); }
            if (it.kind == 'Q' || it.kind == 'U' || it.kind == 'Z') printf(" n=%d", it.a);
            printf("\n");
        }
        std::vector<int> seq = cs.prefix; size_t nPre = seq.size();
        { std::istringstream is(opsS); std::string tok; while (is >> tok) { int id = E->opByName(tok); if (id < 0) { fprintf(stderr, "replay: unknown op %s\n", tok.c_str()); return 2; } seq.push_back(id); } }
        World w; int rc = 0;
        for (size_t k = 0; k < seq.size(); ++k) {
            if (k == nPre) { w.S.getSystemStageVersions(w.snapWin); w.snapWinSys = w.mS.sys; for (int i = 0; i < 11; ++i) w.mS.bumpedWin[i] = false; printf("---- end of base prefix\n"); }
            const Op& op = E->ops[seq[k]];
            if (!E->enabled(w, op)) { printf("step %zu %s: NOT ENABLED (precondition)\n", k, op.name.c_str()); return 2; }
            Ctx c; c.run = &run; c.check = true; c.where = [&] { return "step " + std::to_string(k) + " " + op.name; };
            bool ok = E->apply(w, op, c);
            printf("step %2zu %-22s -> S: sys=%s sub=[", k, op.name.c_str(), SN[(int)w.S.getSystemStage()]);
            for (int s = 0; s < w.S.getNumSubsystems(); ++s) printf("%s%s", s ? "," : "", SN[(int)w.S.getSubsystemStage(SubsystemIndex(s))]);
            printf("] valid={");
            for (int s = 0; s < w.mS.nsub; ++s) for (size_t i = 0; i < w.mS.sub[s].ce.size(); ++i) { Tri mv = E->MO.valid(w.mS, s, w.mS.sub[s].ce[i]); printf(" (%d,%zu)item%d:impl=%d/model=%s", s, i, w.mS.sub[s].ce[i].item, (int)w.S.isCacheValueRealized(SubsystemIndex(s), CacheEntryIndex((int)i)), mv == YES ? "valid" : mv == NO ? "stale" : "unspecified"); }
            printf(" } T: sys=%s nsub=%d\n", SN[(int)w.T.getSystemStage()], w.T.getNumSubsystems());
            if (!ok) { printf("  diverged at this step; stopping\n"); rc = 1; break; }
        }
        if (!run.acc.viols.empty()) rc = 1;
        for (auto& v : run.acc.viols) printf("  ORACLE key=%s %s\n", v.key.c_str(), v.what.c_str());
        if (rc) printf("VIOLATION property=C18 replay=%s\n", run.replayPath.c_str());
        return rc;
    }

    if (run.hasFlag("--bench")) {
        for (int fx : {0, 1, 2}) {
            const Engine& E = engines[fx]; const Base& B = bases[15];
            Case cs{&E, &B, computePrefix(E, B)};
            std::vector<uint8_t> h; h.push_back((uint8_t)E.opId(K_Q, 0)); h.push_back((uint8_t)E.opId(K_ADV, 0));
            auto t0 = std::chrono::steady_clock::now();
            int N = 20000;
            for (int i = 0; i < N; ++i) { World w; build(cs, h, w); }
            auto t1 = std::chrono::steady_clock::now();
            Tally t;
            for (int i = 0; i < N; ++i) { forEachChild(run, cs, h, false, t, E.opId(K_TIME, 0), [&](int, World&, bool) {}); }
            auto t2 = std::chrono::steady_clock::now();
            for (int i = 0; i < N; ++i) { World w; }
            auto t3 = std::chrono::steady_clock::now();
            printf("fixture %s prefix=%zu: build %.2f us, evalNode %.2f us (checks/node %.1f), empty world %.2f us\n", E.F.name.c_str(), cs.prefix.size(),
                   std::chrono::duration<double>(t1 - t0).count() / N * 1e6, std::chrono::duration<double>(t2 - t1).count() / N * 1e6, (double)t.checks / t.nodes, std::chrono::duration<double>(t3 - t2).count() / N * 1e6);
        }
        return 0;
    }
    // ---------------------------------------------------------------- tiers
    // plain: (fixture index, depth) ; bfs: (fixture index, max depth, state cap per (fixture, base))
    struct PlainCfg { int fx, depth; }; struct BfsCfg { int fx, depth; int64_t cap; };
    std::vector<PlainCfg> plainCfg; std::vector<BfsCfg> bfsCfg;
    int plainDefault = thorough ? 4 : 3;
    for (const std::string& a : run.extra) if (a.rfind("--plain-depth=", 0) == 0) plainDefault = atoi(a.c_str() + 14);
    int bfsDefault = thorough ? 6 : 3;
    for (const std::string& a : run.extra) if (a.rfind("--bfs-depth=", 0) == 0) bfsDefault = atoi(a.c_str() + 12);
    int64_t capDefault = thorough ? 12000 : 1200;
    for (const std::string& a : run.extra) if (a.rfind("--bfs-cap=", 0) == 0) capDefault = atoll(a.c_str() + 10);
    const int bfsTinyDepth = bfsDefault + (thorough ? 6 : 2);
    for (int i = 0; i < (int)engines.size(); ++i) {
        plainCfg.push_back({i, i == 0 ? plainDefault + 1 : plainDefault});
        if (thorough || i <= 2) bfsCfg.push_back({i, i == 0 ? bfsTinyDepth : bfsDefault, i == 0 ? capDefault * 4 : capDefault});
    }

    std::vector<Case> cases;
    for (auto& E : engines) for (auto& B : bases) cases.push_back(Case{&E, &B, computePrefix(E, B)});
    auto caseOf = [&](int fx, int b) -> const Case& { return cases[fx * bases.size() + b]; };

    for (const std::string& a : run.extra) if (a.rfind("--bfs-item=", 0) == 0) {     // development: one BFS item in-process
        int idx = atoi(a.c_str() + 11); int fx = idx / (int)bases.size(), b = idx % (int)bases.size();
        Tally t; int d = bfsDefault, pd = plainDefault; int64_t cap = capDefault;
        for (auto& bc : bfsCfg) if (bc.fx == fx) { d = bc.depth; cap = bc.cap; }
        fprintf(stderr, "bfs item %d: fixture=%s base=%s depth=%d cap=%lld\n", idx, engines[fx].F.name.c_str(), bases[b].name.c_str(), d, (long long)cap);
        bfs(run, caseOf(fx, b), d, cap, pd, t);
        run.exhaustive = false;
        return run.finish();
    }
    // ---- section 1: plain enumeration, sharded over (fixture, base, first operation)
    struct PItem { int fx, b, op, depth; };
    std::vector<PItem> pitems;
    for (auto& pc : plainCfg) for (int b = 0; b < (int)bases.size(); ++b) for (int o = 0; o < (int)engines[pc.fx].ops.size(); ++o) pitems.push_back({pc.fx, b, o, pc.depth});
    run.parallel("plain", (int64_t)pitems.size(), [&](int64_t idx) {
        const PItem& p = pitems[idx]; const Case& cs = caseOf(p.fx, p.b); const Engine& E = *cs.E;
        Tally t; std::vector<uint8_t> hist;
        plainDfs(run, cs, hist, 1, t, p.op);                       // the first operation of this shard
        if (t.nodes == 1 && t.pruned == 0 && E.ops[p.op].core && p.depth > 1) { hist.push_back((uint8_t)p.op); plainDfs(run, cs, hist, p.depth, t); }
        run.transition(t.checks);
        run.count("plain:nodes", t.nodes); run.count("plain:pruned-after-violation", t.pruned); run.count("plain:prefix-diverged", t.buildDiverged);
        run.count("plain:nodes:" + E.F.name, t.nodes);
        if (t.nodes > 1 && idx % 211 == 0) run.sample("plain fixture=" + E.F.name + " base=" + cs.B->name + " first-op=" + E.ops[p.op].name + " depth=" + std::to_string(p.depth) + " -> nodes=" + std::to_string(t.nodes) + " checks=" + std::to_string(t.checks));
    });
    // ---- section 2: BFS with merging, sharded over (fixture, base)
    struct BItem { int fx, b, depth; int64_t cap; int plainDepth; };
    std::vector<BItem> bitems;
    for (auto& bc : bfsCfg) for (int b = 0; b < (int)bases.size(); ++b) bitems.push_back({bc.fx, b, bc.depth, bc.cap, plainCfg[bc.fx].depth});
    run.parallel("bfs", (int64_t)bitems.size(), [&](int64_t idx) {
        const BItem& p = bitems[idx]; const Case& cs = caseOf(p.fx, p.b);
        Tally t;
        bfs(run, cs, p.depth, p.cap, p.plainDepth, t);
        run.transition(t.checks);
        run.count("bfs:nodes", t.nodes); run.count("bfs:pruned-after-violation", t.pruned);
        run.count("bfs:nodes:" + cs.E->F.name, t.nodes);
    });
    // The two modes must agree: a violation key seen by the plain enumeration in a fixture must also be seen by the BFS with
    // merging in that fixture, provided the BFS covered that fixture at least to the plain depth from every base.
    {
        std::set<int> inBfs; for (auto& bc : bfsCfg) inBfs.insert(bc.fx);
        int compared = 0;
        for (auto& kv : run.acc.counters) {
            if (kv.first.rfind("viol|plain|", 0) != 0 || kv.first.find("lowest-difference-window") != std::string::npos) continue;   // the window oracle exists only in the plain mode
            std::string rest = kv.first.substr(11); size_t bar = rest.find('|');
            std::string fxn = rest.substr(0, bar), key = rest.substr(bar + 1);
            int fx = -1; for (size_t i = 0; i < engines.size(); ++i) if (engines[i].F.name == fxn) fx = (int)i;
            if (fx < 0 || !inBfs.count(fx) || run.acc.expired || run.acc.counters.count("bfs-shallower-than-plain|" + fxn)) continue;
            compared++;
            if (!run.acc.counters.count("viol|bfs|" + fxn + "|" + key))
                run.harnessError("violation key " + key + " (fixture " + fxn + ") was found by the plain enumeration but not by the BFS with merging: the canonical abstraction is unsound");
        }
        run.count("modes:violation-keys-cross-checked", compared);
    }
    run.extraCoverage["plain_depth"] = "\"" + std::to_string(plainDefault) + " (fixture tiny: " + std::to_string(plainDefault + 1) + ")\"";
    run.extraCoverage["bfs_depth"] = "\"" + std::to_string(bfsDefault) + " (fixture tiny: " + std::to_string(bfsTinyDepth) + "); state cap per (fixture, base) " + std::to_string(capDefault) + " (tiny: " + std::to_string(capDefault * 4) + "); fixtures in BFS: " + std::to_string(bfsCfg.size()) + "\"";
    run.extraCoverage["fixtures"] = std::to_string(fixtures.size());
    run.extraCoverage["bases"] = std::to_string(bases.size());
    { std::string a = "{"; for (size_t i = 0; i < engines.size(); ++i) { int core = 0; for (auto& o : engines[i].ops) core += o.core; a += (i ? ", \"" : "\"") + engines[i].F.name + "\": \"" + std::to_string(engines[i].ops.size()) + " ops (" + std::to_string(core) + " core)\""; } run.extraCoverage["alphabet"] = a + "}"; }
    return run.finish();
}
