// C01 -- Mass-matrix operators agree and M is symmetric positive definite.
// Engine E3: every model of levels A and B (thorough: + C) of the shared multibody alphabet
// x MASS x STATE; the four library routes (calcM, calcMInv, multiplyByM, multiplyByMInv) and
// calcKineticEnergy are compared with the independent dense reference M_ref = sum J^T S J.
#include "Simbody.h"
#include "SimbodyMatterSubsystemRep.h"
#include "RigidBodyNode.h"
#include "verif.h"
#include "models.h"
#include "mbref.h"

#include <cxxabi.h>

using namespace SimTK;
using ref::LD; using ref::DMat;

static std::string vdemangle(const char* n) { int st = 0; char* d = abi::__cxa_demangle(n, 0, 0, &st); std::string s = d ? d : n; free(d); return s; }
std::string mb::nodeTypeName(const mb::Model& M, int bi) {
    const RigidBodyNode& n = M.matter.getRep().getRigidBodyNode(M.bodies[bi].getMobilizedBodyIndex());
    return vdemangle(typeid(n).name());
}

static const double TOL = 1e-11;   // calibration: worst relative residual on the unchanged tree ~1e-15 (see evidence oracles.*.worst)

static void checkModel(verif::Run& run, const std::string& section, const std::vector<mb::BodySpec>& specs, bool euler,
                       int stateKind, int valueSet, const std::string& desc) {
    auto Mp = mb::build(specs, euler);
    mb::Model& M = *Mp;
    State s = mb::makeState(M, stateKind, valueSet);
    M.system.realize(s, Stage::Velocity);
    const int nu = s.getNU();
    auto where = [&] { return desc; };
    uint64_t h = verif::hashStr(desc);
    run.evaluation(h, nu >= 1);
    for (int b = 0; b < (int)specs.size(); ++b) { std::string nt = mb::nodeTypeName(M, b); run.outcome(verif::hashStr(nt)); run.count("node:" + nt); }   // vacuity guard: node instantiations reached
    if (nu == 0) { run.count("nu=0"); return; }

    DMat J = mbref::jacobianRef(M, s);
    DMat Mref = mbref::massMatrixRef(M, s, J);
    const LD scale = std::max<LD>(ref::maxAbs(Mref), 1e-300L);

    DMat L;
    run.expect(ref::cholesky(Mref, L), "Mref-not-SPD", [&] { return "reference mass matrix not positive definite (harness/alphabet problem or singular configuration) at " + desc; });

    // route 1: calcM
    Matrix Mm; M.matter.calcM(s, Mm);
    DMat M1 = mbref::fromMatrix(Mm);
    run.residual("calcM-vs-Mref", (double)(ref::maxAbsDiff(M1, Mref) / scale), TOL, where);
    run.residual("calcM-symmetry", (double)(ref::maxAbsDiff(M1, ref::transpose(M1)) / scale), TOL, where);
    DMat L1;
    run.expect(ref::cholesky(M1, L1), "calcM-not-positive-definite", [&] { return "Cholesky of calcM result fails at " + desc; });

    // route 2: multiplyByM on every basis vector and one generic vector
    DMat M2(nu, nu);
    Vector e(nu), out(nu);
    for (int i = 0; i < nu; ++i) { e = 0; e[i] = 1; M.matter.multiplyByM(s, e, out); for (int r = 0; r < nu; ++r) M2(r, i) = out[r]; }
    run.residual("multiplyByM-vs-Mref", (double)(ref::maxAbsDiff(M2, Mref) / scale), TOL, where);
    Vector g(nu); for (int i = 0; i < nu; ++i) g[i] = mb::uv(valueSet + 1, i);
    M.matter.multiplyByM(s, g, out);
    { DMat gr = ref::mul(Mref, mbref::fromVector(g)); run.residual("multiplyByM-generic", (double)(ref::maxAbsDiff(mbref::fromVector(out), gr) / std::max<LD>(ref::maxAbs(gr), scale)), TOL, where); }

    // the same generic product with non-contiguous argument layouts (rows of a matrix): in/out, in only, out only
    {
        Matrix A(3, nu); A = 0; for (int i = 0; i < nu; ++i) A(1, i) = g[i];
        Matrix Bm(3, nu); Bm.setTo(-7);
        DMat gr = ref::mul(Mref, mbref::fromVector(g));
        M.matter.multiplyByM(s, ~A[1], ~Bm[1]);
        { Vector o2(nu); for (int i = 0; i < nu; ++i) o2[i] = Bm(1, i); run.residual("multiplyByM-strided-in-and-out", (double)(ref::maxAbsDiff(mbref::fromVector(o2), gr) / std::max<LD>(ref::maxAbs(gr), scale)), TOL, where); }
        bool untouched = true; for (int i = 0; i < nu; ++i) untouched &= Bm(0, i) == -7 && Bm(2, i) == -7;
        run.expect(untouched, "multiplyByM-strided-output-overwrites-neighbours", [&] { return "rows next to the strided result row were modified at " + desc; });
        Vector o3(nu); M.matter.multiplyByM(s, ~A[1], o3);
        run.residual("multiplyByM-strided-in", (double)(ref::maxAbsDiff(mbref::fromVector(o3), gr) / std::max<LD>(ref::maxAbs(gr), scale)), TOL, where);
    }
    // reference inverse and condition estimate
    DMat MrefInv; bool inv = ref::inverse(Mref, MrefInv);
    if (!inv) { run.count("skipped:Mref-singular"); return; }
    const LD cond = ref::normInf(Mref) * ref::normInf(MrefInv);
    const LD invScale = std::max<LD>(ref::maxAbs(MrefInv), 1e-300L);

    // route 3: calcMInv
    Matrix MI; M.matter.calcMInv(s, MI);
    DMat I3 = mbref::fromMatrix(MI);
    run.residual("calcMInv-vs-MrefInv", (double)(ref::maxAbsDiff(I3, MrefInv) / invScale / cond), TOL, where);
    run.residual("M*MInv-identity", (double)(ref::maxAbsDiff(ref::mul(M1, I3), DMat::identity(nu)) / cond), TOL, where);
    run.residual("calcMInv-symmetry", (double)(ref::maxAbsDiff(I3, ref::transpose(I3)) / invScale / cond), TOL, where);

    // route 4: multiplyByMInv on every basis vector and the generic vector
    DMat I4(nu, nu);
    for (int i = 0; i < nu; ++i) { e = 0; e[i] = 1; M.matter.multiplyByMInv(s, e, out); for (int r = 0; r < nu; ++r) I4(r, i) = out[r]; }
    run.residual("multiplyByMInv-vs-MrefInv", (double)(ref::maxAbsDiff(I4, MrefInv) / invScale / cond), TOL, where);
    M.matter.multiplyByMInv(s, g, out);
    { DMat gr = ref::mul(MrefInv, mbref::fromVector(g)); run.residual("multiplyByMInv-generic", (double)(ref::maxAbsDiff(mbref::fromVector(out), gr) / std::max<LD>(ref::maxAbs(gr), invScale) / cond), TOL, where); }

    {
        Matrix A(3, nu); A = 0; for (int i = 0; i < nu; ++i) A(1, i) = g[i];
        Matrix Bm(3, nu); Bm.setTo(-7);
        DMat gr = ref::mul(MrefInv, mbref::fromVector(g));
        M.matter.multiplyByMInv(s, g, ~Bm[1]);
        { Vector o2(nu); for (int i = 0; i < nu; ++i) o2[i] = Bm(1, i); run.residual("multiplyByMInv-strided-out", (double)(ref::maxAbsDiff(mbref::fromVector(o2), gr) / std::max<LD>(ref::maxAbs(gr), invScale) / cond), TOL, where); }
        bool untouched = true; for (int i = 0; i < nu; ++i) untouched &= Bm(0, i) == -7 && Bm(2, i) == -7;
        run.expect(untouched, "multiplyByMInv-strided-output-overwrites-neighbours", [&] { return "rows next to the strided result row were modified at " + desc; });
        Vector o3(nu); M.matter.multiplyByMInv(s, ~A[1], o3);
        run.residual("multiplyByMInv-strided-in", (double)(ref::maxAbsDiff(mbref::fromVector(o3), gr) / std::max<LD>(ref::maxAbs(gr), invScale) / cond), TOL, where);
    }
    // kinetic energy
    DMat u = mbref::fromVector(s.getU());
    LD keRef = 0.5L * ref::mul(ref::transpose(u), ref::mul(Mref, u))(0, 0);
    double ke = M.matter.calcKineticEnergy(s);
    run.residual("KE-vs-half-uMu", (double)(fabsl(ke - keRef) / std::max<LD>(fabsl(keRef), scale * 1e-3L)), TOL, where);
    if (keRef != 0) run.count("nonzero-KE-cases");
    run.outcome(verif::hashPod(nu) ^ verif::hashPod((float)cond));
    if (run.verbose) {
        printf("%s\n nu=%d cond=%Lg |Mref|=%Lg KE=%.17g KEref=%.17Lg\n", desc.c_str(), nu, cond, scale, ke, keRef);
        for (int b = 0; b < (int)specs.size(); ++b) printf("  body %d node %s\n", b, mb::nodeTypeName(M, b).c_str());
    }
}

int main(int argc, char** argv) {
    verif::Run run("C01", argc, argv);
    run.setDeadline(400, 2400);    // caps only (shared machine; the alphabet grew by 1.3x)
    const bool th = run.thorough();
    run.rule = "E3: KIND = 19 built-in mobilizers, 5 Custom/FunctionBased mirrors with a constant hinge matrix, FunctionBased with nonlinear coordinate functions and 1..6 mobilities (FBN1..6), Custom helix slider with H(q) from X_FM and HDot from V_FM -- 58 KINDxDIR variants (engine/models.h); models = section S (every variant alone on Ground x all 8 frame pairs incl. the four one-part-only pairs), level G (the variant and a companion both on Ground, either creation order, + a child: reaches the lone-particle fast path behind mobilizers with nq != nu), level A (every KINDxDIRxFRAMES variant as base/middle/tip/fork-branch of a 3-body tree with companions {Pin,Ball,Free}^2) and level B (all ordered parent->child pairs of constant-H variants x FRAMES{II,GG}^2; every q-dependent-H variant in both orders with the 8 code families x DIR and among themselves), thorough adds level C (all triples over 8 code families, chain+fork, DIR^3); x COORD{quaternion,Euler} x MASS(3) x STATE(4: zero, generic, large-angle, zero-velocity); value set = seed%3 (thorough: all 3). distinct = distinct (model,coord,mass,state,valueset); non-trivial = nu>=1";
    run.assumptions = {"continuous values only from the fixed tables in engine/models.h", "trees of at most 3 mobilized bodies", "position/velocity kinematics (used to build J_ref) are themselves checked by C03/C05", "relative tolerance 1e-11 scaled by cond(M) for inverse routes"};
    std::vector<int> valueSets = th ? std::vector<int>{0, 1, 2} : std::vector<int>{(int)(((run.seed % 3) + 3) % 3)};
    mb::LevelA A; mb::LevelB B; mb::LevelC C; mb::LevelG G; mb::LevelS S;
    auto section = [&](const std::string& name, int64_t nModels, std::function<std::vector<mb::BodySpec>(int64_t, int)> specsOf) {
        verif::Odometer od;
        od.dim("state", 4); od.dim("mass", 3); od.dim("coord", 2); od.dim("valueset", (int64_t)valueSets.size()); od.dim("model", nModels);
        run.parallel(name, od.size(), [&](int64_t idx) {
            auto d = od.digits(idx);
            auto specs = specsOf(d[4], d[1]);
            bool euler = d[2] == 1;
            std::string desc = name + " " + od.describe(idx) + " ";
            { std::string m = euler ? "euler[" : "quat["; for (auto& b : specs) m += b.str() + " "; desc += m + "] vs=" + std::to_string(valueSets[d[3]]); }
            try { checkModel(run, name, specs, euler, d[0], valueSets[d[3]], desc); }
            catch (const std::exception& e) { run.violation("exception/" + name, std::string("exception: ") + e.what() + " at " + desc, run.replayHeader()); }
            if (idx % 20011 == 0) run.sample(desc);
        });
    };
    section("S", S.size(), [&](int64_t i, int m) { return S.specs(i, m); });     // every variant alone on Ground x all 8 frame pairs
    section("A", A.size(), [&](int64_t i, int m) { return A.specs(i, m); });
    section("G", G.size(), [&](int64_t i, int m) { return G.specs(i, m); });
    section("B", B.size(), [&](int64_t i, int m) { return B.specs(i, m); });
    if (th) section("C", C.size(), [&](int64_t i, int m) { return C.specs(i, m); });
    run.extraCoverage["distinct_node_instantiations_note"] = "\"distinct_outcomes counts distinct RigidBodyNode typeid names plus distinct (nu,cond) signatures\"";
    return run.finish();
}
