// C12 -- Force elements' power matches their potential energy.
// Engine E3: every element of the shared force alphabet (engine/forcemodels.h) x parameter set x attachment x host
// tree x STATE.  P = sum_b F_b . V_b + f . u from Force::calcForceContribution (harness long-double arithmetic);
// dPE/dt by 4th-order central differences of Force::calcPotentialEnergyContribution along q(t) = q + t*qdot,
// qdot = N u, validated by the Richardson pair (h, h/2).
//   conservative elements (no damping parameter, or all zero):      P + dPE/dt  = 0
//   dissipative elements:                                           P + dPE/dt <= 0   (they only remove energy)
//   documented non-potential elements ("sources"): reported PE == 0 exactly; where a work function W(q) follows
//       from the documentation (constant force at a station: W = F.p ; constant force along a line: W = f*dist)
//       P - dW/dt = 0
//   gradient clause (conservative always, dissipative at u = 0): for every mobility i the generalized force
//       Q_i = sum_b J_b,i^T F_b + f_i (J from velocity kinematics at u = e_i) equals -d/dt PE along qdot = N e_i.
#include "Simbody.h"
#include "verif.h"
#include "models.h"
#include "forcemodels.h"
#include "refkit.h"

using namespace SimTK;
using ref::LD;

static const double TOL = 1e-7;        // relative to (power terms + |PE| + parameter floor); worst on the unchanged tree 2.9e-10 (notes/C12.md)
static const double FD_AGREE = 1e-7;   // Richardson pair must agree to this (same normalisation) or the case is skipped and counted
static const LD H = 2e-3L;

struct Unit { int host, elem, pset, attach; };

// harness-side work function of the documented non-potential constant forces (0 if none follows from the docs)
static bool hasWorkFunction(int elem) { return elem == fm::EConstantForce || elem == fm::ETwoPointConstantForce; }
static LD workFunction(const mb::Model& M, const fm::Instance& I, const State& st) {
    const fm::Attach& a = I.at;
    if (I.elem == fm::EConstantForce) {           // "a constant force applied to a body station; the force is a vector fixed in Ground"
        const Vec3 p = fm::bodyOf(M, a.b1).findStationLocationInGround(st, a.s1);
        return (LD)I.p.vec[0] * p[0] + (LD)I.p.vec[1] * p[1] + (LD)I.p.vec[2] * p[2];
    }
    if (I.elem == fm::ETwoPointConstantForce) {   // "acts along the line between two points; a positive force acts to separate the points; independent of the separation"
        const Vec3 r = fm::bodyOf(M, a.b2).findStationLocationInGround(st, a.s2) - fm::bodyOf(M, a.b1).findStationLocationInGround(st, a.s1);
        return (LD)I.p.f * sqrtl((LD)r[0] * r[0] + (LD)r[1] * r[1] + (LD)r[2] * r[2]);
    }
    return 0;
}

struct PathFD { LD d = 0, disagree = 0, absMax = 0; };
// d/dt [PE_reported - W](q0 + t*qdot) at t = 0
static PathFD pathDerivative(const mb::Model& M, const fm::Instance& I, State& st, const Vector& q0, const Vector& qdot) {
    PathFD R;
    auto phi = [&](LD t) {
        st.updQ() = q0 + (Real)t * qdot;
        M.system.realize(st, Stage::Position);
        const LD pe = I.force.calcPotentialEnergyContribution(st);
        const LD w = workFunction(M, I, st);
        R.absMax = std::max(R.absMax, std::max(fabsl(pe), fabsl(w)));
        return std::vector<LD>{pe - w};
    };
    LD dis = 0;
    auto e = ref::fd4(phi, 0, H, &dis);
    R.d = e[0]; R.disagree = dis;
    return R;
}

static void oneCase(verif::Run& run, const Unit& u, int stateKind, int valueSet, const std::string& desc) {
    auto C = fm::buildCase(u.host, u.elem, u.pset, u.attach, stateKind, valueSet);
    mb::Model& M = *C->M; fm::Instance& I = C->I; State& s = C->s;
    M.system.realize(s, Stage::Velocity);
    auto where = [&] { return desc; };
    const fm::Attach& a = I.at;
    const std::string en = fm::elemName(u.elem);
    const int eclass = fm::energyClass(I);
    const int nu = s.getNU();

    // documented preconditions
    if (u.elem == fm::ELinearBushing) {
        const Vec6 q = Force::LinearBushing::downcast(I.force).getQ(s);
        if (std::abs(std::cos(q[1])) < 0.2) { run.count("skipped:bushing-near-documented-singularity"); run.evaluation(verif::hashStr(desc), false); return; }
    } else if (fm::elemClass(u.elem) == fm::CTwoBody && u.elem != fm::ECustomTorquePair) {
        const Real dist = (fm::bodyOf(M, a.b2).findStationLocationInGround(s, a.s2) - fm::bodyOf(M, a.b1).findStationLocationInGround(s, a.s1)).norm();
        if (dist < 1e-3) { run.count("skipped:coincident-stations(documented-error)"); run.evaluation(verif::hashStr(desc), false); return; }
    }

    Vector_<SpatialVec> F; Vector_<Vec3> pF; Vector f;
    I.force.calcForceContribution(s, F, pF, f);
    // power delivered to the system, and the magnitude of its terms
    auto powerOf = [&](const State& vs, LD& P, LD& S) {
        P = 0; S = 0;
        for (MobilizedBodyIndex b(0); b < M.matter.getNumBodies(); ++b) {
            const SpatialVec& V = M.matter.getMobilizedBody(b).getBodyVelocity(vs);
            for (int k = 0; k < 2; ++k) for (int i = 0; i < 3; ++i) { const LD t = (LD)F[b][k][i] * (LD)V[k][i]; P += t; S += fabsl(t); }
        }
        for (int i = 0; i < nu; ++i) { const LD t = (LD)f[i] * (LD)vs.getU()[i]; P += t; S += fabsl(t); }
    };
    LD P = 0, S = 0; powerOf(s, P, S);
    // floor for the normalisation: (size of the element's parameters) x (speeds in the system).  Without it the
    // same-body cases, whose power is pure round-off (1e-17), would be compared with themselves.
    LD paramMag = fabsl((LD)I.p.k) + fabsl((LD)I.p.c) + fabsl((LD)I.p.f) + (LD)I.p.vec.norm() + (LD)I.p.g;
    for (int i = 0; i < 6; ++i) paramMag += (LD)I.p.K6[i] + (LD)I.p.C6[i];
    auto speedOf = [&](const State& vs) { LD v = 0; for (MobilizedBodyIndex b(0); b < M.matter.getNumBodies(); ++b) { const SpatialVec& V = M.matter.getMobilizedBody(b).getBodyVelocity(vs); v = std::max(v, (LD)V[0].norm() + (LD)V[1].norm()); } return v; };
    const LD Vmax = speedOf(s);
    const LD floorN = paramMag * Vmax * (1 + Vmax);

    const LD peHere = I.force.calcPotentialEnergyContribution(s);
    if (eclass == fm::Source) {
        run.expect(peHere == 0, "source-element-reports-nonzero-PE/" + en, [&] { return "documented as not contributing potential energy but reports " + verif::fmtd((double)peHere) + " at " + desc; });
        if (u.elem == fm::EThermostat) {      // documented: all power is external, -c0 * 2KE ; accessor vs f.u
            const LD pw = Force::Thermostat::downcast(I.force).getExternalPower(s);
            if (S > 0) run.residual("thermostat-power-vs-getExternalPower", (double)(fabsl(P - pw) / S), 1e-12, where);
        }
        if (!hasWorkFunction(u.elem)) { run.count(std::string("no-energy-clause(source-without-work-function)/") + en); run.evaluation(verif::hashStr(desc), false); return; }
    }

    State st = s;                     // work state for the path
    const Vector q0 = s.getQ();
    const Vector qdot = s.getQDot();
    bool nontrivial = false;

    // ---- power clause
    {
        PathFD d = pathDerivative(M, I, st, q0, qdot);
        const LD N = S + fabsl(d.d) + d.absMax + floorN;
        if (N > 0) {
            if (d.disagree > FD_AGREE * N) run.count("skipped:richardson-pair-disagrees(power)/" + en);
            else {
                const LD D = P + d.d;     // = -(dissipated power)
                if (S > 0 || d.d != 0) nontrivial = true;
                if (eclass == fm::Dissipative) {
                    run.residual("dissipative-adds-energy/" + en, (double)(D / N), TOL, where);           // D <= tol  (one-sided)
                    if (D < -(LD)TOL * N) run.count("dissipative-cases-removing-energy/" + en);
                    if (u.elem == fm::ELinearBushing && S > 0) {
                        const LD pd = Force::LinearBushing::downcast(I.force).getPowerDissipation(s);
                        run.residual("bushing-dissipation-accessor-vs-power-balance", (double)(fabsl(-D - pd) / N), TOL, where);
                        run.expect(pd >= 0, "bushing-negative-power-dissipation", [&] { return "getPowerDissipation < 0 at " + desc; });
                    }
                } else {
                    run.residual(std::string(eclass == fm::Source ? "power-vs-dWdt/" : "power-plus-dPEdt/") + en, (double)(fabsl(D) / N), TOL, where);
                }
                if (run.verbose) printf("%s\n  class=%s P=%.15Lg d(PE-W)/dt=%.15Lg sum=%.3Lg norm=%.6Lg richardson-disagreement=%.3Lg PE=%.15Lg\n", desc.c_str(), fm::energyClassName(eclass), P, d.d, D, N, d.disagree, peHere);
            }
        } else run.count("trivial:no-power-no-energy/" + en);
    }

    // ---- gradient clause: generalized force = -dPE/dq mapped through N, one mobility at a time
    const bool uIsZero = s.getU().norm() == 0;
    if (eclass != fm::Dissipative || uIsZero) {
        State su = s;
        for (int i = 0; i < nu; ++i) {
            su.updU() = 0; su.updU()[i] = 1;
            M.system.realize(su, Stage::Velocity);
            LD Q = 0, SQ = 0; powerOf(su, Q, SQ);          // Q_i = J_i^T F + f_i  (F, f from the original state)
            const Vector qdi = su.getQDot();
            PathFD d = pathDerivative(M, I, st, q0, qdi);
            const LD Vi = speedOf(su);
            const LD N = SQ + fabsl(d.d) + d.absMax + paramMag * Vi * (1 + Vi);
            if (!(N > 0)) continue;
            if (d.disagree > FD_AGREE * N) { run.count("skipped:richardson-pair-disagrees(gradient)/" + en); continue; }
            if (SQ > 0 || d.d != 0) nontrivial = true;
            run.residual(std::string(eclass == fm::Source ? "genforce-vs-work-gradient/" : "genforce-vs-minus-PE-gradient/") + en, (double)(fabsl(Q + d.d) / N), TOL,
                         [&] { return desc + " mobility=" + std::to_string(i); });
            if (run.verbose) printf("  mobility %d: Q=%.15Lg  d(PE-W)/dt along N e_i = %.15Lg  sum=%.3Lg\n", i, Q, d.d, Q + d.d);
        }
    } else run.count("gradient-clause-not-applicable(damping-active)/" + en);

    run.evaluation(verif::hashStr(desc), nontrivial);
    run.count(std::string("class:") + fm::energyClassName(eclass));
    if (nontrivial) run.count("nontrivial/" + en);
    run.outcome(verif::hashMix(verif::hashPod((float)P), verif::hashPod((float)peHere)));
}

// @@NEWSECTIONS@@

int main(int argc, char** argv) {
    verif::Run run("C12", argc, argv);
    run.setDeadline(300, 2400);
    const bool th = run.thorough();
    run.rule = "E3: case = (host tree of 3 bodies (3 trees; thorough 5), force element, parameter set, attachment, state kind, value set); every tuple of the force alphabet is built and evaluated. distinct = distinct tuple; non-trivial = some power term, energy derivative or generalized-force component is non-zero";
    run.assumptions = {"continuous values only from the fixed tables of engine/models.h and engine/forcemodels.h", "body velocities and qdot = N u are the library's velocity kinematics (checked by C03/C04)", "finite differences: 4th-order central, h = 2e-3 and 1e-3 must agree to 1e-7 (normalised) or the case is skipped and counted", "contact elements and CableSpring are covered by C37 / C45, not here", "quaternion hosts: the straight-line path q + t*qdot leaves the unit sphere at second order; the library normalises quaternions, first derivatives are unaffected"};
    for (int h = 0; h < fm::NHOST_ALL; ++h) { std::string why; if (!fm::checkHostTables(h, &why)) { run.harnessError(why); return run.finish(); } }
    std::vector<int> valueSets = th ? std::vector<int>{0, 1, 2} : std::vector<int>{(int)(((run.seed % 3) + 3) % 3)};
    std::vector<Unit> units;
    for (int h = 0; h < (th ? fm::NHOST_ALL : fm::NHOST); ++h) for (int e = 0; e < fm::NELEM; ++e) for (int p = 0; p < fm::numParamSets(e); ++p) for (int a = 0; a < fm::numAttachments(h, e); ++a) units.push_back({h, e, p, a});
    verif::Odometer od; od.dim("state", 4); od.dim("valueset", (int64_t)valueSets.size()); od.dim("unit", (int64_t)units.size());
    run.parallel("alphabet", od.size(), [&](int64_t idx) {
        auto d = od.digits(idx); const Unit& u = units[d[2]];
        std::string desc = "item=" + std::to_string(idx) + " host=" + fm::hostName(u.host) + " " + fm::elemName(u.elem) + "/p" + std::to_string(u.pset) + "/" + fm::attachments(u.host, u.elem)[u.attach].str + " state=" + std::to_string(d[0]) + " vs=" + std::to_string(valueSets[d[1]]);
        try { oneCase(run, u, d[0], valueSets[d[1]], desc); }
        catch (const std::exception& e) { run.violation(std::string("exception/") + fm::elemName(u.elem), std::string("exception: ") + e.what() + " at " + desc, run.replayHeader()); }
        if (idx % 1543 == 0) run.sample(desc);
    });
    return run.finish();
}
