// C11 -- Simulations conserve energy and momentum when physics says so.
// Engine E3 (enum) over a configuration matrix: model family (<= 3 bodies from the 8 code families of mb::LevelC,
// grounded or free-floating base) x force set x workless constraint x integrator x accuracy.  Every cell is a real
// simulation of T seconds with the library's integrators; the oracle is a calibrated, tolerance-based global
// consequence (see notes/C11.md for the calibration numbers and for what this check can and cannot see):
//   conservative sets : |E(t)-E0| <= K(integrator) * accuracy * Escale at every report time
//   ladder            : the error at accuracy a/100 is at most max(error at a / 10, floor)
//   free-floating     : linear / angular momentum about the Ground origin constant (internal forces only);
//                       with uniform gravity p(t) - M g t and the central angular momentum constant
//   dissipative sets  : E never increases by more than the bound between report times; with a damped LinearBushing
//                       E + getDissipatedEnergy is conserved to the bound
#include "Simbody.h"
#include "verif.h"
#include "models.h"

#include <memory>

using namespace SimTK;

std::string mb::nodeTypeName(const mb::Model&, int) { return ""; }

// ---------------------------------------------------------------- configuration matrix
enum ForceSet { F_GRAV, F_GRAV_SPRINGS, F_SPRINGS_BUSHING, F_DAMPERS, F_BUSHING_DAMPED, NFORCESET };
static const char* forceSetName(int f) { static const char* n[] = {"gravity", "gravity+springs", "springs+bushing(undamped)", "gravity+springs+dampers", "springs+bushing(damped)"}; return n[f]; }
static bool conservative(int f) { return f <= F_SPRINGS_BUSHING; }
enum Cons { C_NONE, C_ROD, C_BALL, NCONS };
static const char* consName(int c) { static const char* n[] = {"none", "Rod", "Ball"}; return n[c]; }
enum Integ { I_RK3, I_RKF, I_RKM, I_VERLET, I_CPODES, I_EULER, NINTEG };
static const char* integName(int i) { static const char* n[] = {"RungeKutta3", "RungeKuttaFeldberg", "RungeKuttaMerson", "Verlet", "CPodes", "ExplicitEuler(h=1e-5)"}; return n[i]; }
static const double ACC[3] = {1e-3, 1e-5, 1e-7};

struct ModelSpec { std::vector<mb::BodySpec> specs; bool freeFloating = false; std::string name; };
static const int FAM[8] = {mb::KPin, mb::KSlider, mb::KBall, mb::KFree, mb::KUniversal, mb::KPlanar, mb::KEllipsoid, mb::KWeld};

static mb::BodySpec bs(int kind, int dir, int frames, int mass, int parent) { mb::BodySpec b; b.kind = kind; b.dir = dir && mb::kindReversible(kind); b.frames = frames; b.mass = mass; b.parent = parent; return b; }
static std::string specName(const std::vector<mb::BodySpec>& s) { std::string n; for (auto& b : s) n += (n.empty() ? "" : " ") + b.str(); return n; }

static std::vector<ModelSpec> modelList(bool thorough, int massSel) {
    std::vector<ModelSpec> L;
    auto add = [&](std::vector<mb::BodySpec> sp, bool ff) { ModelSpec m; m.specs = sp; m.freeFloating = ff; m.name = std::string(ff ? "free-floating[" : "grounded[") + specName(sp) + "]"; L.push_back(m); };
    const int m0 = massSel, m1 = (massSel + 1) % 3, m2 = (massSel + 2) % 3;
    if (!thorough) {
        for (int k = 0; k < 8; ++k) {
            const int K = FAM[k];
            add({bs(K, k & 1, 3, m0, -1), bs(mb::KPin, 0, 1, m1, 0), bs(mb::KBall, 1, 2, m2, 1)}, false);       // family as base
            add({bs(mb::KPin, 1, 3, m0, -1), bs(K, !(k & 1), 1, m1, 0), bs(mb::KBall, 0, 2, m2, 1)}, false);     // middle
            add({bs(mb::KPin, 0, 3, m0, -1), bs(mb::KBall, 0, 1, m1, 0), bs(K, k & 1, 2, m2, 1)}, false);        // tip
            add({bs(mb::KPin, 0, 3, m0, -1), bs(K, !(k & 1), 1, m1, 0), bs(mb::KBall, 1, 2, m2, 0)}, false);     // fork
            add({bs(mb::KFree, 0, 3, m0, -1), bs(K, k & 1, 1, m1, 0), bs(mb::KPin, 1, 2, m2, 1)}, true);         // free-floating chain
            add({bs(mb::KFree, 1, 3, m0, -1), bs(mb::KBall, 0, 1, m1, 0), bs(K, !(k & 1), 2, m2, 0)}, true);     // free-floating fork
        }
    } else {
        for (int a = 0; a < 8; ++a) for (int b = 0; b < 8; ++b) for (int c = 0; c < 8; ++c) for (int fork = 0; fork < 2; ++fork) {
            const int dirs = (a * 3 + b * 5 + c * 7 + fork) & 7;
            add({bs(FAM[a], dirs & 1, 3, m0, -1), bs(FAM[b], (dirs >> 1) & 1, 1, m1, 0), bs(FAM[c], (dirs >> 2) & 1, 2, m2, fork ? 0 : 1)}, false);
            if (FAM[a] == mb::KFree) add({bs(FAM[a], dirs & 1, 3, m0, -1), bs(FAM[b], (dirs >> 1) & 1, 1, m1, 0), bs(FAM[c], (dirs >> 2) & 1, 2, m2, fork ? 0 : 1)}, true);
        }
    }
    return L;
}

static bool qdotIsU(int kind) { return kind == mb::KPin || kind == mb::KSlider || kind == mb::KUniversal || kind == mb::KPlanar; }

// ---------------------------------------------------------------- one built system
struct Built {
    std::unique_ptr<mb::Model> M;
    Force::LinearBushing bushing; bool haveBushing = false;
    Vec3 gravity = Vec3(0);
    State s0;
    bool ok = true; std::string why;
};
// Build the model with its force set and constraint.  Everything that must be consistent with the initial configuration (rod length,
// ball stations, bushing frames) is computed from a first, force-free build of the same tree at the same state.
static Built buildSystem(const ModelSpec& ms, int fset, int cons, int valueSet) {
    Built B;
    // pass 1: poses at the initial state
    Transform X_G0, X_G1, X_G2;
    {
        auto P = mb::build(ms.specs, false);
        State s = mb::makeState(*P, 1, valueSet);
        P->system.realize(s, Stage::Position);
        X_G0 = P->bodies[0].getBodyTransform(s); X_G1 = P->bodies[1].getBodyTransform(s); X_G2 = P->bodies[2].getBodyTransform(s);
    }
    B.M = mb::build(ms.specs, false);
    mb::Model& M = *B.M;
    MobilizedBody b0 = M.bodies[0], b1 = M.bodies[1], b2 = M.bodies[2];
    MobilizedBody ground = M.matter.updGround();
    const bool ff = ms.freeFloating;
    const Vec3 sA(0.2, -0.1, 0.15), sB(-0.15, 0.2, 0.1), sC(0.1, 0.25, -0.2);
    const bool grav = (fset == F_GRAV || fset == F_GRAV_SPRINGS || fset == F_DAMPERS);
    if (grav) { B.gravity = Vec3(0.4, -9.3, 1.2); Force::Gravity(M.forces, M.matter, B.gravity); }
    const bool springs = fset != F_GRAV;
    if (springs) {
        Force::TwoPointLinearSpring(M.forces, b0, sA, b2, sB, 40.0, 0.6);
        Force::TwoPointLinearSpring(M.forces, b1, sC, b2, sA, 25.0, 0.3);
        if (!ff) Force::TwoPointLinearSpring(M.forces, ground, Vec3(0.5, 0.8, -0.3), b1, sB, 30.0, 0.9);
        for (int i = ff ? 1 : 0; i < 3; ++i) if (qdotIsU(ms.specs[i].kind)) Force::MobilityLinearSpring(M.forces, M.bodies[i], MobilizerQIndex(0), 12.0 + 3 * i, 0.1);
    }
    if (fset == F_SPRINGS_BUSHING || fset == F_BUSHING_DAMPED) {
        // frames coincide at the initial configuration (no initial deflection); stiff enough to stay far from the pitch singularity
        const Transform X_B0F(Rotation(0.3, ZAxis), sA);
        const Transform X_B2M = ~X_G2 * X_G0 * X_B0F;
        const Vec6 k(150, 150, 150, 400, 400, 400);
        const Vec6 c = fset == F_BUSHING_DAMPED ? Vec6(1.5, 1.0, 2.0, 6, 4, 5) : Vec6(0);
        B.bushing = Force::LinearBushing(M.forces, b0, X_B0F, b2, X_B2M, k, c); B.haveBushing = true;
    }
    if (fset == F_DAMPERS) {
        Force::TwoPointLinearDamper(M.forces, b0, sA, b2, sB, 3.0);
        Force::GlobalDamper(M.forces, M.matter, 0.2);
        for (int i = ff ? 1 : 0; i < 3; ++i) if (M.specs[i].kind != mb::KWeld) Force::MobilityLinearDamper(M.forces, M.bodies[i], MobilizerUIndex(0), 0.8);
    }
    if (ff && fset == F_DAMPERS) { /* GlobalDamper and a damper on the base would be external: not used for momentum clauses (see caller) */ }
    // workless constraint between body 0 (or Ground when grounded and body 0 is the only ancestor) and body 2, satisfied at the initial configuration
    if (cons == C_ROD) {
        const Vec3 pA = X_G0 * sC, pB = X_G2 * sC;
        if (ff) Constraint::Rod(b0, sC, b2, sC, (pB - pA).norm());
        else Constraint::Rod(ground, Vec3(0.7, -0.4, 0.5), b2, sC, (pB - Vec3(0.7, -0.4, 0.5)).norm());
    } else if (cons == C_BALL) {
        const Vec3 pB = X_G2 * sC;
        if (ff) Constraint::Ball(b0, ~X_G0 * pB, b2, sC);
        else Constraint::Ball(ground, pB, b2, sC);
    }
    B.s0 = mb::makeState(M, 1, valueSet);
    return B;
}

static Integrator* makeIntegrator(int kind, const System& sys, double acc) {
    Integrator* I = nullptr;
    switch (kind) {
        case I_RK3: I = new RungeKutta3Integrator(sys); break;
        case I_RKF: I = new RungeKuttaFeldbergIntegrator(sys); break;
        case I_RKM: I = new RungeKuttaMersonIntegrator(sys); break;
        case I_VERLET: I = new VerletIntegrator(sys); break;
        case I_CPODES: I = new CPodesIntegrator(sys); break;
        default: I = new ExplicitEulerIntegrator(sys); I->setFixedStepSize(1e-5); break;
    }
    I->setAccuracy(acc);
    if (kind != I_EULER) I->setInternalStepLimit(5000);      // per report interval: bounds the cost of (near-)singular cells deterministically
    return I;
}

struct SimResult {
    bool ok = false, stepLimit = false, threw = false; std::string why;
    double Escale = 0, maxDrift = 0, maxIncrease = 0, maxBalance = 0, KEmax = 0, E0 = 0;
    double maxLin = 0, maxAng = 0, maxLinGrav = 0, maxCentral = 0, pScale = 0, LScale = 0;
    double maxPitch = 0, consErr = 0; long steps = 0;
};
static SimResult simulate(Built& B, int integ, double acc, double T, int nReport) {
    SimResult R;
    mb::Model& M = *B.M;
    std::unique_ptr<Integrator> I(makeIntegrator(integ, M.system, acc));
    try {
        State s = B.s0;
        I->initialize(s);
        const State& st0 = I->getState();
        M.system.realize(st0, Stage::Dynamics);
        const double KE0 = M.system.calcKineticEnergy(st0), PE0 = M.system.calcPotentialEnergy(st0);
        R.E0 = KE0 + PE0;
        const double D0 = B.haveBushing ? B.bushing.getDissipatedEnergy(st0) : 0;
        const SpatialVec P0 = M.matter.calcSystemMomentumAboutGroundOrigin(st0);
        const SpatialVec Pc0 = M.matter.calcSystemCentralMomentum(st0);
        const double mass = M.matter.calcSystemMass(st0);
        double KEmax = KE0, dPEmax = 0, Eprev = R.E0;
        for (int i = 1; i <= nReport; ++i) {
            Integrator::SuccessfulStepStatus st = I->stepTo(T * i / nReport);
            if (st == Integrator::StartOfContinuousInterval) st = I->stepTo(T * i / nReport);    // the first call only reports the start of the interval
            if (st == Integrator::ReachedStepLimit) { R.stepLimit = true; R.why = "step limit"; return R; }
            if (st != Integrator::ReachedReportTime) { R.why = std::string("stepTo returned ") + Integrator::getSuccessfulStepStatusString(st); return R; }
            const State& sx = I->getState();
            if (getenv("C11_PROGRESS")) { fprintf(stderr, "  t=%g steps=%d attempted=%d errtest=%d convfail=%d projfail=%d realizefail=%d h=%g\n", sx.getTime(), I->getNumStepsTaken(), I->getNumStepsAttempted(), I->getNumErrorTestFailures(), I->getNumConvergenceTestFailures(), I->getNumProjectionFailures(), I->getNumRealizationFailures(), I->getPreviousStepSizeTaken()); }
            M.system.realize(sx, Stage::Dynamics);
            const double KE = M.system.calcKineticEnergy(sx), PE = M.system.calcPotentialEnergy(sx), E = KE + PE;
            KEmax = std::max(KEmax, KE); dPEmax = std::max(dPEmax, std::abs(PE - PE0));
            R.maxDrift = std::max(R.maxDrift, std::abs(E - R.E0));
            R.maxIncrease = std::max(R.maxIncrease, E - Eprev); Eprev = E;
            if (B.haveBushing) {
                R.maxBalance = std::max(R.maxBalance, std::abs(E + B.bushing.getDissipatedEnergy(sx) - R.E0 - D0));
                R.maxPitch = std::max(R.maxPitch, std::abs(B.bushing.getQ(sx)[1]));
            }
            const SpatialVec P = M.matter.calcSystemMomentumAboutGroundOrigin(sx), Pc = M.matter.calcSystemCentralMomentum(sx);
            R.maxLin = std::max(R.maxLin, (P[1] - P0[1]).norm()); R.maxAng = std::max(R.maxAng, (P[0] - P0[0]).norm());
            R.maxLinGrav = std::max(R.maxLinGrav, (P[1] - P0[1] - mass * B.gravity * sx.getTime()).norm());
            R.maxCentral = std::max(R.maxCentral, (Pc[0] - Pc0[0]).norm());
            if (sx.getNQErr() > 0) R.consErr = std::max(R.consErr, (double)sx.getQErr().normInf());
        }
        R.KEmax = KEmax; R.Escale = KEmax + dPEmax;
        R.pScale = std::sqrt(2 * mass * std::max(KEmax, 1e-300)); R.LScale = R.pScale * 2.0;
        R.steps = I->getNumStepsTaken();
        R.ok = true;
    } catch (const std::exception& e) { R.threw = true; R.why = std::string("exception: ") + e.what(); }
    return R;
}

// Calibrated constants: err <= K * accuracy * scale.  K >= 100x the worst value observed on the unchanged tree over both tiers and
// all three value sets (table in notes/C11.md).  Rows for which 100x the worst case is not clearly below a relative error of 1 are
// not in the matrix (every integrator at 1e-3, RKM / RKF / CPodes at 1e-5, CPodes at 1e-7, Verlet everywhere).
static double Kenergy(int integ, int ai) {
    if (integ == I_RK3) return ai == 1 ? 1.5e4 : 2e4;    // worst 140 / 164
    if (integ == I_RKM) return 3e5;                      // worst 2895 (1e-7)
    return 1e6;                                          // RKF 1e-7: worst 9940
}
static double Kmomentum(int integ, int ai) {
    if (integ == I_RK3) return ai == 1 ? 1.5e4 : 3e3;    // worst 134 / 26
    if (integ == I_RKM) return 4e5;                      // worst 3323
    return 1.3e6;                                        // RKF 1e-7: worst 12020
}
static const double K_EULER = 0.5;          // ExplicitEuler sanity row (h = 1e-5, gravity only): |dE| <= 0.5 * Escale; worst 3.3e-3

int main(int argc, char** argv) {
    verif::Run run("C11", argc, argv);
    run.setDeadline(1200, 3600);
    const bool th = run.thorough();
    const int valueSet = (int)(((run.seed % 3) + 3) % 3);
    const double T = 1.0; const int NREPORT = 10;
    std::string dumpPath; for (size_t i = 0; i + 1 < run.extra.size(); ++i) if (run.extra[i] == "--dump") dumpPath = run.extra[i + 1];
    run.rule = "E3: cell = (model family: <= 3 bodies from {Pin,Slider,Ball,Free,Universal,Planar,Ellipsoid,Weld} as base/middle/tip/fork member of a grounded tree or behind a free-floating Free base, "
               "force set {gravity | gravity+springs | springs+undamped bushing | +dampers | damped LinearBushing}, workless constraint {none, Rod, Ball}, (integrator, accuracy) in {(RK3,1e-5), (RK3,1e-7), (RKM,1e-7), (RKF,1e-7); ExplicitEuler h=1e-5 on gravity-only cells as a sanity row}), simulated for 1 s with 10 report times; "
               "distinct = distinct cell; non-trivial = the exchanged energy max KE + max|PE-PE0| exceeds 1e-3 J and the system moves";
    run.assumptions = {"tolerance-based global consequence: the constants K are calibrated on the unchanged tree (notes/C11.md), not derived", "initial states: generic value set of engine/models.h (VERIF_SEED selects one of 3), velocities projected onto the constraint manifold by Integrator::initialize",
                       "constraints are created satisfied at the initial configuration (rod length / ball stations computed from it)", "bushing frames coincide initially; cases whose bushing pitch angle exceeds 1.2 rad are not judged (documented Euler-angle singularity)", "1 s of simulated time, 10 report times"};
    std::vector<ModelSpec> models = modelList(th, valueSet);
    struct Unit { int model, fset, cons; };
    std::vector<Unit> units;
    for (int m = 0; m < (int)models.size(); ++m) for (int f = 0; f < NFORCESET; ++f) for (int c = 0; c < NCONS; ++c) {
        if (th && c != C_NONE && (m % 4) != 0) continue;     // thorough: constraints on every 4th model of the full family cube
        units.push_back({m, f, c});
    }
    // rows of the matrix for which a useful constant exists (notes/C11.md): (integrator, accuracy index)
    struct Row { int integ, ai; };
    const std::vector<Row> rows = {{I_RK3, 1}, {I_RK3, 2}, {I_RKM, 2}, {I_RKF, 2}};
    std::vector<int> integs = {I_RK3, I_RKF, I_RKM};
    const bool allRows = run.hasFlag("--all-rows");     // calibration aid: every integrator (incl. Verlet) at every accuracy, oracles still only on the rows above
    if (allRows) integs = {I_RK3, I_RKF, I_RKM, I_VERLET, I_CPODES};
    auto isRow = [&](int integ, int ai) { for (auto& r : rows) if (r.integ == integ && r.ai == ai) return true; return false; };
    run.parallel("cells", (int64_t)units.size(), [&](int64_t ui) {
        const Unit u = units[ui];
        const ModelSpec& ms = models[u.model];
        const std::string base = ms.name + " forces=" + forceSetName(u.fset) + " constraint=" + consName(u.cons) + " valueSet=" + std::to_string(valueSet);
        Built B;
        try { B = buildSystem(ms, u.fset, u.cons, valueSet); }
        catch (const std::exception& e) { run.count("skipped:build-threw"); if (run.verbose) printf("build threw: %s\n", e.what()); return; }
        if (B.s0.getNU() == 0) { run.count("trivial:no-mobility(all-Weld)"); return; }     // (CPodesIntegrator segfaults on a system without state variables: see notes)
        FILE* dump = dumpPath.empty() ? nullptr : fopen((dumpPath + "." + std::to_string(ui)).c_str(), "w");
        std::vector<int> il = integs;
        if (u.cons == C_NONE && u.fset == F_GRAV && (u.model % 6) == 0) il.push_back(I_EULER);   // sanity row on a few gravity-only cells (explicit Euler is not usable on the spring sets)
        int onlyInteg = -1, onlyAcc = -1; for (size_t i = 0; i + 1 < run.extra.size(); ++i) { if (run.extra[i] == "--only-integ") onlyInteg = atoi(run.extra[i + 1].c_str()); if (run.extra[i] == "--only-acc") onlyAcc = atoi(run.extra[i + 1].c_str()); }
        for (int integ : il) {
            if (onlyInteg >= 0 && integ != onlyInteg) continue;
            double errAt[3] = {-1, -1, -1}, scaleAt[3] = {0, 0, 0};
            const int nacc = integ == I_EULER ? 1 : 3;
            for (int ai = 0; ai < nacc; ++ai) {
                const double acc = ACC[ai];
                if (onlyAcc >= 0 && ai != onlyAcc) continue;
                if (integ != I_EULER && !allRows && !isRow(integ, ai)) continue;
                const std::string desc = base + " integrator=" + integName(integ) + " accuracy=" + verif::jsonNum(acc);
                auto where = [&] { return desc; };
                SimResult R = simulate(B, integ, acc, T, NREPORT);
                const bool nontrivial = R.ok && R.Escale > 1e-3;
                run.evaluation(verif::hashStr(desc), nontrivial);
                if (R.stepLimit) { run.count(std::string("unspecified:step-limit(5000/interval)/") + integName(integ)); continue; }
                // An integrator that gives up (documented exception from stepTo: step size underflow / CPodes failure at a singular configuration of a
                // closed loop) is outside the premise of the property; counted, and the total is bounded after the enumeration.
                if (R.threw) { run.count(std::string("unspecified:integrator-gave-up/") + integName(integ)); if (run.verbose) printf("%s\n  %s\n", desc.c_str(), R.why.c_str()); continue; }
                if (!R.ok) { run.expect(false, std::string("simulation-failed/") + integName(integ), [&] { return R.why + " at " + desc; }); continue; }
                run.outcome(verif::hashMix(verif::hashPod((float)R.maxDrift), verif::hashPod(R.steps)));
                if (!nontrivial) { run.count("trivial:no-energy-exchanged"); continue; }
                if (B.haveBushing && R.maxPitch > 1.2) { run.count("unspecified:bushing-near-pitch-singularity"); continue; }
                const std::string tag = std::string(integName(integ)) + "/acc=" + verif::jsonNum(acc);
                const double bound = acc * R.Escale;
                if (dump) fprintf(dump, "%s\t%g\t%d\t%d\t%d\t%g\t%g\t%g\t%g\t%g\t%g\t%g\t%g\t%ld\t%s\n", integName(integ), acc, u.fset, u.cons, (int)ms.freeFloating, R.Escale, R.maxDrift, R.maxIncrease, R.maxBalance, R.maxLin / R.pScale, R.maxAng / R.LScale, R.maxLinGrav / R.pScale, R.maxCentral / R.LScale, R.steps, ms.name.c_str());
                if (integ != I_EULER && !isRow(integ, ai)) continue;     // (calibration only)
                if (integ == I_EULER) {
                    if (conservative(u.fset)) run.residual("energy-drift/ExplicitEuler-fixed-step-sanity", R.maxDrift / R.Escale, K_EULER, where);
                    continue;
                }
                if (conservative(u.fset)) {
                    run.residual("energy-drift/" + tag, R.maxDrift / bound, Kenergy(integ, ai), where);
                    errAt[ai] = R.maxDrift; scaleAt[ai] = R.Escale;
                } else {
                    run.residual("energy-increase-with-dissipation/" + tag, std::max(0.0, R.maxIncrease) / bound, Kenergy(integ, ai), where);
                    if (u.fset == F_BUSHING_DAMPED) { run.residual("energy-plus-dissipated/" + tag, R.maxBalance / bound, Kenergy(integ, ai), where); errAt[ai] = R.maxBalance; scaleAt[ai] = R.Escale; }
                    if (R.E0 - 0 > 0 && R.maxDrift > 100 * bound) run.count("dissipation-visible");
                }
                // momentum (free-floating base; forces internal or uniform gravity)
                if (ms.freeFloating && u.fset != F_DAMPERS) {
                    if (B.gravity.norm() == 0) {
                        run.residual("linear-momentum/" + tag, R.maxLin / (acc * R.pScale), Kmomentum(integ, ai), where);
                        run.residual("angular-momentum-about-origin/" + tag, R.maxAng / (acc * R.LScale), Kmomentum(integ, ai), where);
                    } else {
                        run.residual("linear-momentum-minus-Mgt/" + tag, R.maxLinGrav / (acc * R.pScale), Kmomentum(integ, ai), where);
                        run.residual("central-angular-momentum/" + tag, R.maxCentral / (acc * R.LScale), Kmomentum(integ, ai), where);
                    }
                }
                if (run.verbose) printf("%s\n  Escale=%.6g drift=%.3g (%.3g x acc) increase=%.3g balance=%.3g lin=%.3g ang=%.3g steps=%ld qerr=%.2g\n", desc.c_str(), R.Escale, R.maxDrift, R.maxDrift / bound, R.maxIncrease, R.maxBalance, R.maxLin, R.maxAng, R.steps, R.consErr);
            }
            // ladder statistic (not an oracle, see notes/C11.md): how often does a 100x tighter accuracy buy a 10x smaller error?
            if (errAt[1] > 0 && errAt[2] >= 0) run.count(std::string(errAt[2] <= errAt[1] / 10 ? "ladder:shrinks>=10x/" : "ladder:shrinks<10x/") + integName(integ));
        }
        if (dump) fclose(dump);
        if (ui % 97 == 0) run.sample(base);
    });
    if (!run.replaying()) {
        int64_t gaveUp = 0, limited = 0; for (auto& kv : run.acc.counters) { if (kv.first.rfind("unspecified:integrator-gave-up/", 0) == 0) gaveUp += kv.second; if (kv.first.rfind("unspecified:step-limit", 0) == 0) limited += kv.second; }
        run.expect(gaveUp * 50 <= run.acc.evaluations, "too-many-simulations-gave-up", [&] { return std::to_string(gaveUp) + " of " + std::to_string(run.acc.evaluations) + " simulations ended with an integrator exception"; });
        run.expect(limited * 10 <= run.acc.evaluations, "too-many-simulations-hit-the-step-limit", [&] { return std::to_string(limited) + " of " + std::to_string(run.acc.evaluations) + " simulations hit the step limit"; });
    }
    return run.finish();
}
