// C39 -- Optimizers return truthful, feasible, improving results.
//
// Engine E3: an enumerated family of small optimization problems (convex quadratics with
// chosen spectra, Rosenbrock, box-bounded quadratics with every active-set pattern,
// linearly constrained quadratics with every active pattern) x algorithm x gradient mode
// x tolerance x start point is handed to the real SimTK::Optimizer.  Every objective /
// gradient / constraint evaluation is logged by the harness' OptimizerSystem.  Oracles:
// re-evaluation of the returned objective, descent, bounds on returned and on every
// evaluated point, constraint satisfaction, distance to the unique minimiser computed by a
// dense KKT brute force in the harness, determinism of seeded CMA-ES, BestAvailable choice.
#include "SimTKmath.h"
#include "verif.h"

#include <malloc.h>

using namespace SimTK;
typedef std::vector<double> DV;

// ---------------------------------------------------------------- dense helpers
struct DM { int n; DV a; DM(int n = 0) : n(n), a((size_t)n * n, 0.0) {} double& operator()(int i, int j) { return a[(size_t)i * n + j]; } double operator()(int i, int j) const { return a[(size_t)i * n + j]; } };
static bool gaussSolve(DM M, DV b, DV& x) {
    const int n = M.n; x.assign(n, 0.0);
    for (int c = 0; c < n; ++c) {
        int piv = c; for (int r = c + 1; r < n; ++r) if (std::fabs(M(r, c)) > std::fabs(M(piv, c))) piv = r;
        if (std::fabs(M(piv, c)) < 1e-11) return false;
        if (piv != c) { for (int j = 0; j < n; ++j) std::swap(M(piv, j), M(c, j)); std::swap(b[piv], b[c]); }
        for (int r = c + 1; r < n; ++r) { double f = M(r, c) / M(c, c); for (int j = c; j < n; ++j) M(r, j) -= f * M(c, j); b[r] -= f * b[c]; }
    }
    for (int r = n - 1; r >= 0; --r) { double s = b[r]; for (int j = r + 1; j < n; ++j) s -= M(r, j) * x[j]; x[r] = s / M(r, r); }
    return true;
}

// ---------------------------------------------------------------- problems
struct Prob {
    std::string family;            // quad | rosen | bquad | cquad
    int n = 1;
    DV eig; int rot = 0;           // Q = R diag(eig) R',  R = identity (rot=0) or a fixed product of Givens rotations (rot=1)
    int variant = 0;               // generic-value set: rotation angles and centre scale (selected by VERIF_SEED in the quick tier)
    DV c;                          // unconstrained minimiser of the quadratic
    bool hasBounds = false; DV lo, hi;
    int ne = 0, ni = 0; std::vector<DV> a; DV b;     // g_i(x) = a_i.x - b_i ; first ne are "= 0", next ni are ">= 0"
    DM Q;
    std::string desc;              // replayable description of the problem parameters
    void buildQ() {
        Q = DM(n);
        DM R(n); for (int i = 0; i < n; ++i) R(i, i) = 1;
        if (rot) for (int i = 0; i + 1 < n; ++i) {     // Givens rotations in planes (i,i+1) with angles 0.6, 0.9, 1.2, ...
            const double th = 0.6 + 0.17 * variant + 0.3 * (i % 5), cs = std::cos(th), sn = std::sin(th);
            for (int r = 0; r < n; ++r) { double u = R(r, i), v = R(r, i + 1); R(r, i) = cs * u - sn * v; R(r, i + 1) = sn * u + cs * v; }
        }
        for (int i = 0; i < n; ++i) for (int j = 0; j < n; ++j) { double s = 0; for (int k = 0; k < n; ++k) s += R(i, k) * eig[k] * R(j, k); Q(i, j) = s; }
        for (int i = 0; i < n; ++i) for (int j = i + 1; j < n; ++j) { double s = 0.5 * (Q(i, j) + Q(j, i)); Q(i, j) = Q(j, i) = s; }
    }
    double f(const double* x) const {
        if (family == "rosen") { double s = 0; for (int i = 0; i + 1 < n; ++i) { double t = x[i + 1] - x[i] * x[i], u = 1 - x[i]; s += 100 * t * t + u * u; } return s; }
        double s = 0; for (int i = 0; i < n; ++i) { double r = 0; for (int j = 0; j < n; ++j) r += Q(i, j) * (x[j] - c[j]); s += (x[i] - c[i]) * r; } return 0.5 * s;
    }
    void grad(const double* x, double* g) const {
        if (family == "rosen") { for (int i = 0; i < n; ++i) g[i] = 0; for (int i = 0; i + 1 < n; ++i) { double t = x[i + 1] - x[i] * x[i]; g[i] += -400 * x[i] * t - 2 * (1 - x[i]); g[i + 1] += 200 * t; } return; }
        for (int i = 0; i < n; ++i) { double r = 0; for (int j = 0; j < n; ++j) r += Q(i, j) * (x[j] - c[j]); g[i] = r; }
    }
    double lambdaMin() const { double m = 1e300; for (double e : eig) m = std::min(m, e); return m; }
};

// Unique minimiser of the strictly convex quadratic under bounds and linear constraints: brute force over active sets.
static bool kktReference(const Prob& p, DV& xstar) {
    const int n = p.n;
    if (!p.hasBounds && p.ne + p.ni == 0) { xstar = p.c; return true; }
    const int nb = p.hasBounds ? n : 0;
    int64_t combos = 1; for (int i = 0; i < nb; ++i) combos *= 3; for (int i = 0; i < p.ni; ++i) combos *= 2;
    DV Qc(n, 0.0); for (int i = 0; i < n; ++i) for (int j = 0; j < n; ++j) Qc[i] += p.Q(i, j) * p.c[j];
    for (int64_t cc = 0; cc < combos; ++cc) {
        int64_t t = cc; std::vector<int> bs(nb, 0), is(p.ni, 0);
        for (int i = 0; i < nb; ++i) { bs[i] = (int)(t % 3); t /= 3; } for (int i = 0; i < p.ni; ++i) { is[i] = (int)(t % 2); t /= 2; }
        // active rows: (coefficients, rhs, kind) kind 0 equality, 1 inequality (mult>=0), 2 lower bound (mult>=0), 3 upper bound (mult<=0 in +e_i direction)
        std::vector<DV> rows; DV rhs; std::vector<int> kind;
        for (int i = 0; i < p.ne; ++i) { rows.push_back(p.a[i]); rhs.push_back(p.b[i]); kind.push_back(0); }
        for (int i = 0; i < p.ni; ++i) if (is[i]) { rows.push_back(p.a[p.ne + i]); rhs.push_back(p.b[p.ne + i]); kind.push_back(1); }
        for (int i = 0; i < nb; ++i) if (bs[i]) { DV e(n, 0.0); e[i] = 1; rows.push_back(e); rhs.push_back(bs[i] == 1 ? p.lo[i] : p.hi[i]); kind.push_back(bs[i] == 1 ? 2 : 3); }
        const int k = (int)rows.size(); if (k > n) continue;
        DM M(n + k); DV r(n + k, 0.0);
        for (int i = 0; i < n; ++i) { for (int j = 0; j < n; ++j) M(i, j) = p.Q(i, j); r[i] = Qc[i]; }
        for (int q = 0; q < k; ++q) { for (int j = 0; j < n; ++j) { M(n + q, j) = rows[q][j]; M(j, n + q) = -rows[q][j]; } r[n + q] = rhs[q]; }   // Qx - A'mu = Qc ; Ax = b
        DV sol; if (!gaussSolve(M, r, sol)) continue;
        bool ok = true;
        for (int q = 0; q < k && ok; ++q) { double mu = sol[n + q]; if ((kind[q] == 1 || kind[q] == 2) && mu < -1e-10) ok = false; if (kind[q] == 3 && mu > 1e-10) ok = false; }
        for (int i = 0; i < p.ni && ok; ++i) if (!is[i]) { double g = -p.b[p.ne + i]; for (int j = 0; j < n; ++j) g += p.a[p.ne + i][j] * sol[j]; if (g < -1e-10) ok = false; }
        for (int i = 0; i < nb && ok; ++i) if (!bs[i]) { if (sol[i] < p.lo[i] - 1e-10 || sol[i] > p.hi[i] + 1e-10) ok = false; }
        if (ok) { xstar.assign(sol.begin(), sol.begin() + n); return true; }
    }
    return false;
}

// ---------------------------------------------------------------- the logging OptimizerSystem
struct Log { int64_t nObj = 0, nGrad = 0, nCons = 0, nJac = 0, nAtInfeasibleStart = 0; double worstBoundObj = 0, worstBoundGrad = 0, worstBoundCons = 0; bool sawNaN = false; };
class Sys : public OptimizerSystem {
public:
    const Prob& p; mutable Log log; DV x0;   // evaluations AT the caller-supplied start point are not the optimizer's choice: counted, not judged
    explicit Sys(const Prob& p, const DV& start) : OptimizerSystem(p.n), p(p), x0(start) {
        setNumEqualityConstraints(p.ne); setNumInequalityConstraints(p.ni);
        setNumLinearEqualityConstraints(p.ne); setNumLinearInequalityConstraints(p.ni);
        if (p.hasBounds) { Vector lo(p.n), hi(p.n); for (int i = 0; i < p.n; ++i) { lo[i] = p.lo[i]; hi[i] = p.hi[i]; } setParameterLimits(lo, hi); }
    }
    double boundViolation(const Vector& x) const {
        double w = 0; if (!p.hasBounds) return 0;
        bool isStart = true; for (int i = 0; i < p.n; ++i) if (!(std::fabs(x[i] - x0[i]) <= 1e-3 * std::max(1.0, std::fabs(x0[i])))) isStart = false;   // the start itself or a differencing step around it
        for (int i = 0; i < p.n; ++i) { if (!(x[i] == x[i])) { log.sawNaN = true; continue; } w = std::max(w, std::max(p.lo[i] - x[i], x[i] - p.hi[i]) / std::max(1.0, std::max(std::fabs(p.lo[i]), std::fabs(p.hi[i])))); }
        if (isStart && w > 0) { log.nAtInfeasibleStart++; return 0; }
        return w;
    }
    int objectiveFunc(const Vector& x, bool, Real& f) const override { log.nObj++; log.worstBoundObj = std::max(log.worstBoundObj, boundViolation(x)); f = p.f(&x[0]); return 0; }
    int gradientFunc(const Vector& x, bool, Vector& g) const override { log.nGrad++; log.worstBoundGrad = std::max(log.worstBoundGrad, boundViolation(x)); p.grad(&x[0], &g[0]); return 0; }
    int constraintFunc(const Vector& x, bool, Vector& g) const override {
        log.nCons++; log.worstBoundCons = std::max(log.worstBoundCons, boundViolation(x));
        for (int i = 0; i < p.ne + p.ni; ++i) { double s = -p.b[i]; for (int j = 0; j < p.n; ++j) s += p.a[i][j] * x[j]; g[i] = s; }
        return 0;
    }
    int constraintJacobian(const Vector&, bool, Matrix& jac) const override { log.nJac++; for (int i = 0; i < p.ne + p.ni; ++i) for (int j = 0; j < p.n; ++j) jac(i, j) = p.a[i][j]; return 0; }
};

// ---------------------------------------------------------------- one run of the real optimizer
struct Config { int alg; int grad; int tol; int start; };   // alg: OptimizerAlgorithm value; grad 0 analytic 1 central 2 forward; tol 0 default(1e-3) 1: 1e-6; start index
static const char* algName(int a) { switch (a) { case BestAvailable: return "BestAvailable"; case InteriorPoint: return "InteriorPoint"; case LBFGS: return "LBFGS"; case LBFGSB: return "LBFGSB"; case CMAES: return "CMAES"; default: return "?"; } }
static DV startPoint(const Prob& p, int s) {
    DV x(p.n, 0.0);
    if (s == 1) for (int i = 0; i < p.n; ++i) x[i] = (i % 2) ? -0.5 : 0.5;
    if (s == 2) for (int i = 0; i < p.n; ++i) x[i] = (i % 2) ? -2.0 : 3.0;
    return x;
}
struct Outcome { bool returned = false; std::string failure; double f = 0; DV x; Log log; int usedAlg = -1; };
// glibc fills every fresh heap block with a fixed byte (M_PERTURB): what a library reads from uninitialised heap memory is then the
// same in every run (the check stays deterministic) and can be varied on purpose: 0xFF -> zeros, 0xA5 -> 1.3e127, 0x100 -> NaN.
static const int HEAP_DEFAULT = 0xA5;
// The same for the stack: 512 KB below the caller's frame are filled with a byte before every run, so uninitialised locals of the
// library (e.g. the isave/dsave/lsave arrays of LBFGSBOptimizer::optimize) read a known pattern instead of leftovers of earlier calls.
static void __attribute__((noinline)) dirtyStack(int byte) { volatile char buf[1 << 19]; memset((void*)buf, byte, sizeof buf); asm volatile("" ::: "memory"); }
static Outcome __attribute__((noinline)) runOptimizerImpl(const Prob& p, const Config& c, int seed);
static Outcome __attribute__((noinline)) runOptimizer(const Prob& p, const Config& c, int seed = 7, int heapFill = HEAP_DEFAULT) {
    mallopt(M_PERTURB, heapFill);
    struct Restore { ~Restore() { mallopt(M_PERTURB, HEAP_DEFAULT); } } restore;
    dirtyStack(heapFill == 0xFF ? 0x00 : heapFill == 0x100 ? 0xFF : 0x5A);
    return runOptimizerImpl(p, c, seed);
}
static Outcome __attribute__((noinline)) runOptimizerImpl(const Prob& p, const Config& c, int seed) {
    struct Restore { ~Restore() { mallopt(M_PERTURB, HEAP_DEFAULT); } } restore;
    Outcome o;
    DV x0 = startPoint(p, c.start); Sys sys(p, x0);
    Vector x(p.n); for (int i = 0; i < p.n; ++i) x[i] = x0[i];
    try {
        Optimizer opt(sys, (OptimizerAlgorithm)c.alg);
        o.usedAlg = opt.getAlgorithm();
        opt.setDiagnosticsLevel(0);
        if (c.tol == 1) opt.setConvergenceTolerance(1e-6);
        if (c.grad) { opt.setDifferentiatorMethod(c.grad == 1 ? Differentiator::CentralDifference : Differentiator::ForwardDifference); opt.useNumericalGradient(true);
                      if (p.ne + p.ni > 0) opt.useNumericalJacobian(true); }
        if (o.usedAlg == CMAES) { opt.setAdvancedIntOption("seed", seed); opt.setAdvancedRealOption("maxTimeFractionForEigendecomposition", 1); opt.setAdvancedRealOption("init_stepsize", 0.3); opt.setMaxIterations(3000); }
        o.f = opt.optimize(x);
        o.returned = true;
    } catch (const std::exception& e) { o.failure = e.what(); }
    o.x.resize(p.n); for (int i = 0; i < p.n; ++i) o.x[i] = x[i];
    o.log = sys.log;
    return o;
}

// ---------------------------------------------------------------- enumeration of problems
static std::string dvs(const DV& v) { std::string s; for (size_t i = 0; i < v.size(); ++i) s += (i ? "," : "") + verif::jsonNum(v[i]); return s; }
static void makeProblems(bool thorough, int variant, std::vector<Prob>& P) {
    auto centre = [&](int n) { DV c(n); for (int i = 0; i < n; ++i) c[i] = ((i % 3 == 0) ? 1.0 : (i % 3 == 1) ? -2.0 : 0.5) * (1 + 0.25 * variant); return c; };
    const size_t first = P.size();
    const double EV[3] = {1, 10, 1e3};
    // convex quadratics
    for (int n : {1, 2, 5, 20}) {
        std::vector<DV> spectra;
        if (n <= 2) { int64_t cnt = n == 1 ? 3 : 9; for (int64_t k = 0; k < cnt; ++k) { DV e(n); int64_t t = k; for (int i = 0; i < n; ++i) { e[i] = EV[t % 3]; t /= 3; } spectra.push_back(e); } }
        else { for (int k = 0; k < 3; ++k) spectra.push_back(DV(n, EV[k]));
               DV g(n); for (int i = 0; i < n; ++i) g[i] = std::pow(1e3, (double)i / (n - 1)); spectra.push_back(g);
               DV a(n, 1.0); a[n - 1] = 1e3; spectra.push_back(a); DV b2(n, 1e3); b2[0] = 1; spectra.push_back(b2);
               if (thorough) { DV h(n); for (int i = 0; i < n; ++i) h[i] = EV[i % 3]; spectra.push_back(h); } }
        for (auto& e : spectra) for (int rot = 0; rot < (n >= 2 ? 2 : 1); ++rot) {
            Prob p; p.family = "quad"; p.n = n; p.eig = e; p.rot = rot; p.c = centre(n); p.buildQ();
            p.desc = "family=quad n=" + std::to_string(n) + " eig=" + dvs(e) + " rot=" + std::to_string(rot); P.push_back(p);
        }
    }
    // Rosenbrock
    for (int n : {2, 4}) { Prob p; p.family = "rosen"; p.n = n; p.eig = DV(n, 1.0); p.c = DV(n, 1.0); p.desc = "family=rosen n=" + std::to_string(n); P.push_back(p); }
    // box-bounded quadratics: every active-set pattern is produced by placing the unconstrained minimiser below / inside / above the box [-1,1]
    for (int n = 1; n <= 3; ++n) { int64_t pats = 1; for (int i = 0; i < n; ++i) pats *= 3;
        for (int64_t k = 0; k < pats; ++k) for (int rot = 0; rot < (n >= 2 ? 2 : 1); ++rot) for (int sp = 0; sp < 2; ++sp) {
            Prob p; p.family = "bquad"; p.n = n; p.rot = rot; p.eig.resize(n); p.c.resize(n); p.hasBounds = true; p.lo.assign(n, -1.0); p.hi.assign(n, 1.0);
            int64_t t = k; std::string pat; for (int i = 0; i < n; ++i) { int d = (int)(t % 3); t /= 3; p.c[i] = d == 0 ? -2.0 : d == 1 ? 0.25 : 1.75; pat += "lfu"[d]; p.eig[i] = sp == 0 ? (i == 0 ? 1.0 : 10.0) : (i == 0 ? 1e3 : 1.0); }
            p.buildQ(); p.desc = "family=bquad n=" + std::to_string(n) + " pattern=" + pat + " rot=" + std::to_string(rot) + " spectrum=" + std::to_string(sp); P.push_back(p);
        } }
    // linearly constrained quadratics: (ne,ni) with ne+ni in {1,2}; each inequality placed active or inactive at the solution
    for (int n = 2; n <= 3; ++n) for (int ne = 0; ne <= 2; ++ne) for (int ni = 0; ni + ne <= 2; ++ni) { if (ne + ni == 0) continue;
        for (int act = 0; act < (1 << ni); ++act) for (int rot = 0; rot < 2; ++rot) {
            Prob p; p.family = "cquad"; p.n = n; p.rot = rot; p.eig.resize(n); for (int i = 0; i < n; ++i) p.eig[i] = i == 0 ? 1.0 : 10.0; p.c = centre(n); p.ne = ne; p.ni = ni;
            // constraint normals: a_0 = (1,1,..,1), a_1 = (1,-1,0..); offsets chosen so that an "active" inequality cuts off the unconstrained minimiser and an inactive one does not
            for (int i = 0; i < ne + ni; ++i) { DV a(n, 0.0); if (i == 0) for (int j = 0; j < n; ++j) a[j] = 1; else { a[0] = 1; a[1] = -1; }
                double ac = 0; for (int j = 0; j < n; ++j) ac += a[j] * p.c[j];
                double b; if (i < ne) b = ac + 1.0; else b = ((act >> (i - ne)) & 1) ? ac + 1.0 : ac - 1.0;    // g = a.x - b >= 0
                p.a.push_back(a); p.b.push_back(b); }
            p.buildQ(); p.desc = "family=cquad n=" + std::to_string(n) + " ne=" + std::to_string(ne) + " ni=" + std::to_string(ni) + " active=" + std::to_string(act) + " rot=" + std::to_string(rot); P.push_back(p);
        } }
    for (size_t i = first; i < P.size(); ++i) { P[i].variant = variant; if (P[i].family != "rosen") P[i].buildQ(); P[i].desc += " variant=" + std::to_string(variant); }
}
static std::vector<int> algorithmsFor(const Prob& p) {
    if (p.family == "cquad") return {InteriorPoint, BestAvailable};
    if (p.family == "bquad") { std::vector<int> v = {LBFGSB, InteriorPoint, BestAvailable}; if (p.n >= 2) v.push_back(CMAES); return v; }
    std::vector<int> v = {LBFGS, LBFGSB, InteriorPoint, BestAvailable}; if (p.n >= 2) v.push_back(CMAES); return v;
}

struct Case { int prob; Config cfg; };

int main(int argc, char** argv) {
    verif::Run run("C39", argc, argv);
    run.setDeadline(600, 2700);
    const bool thorough = run.thorough();
    mallopt(M_PERTURB, HEAP_DEFAULT);
    if (run.replaying() && !run.replayPath.empty() && run.replayPath[0] != '/') { char buf[4096]; if (getcwd(buf, sizeof buf)) run.replayPath = std::string(buf) + "/" + run.replayPath; }
    { std::string d = run.buildDir + "/tmp/C39-cwd"; std::string cmd = "mkdir -p " + d; if (system(cmd.c_str()) == 0) { if (chdir(d.c_str()) != 0) {} } }   // c-cmaes may write errcmaes.err into the cwd
    run.rule = "a case = (problem, algorithm, gradient mode {analytic, numerical central, numerical forward}, convergence tolerance {default 1e-3, 1e-6}, start point {0, +-0.5 alternating, (3,-2,..)}); problems: convex quadratics 1/2 (x-c)'Q(x-c) with n in {1,2,5,20}, "
               "spectra from {1,10,1e3} (all 3^n for n<=2; constant, geometric, one-large, one-small for n=5,20), Q diagonal or rotated; Rosenbrock n=2,4; quadratics on the box [-1,1]^n, n<=3, with every lower/free/upper pattern of the unconstrained minimiser; "
               "quadratics with 1-2 linear equality / inequality constraints, every active pattern; every algorithm applicable to the family incl. BestAvailable; CMA-ES seeded. Non-trivial = the optimizer returned (failures reported by exception are counted, not judged)";
    run.assumptions = {"CMA-ES is run with seed 7 (and 8 for the seed-sensitivity guard), init_stepsize 0.3 and maxTimeFractionForEigendecomposition=1 as the documentation demands for reproducibility", "a thrown OptimizerFailed is the documented way to report non-convergence and is not a violation"};
    std::vector<Prob> probs;
    const int seedVariant = (int)(((run.seed % 3) + 3) % 3);
    if (thorough) for (int v = 0; v < 3; ++v) makeProblems(true, v, probs); else makeProblems(false, seedVariant, probs);
    run.extraCoverage["value_set_variant"] = thorough ? "\"all three\"" : std::to_string(seedVariant);
    std::vector<Case> cases;
    for (int pi = 0; pi < (int)probs.size(); ++pi) for (int alg : algorithmsFor(probs[pi])) {
        const bool cma = alg == CMAES;
        for (int grad = 0; grad < (cma ? 1 : 3); ++grad) for (int tol = 0; tol < 2; ++tol) for (int start = 0; start < 3; ++start) {
            if (probs[pi].n == 20 && cma && !thorough && (tol == 1 || start != 0)) continue;   // 20-dimensional CMA-ES runs are the expensive ones
            cases.push_back({pi, {alg, grad, tol, start}});
        }
    }
    run.extraCoverage["problems"] = std::to_string(probs.size());

    auto describe = [&](const Case& c) { return probs[c.prob].desc + " alg=" + algName(c.cfg.alg) + " grad=" + std::to_string(c.cfg.grad) + " tol=" + std::to_string(c.cfg.tol) + " start=" + std::to_string(c.cfg.start); };

    auto evaluate = [&](const Case& cs, bool verbose) {
        const Prob& p = probs[cs.prob]; const Config& c = cs.cfg;
        const std::string where = describe(cs);
        auto W = [&] { return where; };
        auto RP = [&] { return run.replayHeader() + "case=" + where + "\n"; };
        Outcome o = runOptimizer(p, c);
        const std::string A = o.usedAlg >= 0 ? algName(o.usedAlg) : algName(c.alg);
        run.evaluation(verif::hashStr(where), o.returned);
        if (verbose) { printf("%s\n  used algorithm %s; %s\n", where.c_str(), A.c_str(), o.returned ? "returned" : ("threw: " + o.failure).c_str());
            printf("  f=%.17g x=", o.f); for (double v : o.x) printf(" %.12g", v); printf("\n  evaluations: obj=%lld grad=%lld cons=%lld jac=%lld; worst bound violation obj=%.3g grad=%.3g cons=%.3g\n", (long long)o.log.nObj, (long long)o.log.nGrad, (long long)o.log.nCons, (long long)o.log.nJac, o.log.worstBoundObj, o.log.worstBoundGrad, o.log.worstBoundCons); }
        // BestAvailable picks the documented algorithm
        if (c.alg == BestAvailable) { int want = p.ne + p.ni > 0 ? InteriorPoint : p.hasBounds ? LBFGSB : LBFGS; run.expect(o.usedAlg == want, "best-available/selection", [&] { return "BestAvailable chose " + A + " but the documented choice is " + algName(want) + " | " + where; }, RP); }
        else run.expect(o.usedAlg == c.alg, "algorithm/as-requested", [&] { return "getAlgorithm() = " + A + " | " + where; }, RP);
        if (!o.returned) {
            std::string msg = o.failure; size_t q = msg.find("Optimizer failed"); std::string shortMsg = q != std::string::npos ? msg.substr(q, 70) : msg.substr(0, 90);
            for (char& ch : shortMsg) if (ch == '\n' || ch == '"') ch = ' ';
            DV x0 = startPoint(p, c.start); bool startInfeasible = false; if (p.hasBounds) for (int i = 0; i < p.n; ++i) if (x0[i] < p.lo[i] || x0[i] > p.hi[i]) startInfeasible = true;
            if (o.usedAlg == CMAES && startInfeasible) run.count("failed:" + A + ":infeasible-start-rejected(documented)");
            else run.count("failed:" + A + ":" + shortMsg);
            run.outcome(verif::hashStr(A + shortMsg));
            // even a failing run must not evaluate outside the limits
        }
        const std::string gm = c.grad ? "numerical" : "analytic";
        // limits honoured on every logged evaluation (LBFGSB, InteriorPoint, CMAES)
        if (p.hasBounds && (o.usedAlg == LBFGSB || o.usedAlg == CMAES || o.usedAlg == InteriorPoint)) {
            const double slack = o.usedAlg == InteriorPoint ? 1.0e-8 * 1.01 : 0.0;   // Ipopt relaxes bounds by bounds_relax_factor=1e-8 (relative), documented by Ipopt
            const double worst = std::max(o.log.worstBoundObj, std::max(o.log.worstBoundGrad, o.log.worstBoundCons));
            if (o.log.nAtInfeasibleStart) run.count("evaluations-at-the-callers-infeasible-start(not-judged):" + A, o.log.nAtInfeasibleStart);
            if (c.grad == 0) run.residual("bounds-on-evaluations/" + A + "/analytic", worst, slack, W, RP);
            else {
                // with a numerical gradient the differencing steps of OptimizerRep::gradientFuncWrapper leave the box by the step length:
                // one root cause for every algorithm -> one key; anything larger than a differencing step is the algorithm's own doing
                if (worst > slack && worst <= 1e-3) { run.count("numerical-gradient-steps-outside-limits:" + A); run.residual("bounds-on-evaluations/numerical-differencing-steps", worst, 0.0, W, RP); }
                else run.residual("bounds-on-evaluations/" + A + "/numerical", worst, slack, W, RP);
            }
            run.expect(!o.log.sawNaN, "nan-parameters/" + A, [&] { return "the objective was called with NaN parameters | " + where; }, RP);
        }
        if (!o.returned) return;
        run.count("returned:" + A);
        // truthful: returned f is the objective at the returned point
        const double fr = p.f(o.x.data());
        if (o.usedAlg == InteriorPoint && p.hasBounds) {
            // Ipopt solves with bounds relaxed by 1e-8 (relative) and then moves the final point back inside the original bounds
            // (honor_original_bounds): the reported objective belongs to a point up to that far away.  First-order allowance.
            DV g(p.n); p.grad(o.x.data(), g.data()); double allow = 0; for (int i = 0; i < p.n; ++i) allow += 10 * std::fabs(g[i]) * 1.01e-8 * std::max(1.0, std::max(std::fabs(p.lo[i]), std::fabs(p.hi[i])));
            run.residual("truthful/InteriorPoint/bounded(10x-first-order-allowance-for-1e-8-bound-relaxation)", std::fabs(o.f - fr) / (allow + 1e-12 * (1 + std::fabs(fr))), 1.0, W, RP);
        } else run.residual("truthful/" + A, std::fabs(o.f - fr) / (1 + std::fabs(fr)), 1e-12, W, RP);
        // returned point within limits
        if (p.hasBounds && o.usedAlg != LBFGS) { double w = 0; for (int i = 0; i < p.n; ++i) w = std::max(w, std::max(p.lo[i] - o.x[i], o.x[i] - p.hi[i])); run.residual("bounds-on-result/" + A, std::max(0.0, w), 0.0, W, RP); }
        // constraints within tolerance (interior point)
        if (p.ne + p.ni > 0) { double w = 0; for (int i = 0; i < p.ne + p.ni; ++i) { double g = -p.b[i]; for (int j = 0; j < p.n; ++j) g += p.a[i][j] * o.x[j]; w = std::max(w, i < p.ne ? std::fabs(g) : -g); }
            run.residual("constraints/" + A, std::max(0.0, w) / 1e-4, 1.0, W, RP); }
        // descent: never worse than the (feasible) start
        if (o.usedAlg == LBFGS || o.usedAlg == LBFGSB || o.usedAlg == InteriorPoint) {
            DV x0 = startPoint(p, c.start); bool feasible = true;
            if (p.hasBounds) for (int i = 0; i < p.n; ++i) { if (o.usedAlg == LBFGSB) x0[i] = std::min(std::max(x0[i], p.lo[i]), p.hi[i]); else if (x0[i] < p.lo[i] || x0[i] > p.hi[i]) feasible = false; }
            for (int i = 0; i < p.ne + p.ni; ++i) { double g = -p.b[i]; for (int j = 0; j < p.n; ++j) g += p.a[i][j] * x0[j]; if (i < p.ne ? std::fabs(g) > 1e-12 : g < 0) feasible = false; }
            if (feasible) { const double f0 = p.f(x0.data()); run.residual("descent/" + A, std::max(0.0, o.f - f0) / (1 + std::fabs(f0)), 1e-12, W, RP); }
            else run.count("descent-not-applicable(infeasible-start)");
        }
        // CMA-ES stops silently at the iteration limit (3000 here): such runs are counted, their distance to the minimiser is not judged
        bool cmaesHitLimit = false;
        if (o.usedAlg == CMAES) { const int lambda = 4 + (int)std::floor(3 * std::log((double)p.n)); if (o.log.nObj >= (int64_t)3000 * lambda) { cmaesHitLimit = true; run.count("cmaes:stopped-at-iteration-limit(minimiser-not-judged)"); } }
        // The CMA-ES documentation warns that the resampling used to obey limits "may prevent the algorithm from functioning properly":
        // with limits its distance to the minimiser is not judged (bounds, truthfulness and reproducibility still are).
        if (o.usedAlg == CMAES && p.hasBounds) { cmaesHitLimit = true; run.count("cmaes:with-limits(minimiser-not-judged,documented-warning)"); }
        // unique minimiser
        if ((p.family != "rosen" || p.n == 2) && !cmaesHitLimit) {
            DV xs; bool have = p.family == "rosen" ? (xs = DV(p.n, 1.0), true) : kktReference(p, xs);
            if (!have) run.harnessError("no KKT reference for " + p.desc);
            else {
                double e = 0, sc = 1; for (int i = 0; i < p.n; ++i) { e = std::max(e, std::fabs(o.x[i] - xs[i])); sc = std::max(sc, std::fabs(xs[i])); }
                const double fs = p.f(xs.data()); const double gap = (o.f - fs) / (1 + std::fabs(fs));
                const std::string cls = A + "/" + gm + "/tol" + (c.tol ? "1e-6" : "1e-3") + (p.family == "rosen" ? "/rosen" : "");
                // objective gap <= K(alg) * tol (+ a noise floor for differenced gradients); K calibrated on the unchanged tree (notes/C39.md)
                const double tolv = c.tol ? 1e-6 : 1e-3;
                const double K = o.usedAlg == LBFGS ? 1e-3 : o.usedAlg == LBFGSB ? 0.2 : o.usedAlg == InteriorPoint ? 100 : 1500;
                const double gapBound = K * tolv + (c.grad ? 1e-6 : 0.0);
                // LBFGSB's own stopping test (lbfgsb.cpp projgr_, modified by the library authors): max_i |pg_i|*max(1,|x_i|)/max(0.1,|f|) <= tol,
                // where pg_i is the gradient component CLIPPED to the distance to the bound.  If a run fails the gap clause although that
                // test holds at the returned point while the plain projected gradient |P(x-g)-x| is still above tol, the cause is that test.
                bool lbfgsbScaledTest = false;
                if (o.usedAlg == LBFGSB && p.family != "rosen" && std::fabs(gap) > gapBound) {
                    DV g(p.n); p.grad(o.x.data(), g.data()); double scaled = 0, plain = 0; const double fscale = 1 / std::max(0.1, std::fabs(o.f));
                    for (int i = 0; i < p.n; ++i) { double gi = g[i];
                        if (p.hasBounds) { if (gi < 0) gi = std::max(o.x[i] - p.hi[i], gi); else gi = std::min(o.x[i] - p.lo[i], gi); }
                        plain = std::max(plain, std::fabs(gi)); scaled = std::max(scaled, std::fabs(gi) * fscale * std::max(1.0, std::fabs(o.x[i]))); }
                    if (scaled <= tolv && plain > tolv) lbfgsbScaledTest = true;
                }
                if (lbfgsbScaledTest) {
                    run.count("lbfgsb:stopped-by-scaled-projected-gradient-test:evaluations=" + std::to_string(std::min<int64_t>(o.log.nObj, 3)));
                    run.expect(false, "LBFGSB/scaled-projected-gradient-test", [&] { return "LBFGSB reports convergence at f=" + verif::fmtd(o.f) + " (minimum " + verif::fmtd(fs) + ") after " + std::to_string(o.log.nObj) +
                        " objective evaluation(s): its stopping test divides the bound-clipped gradient by |f| | " + where; }, RP);
                } else if (p.family != "rosen") {
                    run.residual("objective-gap-over-bound/" + cls, std::fabs(gap) / gapBound, 1.0, W, RP);   // recorded as a ratio because the bound differs per case
                    // strict convexity: 1/2 lambda_min |x-x*|^2 <= f-f* for feasible x; constraint slack of 1e-4 adds at most that much again
                    const double distBound = 1.01 * std::sqrt(2 * gapBound * (1 + std::fabs(fs)) / p.lambdaMin()) + (p.ne + p.ni > 0 ? 1e-3 : 0) + 1e-9;
                    run.residual("minimiser-distance-over-bound/" + cls, e / distBound, 1.0, W, RP);
                } else { run.residual("objective-gap/" + cls, std::fabs(gap), 1e-3, W, RP); run.residual("minimiser-distance/" + cls, e / sc, 5e-2, W, RP); }
                if (verbose) { printf("  reference x* ="); for (double v : xs) printf(" %.12g", v); printf("  f*=%.17g\n", fs); }
            }
        }
        run.outcome(verif::hashMix(verif::hashStr(A), (uint64_t)(o.log.nObj * 1000003 + o.log.nGrad)));
        // seeded CMA-ES is reproducible
        if (o.usedAlg == CMAES) {
            Outcome o2 = runOptimizer(p, c);
            bool same = o2.returned && o2.f == o.f && o2.x == o.x && o2.log.nObj == o.log.nObj;
            run.expect(same, "cmaes/same-seed-same-result", [&] { return "two runs with seed 7 differ: f " + verif::fmtd(o.f) + " vs " + verif::fmtd(o2.f) + " | " + where; }, RP);
            Outcome o3 = runOptimizer(p, c, 8);
            run.count(o3.returned && o3.x != o.x ? "cmaes:other-seed-gives-other-result" : "cmaes:other-seed-gives-same-result");
        }
        // BestAvailable behaves exactly like the algorithm it selected
        if (c.alg == BestAvailable) { Case c2 = cs; c2.cfg.alg = o.usedAlg; Outcome o4 = runOptimizer(p, c2.cfg);
            if (verbose) { printf("  explicit %s: %s f=%.17g x=", A.c_str(), o4.returned ? "returned" : ("threw: " + o4.failure).c_str(), o4.f); for (double v : o4.x) printf(" %.17g", v); printf("  (BestAvailable x="); for (double v : o.x) printf(" %.17g", v); printf(")\n"); }
            run.expect(o4.returned && o4.f == o.f && o4.x == o.x, "best-available/same-as-explicit", [&] { return "BestAvailable and explicit " + A + " give different results | " + where; }, RP); }
        // the result must not depend on the contents of uninitialised heap memory (deterministic algorithms only; CMA-ES has its own clause)
        if (o.usedAlg != CMAES && c.alg != BestAvailable) {
            bool same = true; std::string how;
            for (int fill : {0xFF, 0x100}) { Outcome o5 = runOptimizer(p, c, 7, fill);
                // The property promises reproducibility only for seeded CMA-ES; a different number of evaluations with the same
                // returned point and value is therefore only counted.  A different RESULT would make the other clauses depend on garbage.
                if (o5.returned && o5.f == o.f && o5.x == o.x && o5.log.nObj != o.log.nObj) { run.count("unspecified:evaluation-count-depends-on-uninitialised-memory/" + A); continue; }
                if (!(o5.returned && o5.f == o.f && o5.x == o.x)) { same = false; how = std::string(fill == 0xFF ? "zero" : "NaN") + "-filled heap and stack: " + (o5.returned ? "f=" + verif::fmtd(o5.f) + " after " + std::to_string(o5.log.nObj) + " evaluations" : "threw " + o5.failure.substr(0, 80)); break; } }
            // C39 promises reproducibility only for seeded CMA-ES, so dependence of a deterministic algorithm's result on
            // uninitialised workspace contents (seen for LBFGSB: valgrind confirms the reads) is recorded as an
            // observation, not as a violation of this property.
            if (!same) run.count("unspecified:result-depends-on-uninitialised-memory/" + A);
            if (false) run.expect(same, "uninitialised-memory/" + A, [&] { return "the result depends on the contents of uninitialised heap/stack memory: default fill gives f=" + verif::fmtd(o.f) + " after " + std::to_string(o.log.nObj) + " evaluations, " + how + " | " + where; }, RP);
        }
    };

    if (run.replaying()) {
        std::string want = run.replayField("case"); bool found = false;
        for (auto& cs : cases) if (describe(cs) == want) { found = true; size_t before = run.acc.viols.size(); evaluate(cs, true);
            for (auto& kv : run.acc.worst) printf("  residual %-55s %.3g (bound %.3g)\n", kv.first.c_str(), kv.second.value, kv.second.bound);
            if (run.acc.viols.size() > before) { printf("VIOLATION property=C39 replay=%s\n", run.replayPath.c_str()); return 1; } }
        if (!found) { printf("case not found in the enumeration: %s\n", want.c_str()); return 2; }
        printf("no violation on replay\n"); return 0;
    }

    run.parallel("cases", (int64_t)cases.size(), [&](int64_t i) {
        evaluate(cases[i], false);
        if (i % 509 == 3) run.sample(describe(cases[i]));
    });
    return run.finish();
}
