// C43 -- Assembly and fitting results satisfy what they report.
// Engine E3.  Systems: every C08 single-constraint system (engine/consmodels.h) and a four-bar loop (three Pin links closed
// by a Ball constraint).  A reachable reference configuration q* is produced by assembling a generic state; marker /
// orientation-sensor / coordinate observations are generated from q*.  Enumerated: goal kind {none, Markers on every
// body, Markers on a subset, OrientationSensors, QValue} x goal weights {uniform, non-uniform} x lock {none,
// Assembler::lockMobilizer on each mobilizer, MobilizedBody::lock in the state} x bounds on a 1-dof coordinate {none,
// containing q*, excluding q*} x start {another feasible configuration, q* + small, q* + large} x tolerance
// {default, accuracy 1e-6 / tolerance 1e-7}.
// Oracle when Assembler::assemble(state) returns (does not throw):
//   * infinity norm of the holonomic errors of the returned state <= getErrorToleranceInUse(); quaternions unit length
//   * locked mobilizers: coordinates kept (bitwise for non-quaternion coordinates; rotation kept for quaternions, which the
//     Assembler documents to convert through Euler angles); state-locked (prescribed) coordinates likewise
//   * bounds respected (interior-point bound relaxation 1e-6 allowed)
//   * feasible start: reported goal <= initial goal, and the harness's own misfit measure does not increase
//   * reachable goal (no excluding bound), small perturbation: the harness's misfit measure ~ 0
//   * returned value == calcCurrentGoal(); u, time untouched
// ObservedPointFitter::findBestFit on the same systems (stations = the markers): returned RMS = harness RMS of the
// returned state, <= RMS at the start, ~0 for the small perturbation; LocalEnergyMinimizer::minimizeEnergy on systems with
// gravity + springs: potential energy does not increase, holonomic errors stay small.
#include "Simbody.h"
#include "verif.h"
#include "models.h"
#include "consmodels.h"
#include "refkit.h"

using namespace SimTK;
using ref::LD;

std::string mb::nodeTypeName(const mb::Model&, int) { return ""; }

#include <new>
void* operator new(std::size_t n) { void* p = std::malloc(n ? n : 1); if (!p) throw std::bad_alloc(); std::memset(p, 0xFF, n); return p; }
void* operator new[](std::size_t n) { void* p = std::malloc(n ? n : 1); if (!p) throw std::bad_alloc(); std::memset(p, 0xFF, n); return p; }
void operator delete(void* p) noexcept { std::free(p); }
void operator delete[](void* p) noexcept { std::free(p); }
void operator delete(void* p, std::size_t) noexcept { std::free(p); }
void operator delete[](void* p, std::size_t) noexcept { std::free(p); }

// ---------------------------------------------------------------- tolerances (calibration: notes/C43.md)
static const double TOL_REL = 1e-9, TOL_ABS = 1e-12;   // recomputed error norm vs tolerance (Euler -> quaternion conversion round-off)
static const double BOUND_SLACK = 1e-6;                // interior-point bound relaxation (Ipopt bound_relax_factor 1e-8 relative; generous)
static const double REACH_TOL_TIGHT = 5e-3;            // harness misfit (RMS distance / angle / |dq|) for a reachable goal from a nearby start, accuracy 1e-6
static const double REACH_TOL_DEFAULT = 0.05;          // ... at the default accuracy 1e-3 (the start misfit is about 0.1; worst observed 0.0098)
static const double GOAL_SLACK = 1e-9;

// ---------------------------------------------------------------- instance table (table 0 / 1 of harness/C08.cpp)
static const int NINST = 20;
static cons::ConsSpec instanceSpec(int i, int variantList) {
    using namespace cons;
    static const int tab[NINST][5] = {
        {CRod, ASiblings, 0, 0, 0}, {CBall, AGroundBody, 1, 1, 0}, {CWeld, AViaGround, 0, 2, 0}, {CPointInPlane, AAncDesc2, 0, 0, 0},
        {CPointOnLine, AParentChild, 1, 1, 0}, {CConstantAngle, ASiblings, 0, 2, 1}, {CConstantOrientation, AGroundBody, 0, 1, 0}, {CNoSlip1D, ASiblings, 0, 0, 2},
        {CConstantCoordinate, AAncDesc2, 0, 0, 0}, {CConstantSpeed, AParentChild, 0, 0, 0}, {CConstantAcceleration, ASiblings, 0, 0, 0}, {CCoordinateCoupler, AParentChild, 0, 0, 1},
        {CSpeedCoupler, AAncDesc2, 0, 0, 0}, {CPrescribedMotion, AViaGround, 0, 0, 1}, {CPointOnPlaneContact, AGroundBody, 0, 2, 0}, {CSphereOnPlaneContact, AViaGround, 1, 0, 1},
        {CSphereOnSphereContact, AParentChild, 0, 2, 1}, {CLineOnLineContact, ASiblings, 1, 1, 1}, {CCustomRod, ASiblings, 0, 0, 0}, {CCustomConstantSpeed, AParentChild, 0, 0, 0}};
    static const int tab2[NINST][5] = {
        {CRod, AAncDesc2, 1, 2, 0}, {CBall, ASiblings, 0, 0, 0}, {CWeld, AGroundBody, 1, 1, 0}, {CPointInPlane, AViaGround, 1, 1, 0},
        {CPointOnLine, ASiblings, 0, 2, 0}, {CConstantAngle, AAncDesc2, 1, 0, 0}, {CConstantOrientation, AViaGround, 1, 2, 0}, {CNoSlip1D, AGroundBody, 0, 1, 1},
        {CConstantCoordinate, AGroundBody, 0, 0, 0}, {CConstantSpeed, ASiblings, 0, 0, 0}, {CConstantAcceleration, AViaGround, 0, 0, 0}, {CCoordinateCoupler, ASiblings, 1, 0, 0},
        {CSpeedCoupler, AParentChild, 0, 0, 2}, {CPrescribedMotion, AAncDesc2, 0, 0, 0}, {CPointOnPlaneContact, ASiblings, 1, 0, 0}, {CSphereOnPlaneContact, AAncDesc2, 0, 2, 0},
        {CSphereOnSphereContact, AGroundBody, 1, 0, 1}, {CLineOnLineContact, AViaGround, 0, 2, 0}, {CCustomRod, AAncDesc2, 1, 2, 0}, {CCustomConstantSpeed, ASiblings, 0, 0, 0}};
    const int* t = variantList ? tab2[i] : tab[i];
    ConsSpec cs; cs.type = t[0]; cs.attach = t[1]; cs.swap = t[2]; cs.lat = t[3]; cs.var = t[4];
    return cs;
}

static bool sameBits(Real a, Real b) { return std::memcmp(&a, &b, sizeof(Real)) == 0; }
static bool allFinite(const Vector& v) { for (int i = 0; i < v.size(); ++i) if (!std::isfinite(v[i])) return false; return true; }

// ---------------------------------------------------------------- system under test
struct Sut {
    std::unique_ptr<mb::Model> M;
    std::string name;
    int boundBody = -1;            // a 1-dof mobilizer whose coordinate is bounded / given a QValue
    int stateLockBody = -1;        // body locked with MobilizedBody::lock for lock pattern "state"
    bool fourbar = false;
    bool withSprings = false;
};
static bool isQuatBody(const mb::Model& M, int b) { return !M.euler && mb::kindHasQuaternion(M.specs[b].kind); }

static void buildConstrained(Sut& S, int host, bool euler, int inst, int list, bool& legal) {
    S.M = mb::build(cons::hostSpecs(host), euler);
    cons::ConsSpec cs = instanceSpec(inst, list);
    legal = cons::legalCombination(cs, host, euler);
    if (!legal) return;
    cons::addConstraint(*S.M, cs, host);
    static const int bb[3] = {2, 3, 1};      // a Pin / Pin / Slider body of host 0 / 1 / 2
    S.boundBody = bb[host]; S.stateLockBody = 4;
    S.name = "host=" + std::to_string(host) + (euler ? " euler" : " quat") + " list=" + std::to_string(list) + " {" + cs.str() + "}";
}
static void buildFourBar(Sut& S, bool ballClosure) {
    S.M.reset(new mb::Model()); mb::Model& M = *S.M; M.euler = false; S.fourbar = true;
    const Real a = 0.3, b = 0.8, d = 0.9;
    Body::Rigid link(MassProperties(1.0, Vec3(0.2, 0, 0), Inertia(0.1, 0.2, 0.2)));
    MobilizedBody::Pin crank(M.matter.updGround(), Transform(), link, Transform());
    MobilizedBody::Pin coupler(crank, Transform(Vec3(a, 0, 0)), link, Transform());
    MobilizedBody::Pin rocker(M.matter.updGround(), Transform(Vec3(d, 0, 0)), link, Transform());
    M.bodies = {crank, coupler, rocker};
    mb::BodySpec p; p.kind = mb::KPin; M.specs = {p, p, p};
    if (ballClosure) Constraint::Ball(coupler, Vec3(b, 0, 0), rocker, Vec3(0.6, 0, 0));
    else Constraint::Rod(crank, Vec3(a, 0, 0), rocker, Vec3(0.6, 0, 0), b), M.bodies.resize(3);
    S.boundBody = 0; S.stateLockBody = 2;
    S.name = std::string("four-bar(") + (ballClosure ? "Ball closure" : "Rod coupler") + ")";
}
static void addSprings(mb::Model& M) {
    Force::UniformGravity(M.forces, M.matter, Vec3(0.3, -9.8, 1.1));
    for (size_t b = 0; b < M.bodies.size(); ++b) Force::TwoPointLinearSpring(M.forces, M.matter.updGround(), Vec3(0.2 * b, 0.5, -0.1 * b), M.bodies[b], Vec3(0.1, 0, 0.05), 40 + 10 * b, 0.4);
}

// marker stations / sensor frames per body (fixed tables)
static Vec3 markerStation(int k) { static const Vec3 t[3] = {Vec3(0.3, 0, 0), Vec3(-0.1, 0.35, 0.05), Vec3(0.05, -0.2, 0.4)}; return t[k % 3]; }
static Rotation sensorFrame(int b) { return Rotation(0.3 + 0.2 * b, UnitVec3(1, -0.5 * b, 0.7)); }
static Real markerWeight(int pattern, int i) { static const Real t[5] = {1, 5, 0.3, 2, 0.7}; return pattern ? t[i % 5] : 1; }

// harness-side misfit measures (independent of the library's goal arithmetic)
struct Obs {
    std::vector<int> mBody; std::vector<Vec3> mStation, mObs; std::vector<Real> mW;      // markers
    std::vector<int> sBody; std::vector<Rotation> sFrame, sObs; std::vector<Real> sW;   // orientation sensors
    int qBody = -1; Real qValue = 0;                                                     // QValue
};
static LD misfit(const mb::Model& M, const State& s, const Obs& o) {   // weighted RMS of distances / angles / coordinate error
    LD num = 0, den = 0;
    for (size_t i = 0; i < o.mBody.size(); ++i) { const Vec3 p = M.bodies[o.mBody[i]].getBodyTransform(s) * o.mStation[i]; num += (LD)o.mW[i] * (LD)(p - o.mObs[i]).normSqr(); den += o.mW[i]; }
    for (size_t i = 0; i < o.sBody.size(); ++i) {
        const Rotation R = M.bodies[o.sBody[i]].getBodyRotation(s) * o.sFrame[i];
        const Rotation D = ~o.sObs[i] * R; const Vec4 aa = D.convertRotationToAngleAxis();
        num += (LD)o.sW[i] * (LD)aa[0] * (LD)aa[0]; den += o.sW[i];
    }
    if (o.qBody >= 0) { const LD e = M.bodies[o.qBody].getOneQ(s, 0) - o.qValue; num += e * e; den += 1; }
    return den > 0 ? sqrtl(num / den) : 0;
}

struct Case { int goal, weights, lock, bounds, start, tol; };
static std::string caseStr(const Case& c) {
    static const char* g[] = {"no-goal", "markers-all", "markers-subset", "orientation-sensors", "qvalue"};
    static const char* b[] = {"unbounded", "bounds-contain-q*", "bounds-exclude-q*"};
    static const char* st[] = {"start=other-feasible", "start=q*+small", "start=q*+large"};
    std::string lk = c.lock == 0 ? "no-lock" : c.lock == 100 ? "state-lock" : "lockMobilizer(R" + std::to_string(c.lock - 1) + ")";
    return std::string(g[c.goal]) + (c.weights ? " weights=nonuniform " : " weights=1 ") + lk + " " + b[c.bounds] + " " + st[c.start] + (c.tol ? " tol=1e-7" : " tol=default");
}

// reference and start configurations for a system; false if q* cannot be produced
struct Configs { State qstar, other; };
static bool makeConfigs(Sut& S, int vs, Configs& C, std::string& err) {
    mb::Model& M = *S.M;
    auto assembleFrom = [&](int valueSet, State& out) {
        State s = S.fourbar ? (M.system.realizeTopology(), M.system.getDefaultState()) : mb::makeState(M, 1, valueSet);
        if (S.fourbar) { M.system.realizeModel(s); s.updQ()[0] = 0.7 + 0.4 * valueSet; s.updQ()[1] = -0.5; s.updQ()[2] = 1.2; }
        s.setTime(0.3);
        if (!cons::projectState(M, s, 1e-10, true, false, &err)) return false;
        out = s; return true;
    };
    return assembleFrom(vs, C.qstar) && assembleFrom(vs + 1, C.other);
}

static void runAssemblerCase(verif::Run& run, Sut& S, const Configs& C, const Case& c, int vs, const std::string& desc) {
    mb::Model& M = *S.M; const int nb = (int)M.bodies.size();
    auto where = [&] { return desc; };
    auto rp = [&] { return run.replayHeader() + desc + "\n"; };
    run.evaluationDistinct(true);
    // ---- observations from q*
    M.system.realize(C.qstar, Stage::Position);
    Obs o;
    if (c.goal == 1 || c.goal == 2) {
        int i = 0;
        for (int b = 0; b < nb; ++b) { if (c.goal == 2 && !(b == 1 || b == 3 || nb <= 3 && b == 0)) continue; for (int k = 0; k < (c.goal == 2 ? 2 : 3); ++k, ++i) { o.mBody.push_back(b); o.mStation.push_back(markerStation(k + b)); o.mObs.push_back(M.bodies[b].getBodyTransform(C.qstar) * markerStation(k + b)); o.mW.push_back(markerWeight(c.weights, i)); } }
    } else if (c.goal == 3) {
        for (int b = 0; b < nb; ++b) { o.sBody.push_back(b); o.sFrame.push_back(sensorFrame(b)); o.sObs.push_back(M.bodies[b].getBodyRotation(C.qstar) * sensorFrame(b)); o.sW.push_back(markerWeight(c.weights, b)); }
    } else if (c.goal == 4) { o.qBody = S.boundBody; o.qValue = M.bodies[S.boundBody].getOneQ(C.qstar, 0); }
    // ---- start state
    const int lockedBody = c.lock == 0 ? -1 : c.lock == 100 ? S.stateLockBody : c.lock - 1;
    State s = c.start == 0 ? C.other : C.qstar;
    if (c.start > 0) {
        const Real size = c.start == 1 ? 0.05 : 0.6;
        for (int b = 0; b < nb; ++b) {
            Vector q = M.bodies[b].getQAsVector(s);
            for (int i = 0; i < q.size(); ++i) q[i] += size * mb::qv(vs + 2, i + 2 * b);
            if (isQuatBody(M, b)) { Vec4 v(q[0], q[1], q[2], q[3]); v = v / v.norm(); for (int i = 0; i < 4; ++i) q[i] = v[i]; }
            M.bodies[b].setQFromVector(s, q);
        }
    }
    // locked mobilizers carry their q* value so that the goal stays reachable
    if (lockedBody >= 0) M.bodies[lockedBody].setQFromVector(s, M.bodies[lockedBody].getQAsVector(C.qstar));
    if (c.lock == 100) M.bodies[lockedBody].lock(s, Motion::Position);
    const Real qStarB = M.bodies[S.boundBody].getOneQ(C.qstar, 0);
    Real lo = -Infinity, hi = Infinity;
    if (c.bounds == 1) { lo = qStarB - 0.5; hi = qStarB + 0.5; } else if (c.bounds == 2) { lo = qStarB + 0.2; hi = qStarB + 0.7; }
    if (c.bounds && lockedBody != S.boundBody) {   // start inside the bounds (a bounded-coordinate start outside its range is a different question)
        Real q = M.bodies[S.boundBody].getOneQ(s, 0); q = std::min(std::max(q, lo + 0.05), hi - 0.05); M.bodies[S.boundBody].setOneQ(s, 0, q);
    }
    M.system.realize(s, Stage::Position);
    const Vector q0 = s.getQ(), u0 = s.getU(); const Real t0 = s.getTime();
    const LD misfit0 = misfit(M, s, o);
    const int mq = M.matter.getNumQuaternionsInUse(s), mh = s.getNQErr() - mq;
    Real err0 = 0; for (int i = 0; i < mh; ++i) err0 = std::max(err0, std::abs(s.getQErr()[i]));

    // ---- the assembler
    Assembler as(M.system);
    if (c.tol) { as.setAccuracy(1e-6); as.setErrorTolerance(1e-7); }
    const Real tol = as.getErrorToleranceInUse();
    run.expect(tol == (c.tol ? 1e-7 : 1e-4), "tolerance-in-use-as-documented", [&] { return "getErrorToleranceInUse()=" + verif::fmtd(tol) + " " + desc; }, rp);
    Markers* mk = nullptr; OrientationSensors* os = nullptr;
    const Real condWeight = c.weights ? 2.5 : 1.0;
    if (!o.mBody.empty()) {
        mk = new Markers(); Array_<Markers::MarkerIx> order;
        for (size_t i = 0; i < o.mBody.size(); ++i) order.push_back(mk->addMarker(M.bodies[o.mBody[i]].getMobilizedBodyIndex(), o.mStation[i], o.mW[i]));
        as.adoptAssemblyGoal(mk, condWeight);
        mk->defineObservationOrder(order);
        Array_<Vec3> obs; for (auto& v : o.mObs) obs.push_back(v); mk->moveAllObservations(obs);
    }
    if (!o.sBody.empty()) {
        os = new OrientationSensors(); Array_<OrientationSensors::OSensorIx> order;
        for (size_t i = 0; i < o.sBody.size(); ++i) order.push_back(os->addOSensor(M.bodies[o.sBody[i]].getMobilizedBodyIndex(), o.sFrame[i], o.sW[i]));
        as.adoptAssemblyGoal(os, condWeight);
        os->defineObservationOrder(order);
        Array_<Rotation> obs; for (auto& R : o.sObs) obs.push_back(R); os->moveAllObservations(obs);
    }
    if (o.qBody >= 0) as.adoptAssemblyGoal(new QValue(M.bodies[o.qBody].getMobilizedBodyIndex(), MobilizerQIndex(0), o.qValue), condWeight);
    if (c.lock > 0 && c.lock < 100) as.lockMobilizer(M.bodies[lockedBody].getMobilizedBodyIndex());
    if (c.bounds) as.restrictQ(M.bodies[S.boundBody].getMobilizedBodyIndex(), MobilizerQIndex(0), lo, hi);

    Real goal0 = NaN, goalRet = NaN; bool threw = false, degenerate = false; std::string msg;
    try {
        as.initialize(s);
        goal0 = as.calcCurrentGoal();
        if (mh > 0 && c.goal && c.start == 1) {   // are the holonomic equations rank-deficient w.r.t. the free q at the start (central differences)?
            const Vector f0 = as.getFreeQsFromInternalState(); const int nf = f0.size(); const int m = as.getInternalState().getNQErr();
            std::vector<std::vector<LD> > rows(m, std::vector<LD>(nf, 0));
            for (int i = 0; i < nf; ++i) { Vector f = f0; const Real h = 1e-5; f[i] += h; as.setInternalStateFromFreeQs(f); const Vector ep = as.getInternalState().getQErr(); f[i] -= 2 * h; as.setInternalStateFromFreeQs(f); const Vector em = as.getInternalState().getQErr();
                for (int r = 0; r < m; ++r) rows[r][i] = ((LD)ep[r] - (LD)em[r]) / (2 * h); }
            as.setInternalStateFromFreeQs(f0);
            LD big = 0; for (auto& r : rows) { LD n = 0; for (LD x : r) n += x * x; big = std::max(big, sqrtl(n)); }
            int rank = 0; std::vector<std::vector<LD> > Q;
            for (auto r : rows) {
                for (int pass = 0; pass < 2; ++pass) for (auto& q : Q) { LD d = 0; for (int i = 0; i < nf; ++i) d += q[i] * r[i]; for (int i = 0; i < nf; ++i) r[i] -= d * q[i]; }
                LD n = 0; for (LD x : r) n += x * x; n = sqrtl(n);
                if (n > 1e-6L * big && n > 1e-9L) { for (LD& x : r) x /= n; Q.push_back(r); ++rank; }
            }
            degenerate = rank < m;
            if (run.verbose) printf("    rank of d perr / d freeq = %d of %d\n", rank, m);
        }
        if (run.verbose && getenv("C43_GRADCHECK") && (os || mk)) {   // debugging aid: analytic goal gradient of the condition vs central differences
            AssemblyCondition* cnd = os ? (AssemblyCondition*)os : (AssemblyCondition*)mk;
            Vector g(as.getNumFreeQs()); cnd->calcGoalGradient(as.getInternalState(), g);
            const Vector f0 = as.getFreeQsFromInternalState(); Real worst = 0;
            for (int i = 0; i < f0.size(); ++i) { Vector f = f0; const Real h = 1e-6; Real gp, gm; f[i] += h; as.setInternalStateFromFreeQs(f); cnd->calcGoal(as.getInternalState(), gp); f[i] -= 2 * h; as.setInternalStateFromFreeQs(f); cnd->calcGoal(as.getInternalState(), gm);
                const Real fd = (gp - gm) / (2 * h); worst = std::max(worst, std::abs(fd - g[i])); printf("      dgoal/dfreeq[%d] (q%d): analytic %.6g  fd %.6g\n", i, (int)as.getQIndexOfFreeQ(Assembler::FreeQIndex(i)), g[i], fd); }
            as.setInternalStateFromFreeQs(f0); printf("      worst gradient discrepancy %.3g\n", worst);
        }
        goalRet = as.assemble();
        as.updateFromInternalState(s);
    } catch (const std::exception& e) { threw = true; msg = e.what(); }
    run.count(threw ? "assemble:threw" : "assemble:returned");
    if (threw) { run.count(std::string("assemble:threw/") + (c.start == 0 ? "feasible-start" : c.start == 1 ? "small" : "large")); if (run.verbose) printf("  %s: threw %s\n", desc.c_str(), msg.c_str()); return; }

    // ---- judge the returned state
    if (!run.expect(allFinite(s.getQ()), "assemble-returned-non-finite-q", where, rp)) return;
    run.expect(sameBits(t0, s.getTime()) && [&] { for (int i = 0; i < u0.size(); ++i) if (!sameBits(u0[i], s.getU()[i])) return false; return true; }(), "assemble-modified-u-or-time", where, rp);
    M.system.realize(s, Stage::Position);
    Real err1 = 0; for (int i = 0; i < mh; ++i) err1 = std::max(err1, std::abs(s.getQErr()[i]));
    run.residual("assemble:holonomic-error-norm/tolerance", (err1 - TOL_ABS) / tol, 1 + TOL_REL, where, rp);
    Real qn = 0; for (int b = 0; b < nb; ++b) if (isQuatBody(M, b)) { const Vector q = M.bodies[b].getQAsVector(s); qn = std::max(qn, std::abs(Vec4(q[0], q[1], q[2], q[3]).norm() - 1)); }
    run.residual("assemble:quaternion-length-error", qn, 1e-12, where, rp);
    // reported norm / goal
    const Real normRep = as.calcCurrentErrorNorm(), goalNow = as.calcCurrentGoal();
    run.expect(normRep <= tol, "assemble-returned-but-calcCurrentErrorNorm-above-tolerance", [&] { return "calcCurrentErrorNorm()=" + verif::fmtd(normRep) + " " + desc; }, rp);
    run.expect(sameBits(goalRet, goalNow), std::string("assemble-return-value-is-not-the-current-goal") + (c.lock == 100 ? "/state-locked-mobilizer" : ""), [&] { return "returned " + verif::fmtd(goalRet) + " calcCurrentGoal " + verif::fmtd(goalNow) + " " + desc; }, rp);
    // locks
    if (lockedBody >= 0) {
        const Vector qa = M.bodies[lockedBody].getQAsVector(s);
        State t = s; t.updQ() = q0; const Vector qb = M.bodies[lockedBody].getQAsVector(t);
        if (isQuatBody(M, lockedBody)) {
            M.system.realize(t, Stage::Position);
            const Rotation D = ~M.bodies[lockedBody].getMobilizerTransform(t).R() * M.bodies[lockedBody].getMobilizerTransform(s).R();
            Real dp = 0; for (int i = 4; i < qa.size(); ++i) dp = std::max(dp, std::abs(qa[i] - qb[i]));
            run.residual("locked-quaternion-mobilizer-moved", std::max((Real)std::abs(D.convertRotationToAngleAxis()[0]), dp), 1e-12, where, rp, c.lock == 100 ? "state-lock" : "lockMobilizer");
            bool bit = true; for (int i = 0; i < qa.size(); ++i) bit = bit && sameBits(qa[i], qb[i]);
            run.count(bit ? "locked-quaternion:bitwise-kept" : "locked-quaternion:kept-up-to-conversion-roundoff");
        } else {
            bool bit = true; for (int i = 0; i < qa.size(); ++i) bit = bit && sameBits(qa[i], qb[i]);
            run.expect(bit, std::string("locked-coordinates-changed/") + (c.lock == 100 ? "state-lock" : "lockMobilizer"), where, rp);
            if (!bit && run.verbose) { printf("    locked body R%d: before", lockedBody); for (int i = 0; i < qb.size(); ++i) printf(" %.17g", qb[i]); printf("  after"); for (int i = 0; i < qa.size(); ++i) printf(" %.17g", qa[i]); printf("  q*"); Vector qs = M.bodies[lockedBody].getQAsVector(C.qstar); for (int i = 0; i < qs.size(); ++i) printf(" %.17g", qs[i]); printf("\n"); }
        }
    }
    // bounds
    if (c.bounds) {
        const Real q = M.bodies[S.boundBody].getOneQ(s, 0);
        if (lockedBody == S.boundBody) run.count("bounds-on-a-locked-coordinate(not-judged)");
        else { run.residual("bound-violation", std::max({Real(0), lo - q, q - hi}), BOUND_SLACK, where, rp); if (q < lo || q > hi) run.count("bounds:outside-by-less-than-slack"); }
    }
    // goal no worse than at the start (demanded for a feasible start), harness measure likewise
    const LD misfit1 = misfit(M, s, o);
    const bool feasibleStart = err0 <= tol * (1 - 1e-9);
    if (c.goal) {
        if (feasibleStart) {
            run.count("goal:feasible-start");
            run.expect(goalRet <= goal0 * (1 + GOAL_SLACK) + 1e-300, std::string("goal-worse-than-at-feasible-start") + (c.lock == 100 ? "/state-locked-mobilizer" : ""), [&] { return "goal " + verif::fmtd(goal0) + " -> " + verif::fmtd(goalRet) + " " + desc; }, rp);
            run.residual("misfit-increase-from-feasible-start", (double)(misfit1 - misfit0), 1e-9, where, rp, c.lock == 100 ? "state-locked-mobilizer" : "");
        } else run.count(goalRet <= goal0 ? "goal:infeasible-start:not-worse" : "goal:infeasible-start:worse(allowed)");
        const bool reachable = c.bounds != 2;
        if (reachable && c.start == 1) {
            run.count("goal:reachable-near");
            const std::string sfx = std::string(c.tol ? "accuracy-1e-6" : "default-accuracy") + (degenerate ? "/constraint-jacobian-rank-deficient-in-the-free-q" : "") + (c.lock == 100 ? "/state-locked-mobilizer" : "");
            run.residual("misfit-for-reachable-goal(near-start)", (double)misfit1, c.tol ? REACH_TOL_TIGHT : REACH_TOL_DEFAULT, where, rp, sfx);
            if (degenerate) run.count("goal:reachable-near:degenerate-constraint-jacobian");
        }
        else if (reachable) run.count(misfit1 <= REACH_TOL_TIGHT ? "goal:reachable-far:reached" : "goal:reachable-far:local-minimum(not-judged)");
    }
    if (const char* df = getenv("C43_DUMP")) { FILE* f = fopen((std::string(df) + "." + std::to_string(getpid())).c_str(), "a"); if (f) { fprintf(f, "%d %d %d %d %d %d %.3g %.3g %.3g %.3g %.3g %d %s\n", c.goal, c.weights, c.lock, c.bounds, c.start, c.tol, err0, (double)misfit0, (double)misfit1, goal0, goalRet, degenerate ? -as.getNumGoalEvals() : as.getNumGoalEvals(), S.name.c_str()); fclose(f); } }
    run.outcome(verif::hashMix(verif::hashPod((float)err1), verif::hashPod((float)misfit1)));
    if (run.verbose) printf("  %s: err %.3g -> %.3g (tol %.3g) goal %.3g -> %.3g misfit %.3g -> %.3g [evals: goal %d grad %d err %d jac %d freeq %d]\n", desc.c_str(), err0, err1, tol, goal0, goalRet, (double)misfit0, (double)misfit1, as.getNumGoalEvals(), as.getNumGoalGradientEvals(), as.getNumErrorEvals(), as.getNumErrorJacobianEvals(), as.getNumFreeQs());
}

// ObservedPointFitter on the same system: stations on every body (3 each), targets from q*
static void runFitterCase(verif::Run& run, Sut& S, const Configs& C, int start, int weights, int vs, const std::string& desc) {
    mb::Model& M = *S.M; const int nb = (int)M.bodies.size();
    auto where = [&] { return desc; };
    auto rp = [&] { return run.replayHeader() + desc + "\n"; };
    run.evaluationDistinct(true);
    M.system.realize(C.qstar, Stage::Position);
    Array_<MobilizedBodyIndex> ix; Array_<Array_<Vec3> > st(nb), tg(nb); Array_<Array_<Real> > w(nb);
    Obs o; int k = 0;
    for (int b = 0; b < nb; ++b) { ix.push_back(M.bodies[b].getMobilizedBodyIndex()); for (int j = 0; j < 3; ++j, ++k) { st[b].push_back(markerStation(j + b)); tg[b].push_back(M.bodies[b].getBodyTransform(C.qstar) * markerStation(j + b)); w[b].push_back(markerWeight(weights, k));
        o.mBody.push_back(b); o.mStation.push_back(markerStation(j + b)); o.mObs.push_back(tg[b].back()); o.mW.push_back(w[b].back()); } }
    State s = start == 0 ? C.other : C.qstar;
    if (start > 0) for (int b = 0; b < nb; ++b) {
        Vector q = M.bodies[b].getQAsVector(s); for (int i = 0; i < q.size(); ++i) q[i] += (start == 1 ? 0.05 : 0.6) * mb::qv(vs + 2, i + 2 * b);
        if (isQuatBody(M, b)) { Vec4 v(q[0], q[1], q[2], q[3]); v = v / v.norm(); for (int i = 0; i < 4; ++i) q[i] = v[i]; }
        M.bodies[b].setQFromVector(s, q);
    }
    M.system.realize(s, Stage::Position);
    const LD m0 = misfit(M, s, o);
    Real ret = NaN; bool threw = false; std::string msg;
    try { ret = ObservedPointFitter::findBestFit(M.system, s, ix, st, tg, w, 1e-4); } catch (const std::exception& e) { threw = true; msg = e.what(); }
    run.count(threw ? "fitter:threw" : "fitter:returned");
    if (threw) { if (run.verbose) printf("  %s: threw %s\n", desc.c_str(), msg.c_str()); return; }
    if (!run.expect(allFinite(s.getQ()) && std::isfinite(ret), "fitter-returned-non-finite-result", where, rp)) return;
    M.system.realize(s, Stage::Position);
    const LD m1 = misfit(M, s, o);
    run.residual("fitter:returned-rms-vs-harness-rms", (double)fabsl(ret - m1), 1e-7, where, rp);
    if (start == 0) run.residual("fitter:rms-increase-from-feasible-start", (double)(m1 - m0), 1e-6, where, rp);
    const int mq = M.matter.getNumQuaternionsInUse(s), mh = s.getNQErr() - mq;
    Real err1 = 0; for (int i = 0; i < mh; ++i) err1 = std::max(err1, std::abs(s.getQErr()[i]));
    run.residual("fitter:holonomic-error-norm", err1, 1e-3, where, rp);
    if (start == 1) run.residual("fitter:rms-for-reachable-targets(near-start)", (double)m1, 5e-3, where, rp, S.name.find('{') != std::string::npos ? S.name.substr(S.name.find('{') + 1, S.name.find('/') - S.name.find('{') - 1) : S.name);
    else run.count(m1 <= 5e-3 ? "fitter:far-start:reached" : "fitter:far-start:local-minimum(not-judged)");
    run.outcome(verif::hashMix(11, verif::hashPod((float)m1)));
    if (run.verbose) printf("  %s: rms %.3g -> %.3g returned %.3g qerr %.3g\n", desc.c_str(), (double)m0, (double)m1, ret, err1);
}

static void runMinimizerCase(verif::Run& run, Sut& S, const Configs& C, int start, Real tol, int vs, const std::string& desc) {
    mb::Model& M = *S.M; const int nb = (int)M.bodies.size();
    auto where = [&] { return desc; };
    auto rp = [&] { return run.replayHeader() + desc + "\n"; };
    run.evaluationDistinct(true);
    State s = start == 0 ? C.other : C.qstar;
    M.system.realize(s, Stage::Dynamics);
    const Real pe0 = M.system.calcPotentialEnergy(s);
    bool threw = false; std::string msg;
    try { LocalEnergyMinimizer::minimizeEnergy(M.system, s, tol); } catch (const std::exception& e) { threw = true; msg = e.what(); }
    run.count(threw ? "minimizer:threw" : "minimizer:returned");
    if (threw) { if (run.verbose) printf("  %s: threw %s\n", desc.c_str(), msg.c_str()); return; }
    if (!run.expect(allFinite(s.getQ()), "minimizer-returned-non-finite-q", where, rp)) return;
    M.system.realize(s, Stage::Dynamics);
    const Real pe1 = M.system.calcPotentialEnergy(s);
    run.residual("minimizer:potential-energy-increase", (pe1 - pe0) / (1 + std::abs(pe0)), 1e-9, where, rp);
    const int mq = M.matter.getNumQuaternionsInUse(s), mh = s.getNQErr() - mq;
    Real err1 = 0; for (int i = 0; i < mh; ++i) err1 = std::max(err1, std::abs(s.getQErr()[i]));
    run.residual("minimizer:holonomic-error-norm", err1, 1e-3, where, rp);
    if (pe1 < pe0) run.count("minimizer:energy-decreased");
    run.outcome(verif::hashMix(13, verif::hashPod((float)pe1)));
    if (run.verbose) printf("  %s: PE %.6g -> %.6g qerr %.3g\n", desc.c_str(), pe0, pe1, err1);
    (void)nb; (void)vs;
}

int main(int argc, char** argv) {
    verif::Run run("C43", argc, argv);
    run.setDeadline(900, 3600);
    if (const char* mv = getenv("C43_MAXV")) run.maxViolsPerKey = atoi(mv);
    const bool th = run.thorough();
    const int vs = (int)(((run.seed % 3) + 3) % 3);
    int64_t onlyLo = 0, onlyHi = INT64_MAX;
    if (const char* o = getenv("C43_ONLY")) { sscanf(o, "%ld:%ld", &onlyLo, &onlyHi); run.exhaustive = false; }
    run.rule = "E3. systems: the 20 canonical single-constraint systems of the C08 instance tables (quick: table 0 on host tree (i mod 3); thorough: both tables on all three host trees) x quaternion/Euler, and two four-bar loops (Pin links closed by a Ball constraint / by a Rod). q* = generic state (value set seed%3, four-bar: fixed angles) assembled by System::projectQ (1e-10); second feasible configuration from value set seed%3+1. "
               "Assembler cases: goal {none, Markers on every body (3 each), Markers on two bodies (2 each), OrientationSensors on every body, QValue on a 1-dof coordinate} x weights {all 1, non-uniform marker weights + goal weight 2.5} x lock {none, Assembler::lockMobilizer(Rk) for every k, MobilizedBody::lock on one body} x bounds on a 1-dof coordinate {none, [q*-0.5,q*+0.5], [q*+0.2,q*+0.7]} x start {other feasible configuration, q*+0.05 pattern, q*+0.6 pattern} x tolerance {default 1e-4, accuracy 1e-6 + tolerance 1e-7} (quick: non-uniform weights only with the all-body marker and sensor goals; the far start only at the default tolerance); locked mobilizers start at their q* value, bounded coordinates start inside their range. "
               "ObservedPointFitter: stations on every body x start(3) x weights(2). LocalEnergyMinimizer: the same systems with gravity and a spring from Ground to every body x start {other, q*} x tolerance {1e-3, 1e-6}. distinct = distinct tuple; every case is non-trivial (an optimisation is run).";
    run.assumptions = {"continuous values only from fixed tables", "q* and the second feasible configuration are produced by the library's projection and verified by cons::projectState", "exceptions (AssembleFailed, OptimizerFailed) are allowed outcomes and counted",
        "goal monotonicity is demanded only from a feasible start (the Assembler documents that constraints take precedence)", "a reachable goal must be reached (harness misfit <= 5e-3 at accuracy 1e-6, <= 0.05 at the default accuracy) only from the nearby start; far starts may end in local minima (counted)",
        "locked quaternion mobilizers: rotation kept to 1e-12 (the Assembler works in Euler angles and converts back)", "bounds: 1e-6 slack for interior-point bound relaxation",
        "ObservedPointFitter / LocalEnergyMinimizer have no constraint tolerance parameter: holonomic errors judged against 1e-3"};

    struct SysDef { int kind, inst, list, host, euler; };   // kind 0 constrained, 1 four-bar(ball), 2 four-bar(rod)
    std::vector<SysDef> systems;
    if (th) { for (int list = 0; list < 2; ++list) for (int h = 0; h < 3; ++h) for (int e = 0; e < 2; ++e) for (int i = 0; i < NINST; ++i) systems.push_back({0, i, list, h, e}); }
    else for (int e = 0; e < 2; ++e) for (int i = 0; i < NINST; ++i) systems.push_back({0, i, 0, i % 3, e});
    systems.push_back({1, 0, 0, 0, 0}); systems.push_back({2, 0, 0, 0, 0});

    auto build = [&](const SysDef& sd, Sut& S, bool springs) {
        bool legal = true;
        if (sd.kind == 0) buildConstrained(S, sd.host, sd.euler != 0, sd.inst, sd.list, legal); else buildFourBar(S, sd.kind == 1);
        if (legal && springs) { addSprings(*S.M); S.withSprings = true; }
        return legal;
    };
    // ------------------------------------------------------------ Assembler
    {
        std::vector<int> locks = {0, 1, 2, 3, 4, 5, 100};
        verif::Odometer od; od.dim("goal", 5); od.dim("lock", (int64_t)locks.size()); od.dim("system", (int64_t)systems.size());
        run.parallel("assembler", od.size(), [&](int64_t idx) {
            if (idx < onlyLo || idx >= onlyHi) return;
            auto d = od.digits(idx); const SysDef& sd = systems[d[2]];
            Sut S; if (!build(sd, S, false)) { run.count("skipped:illegal-instance"); return; }
            int lock = locks[d[1]];
            if (lock > 0 && lock < 100 && lock - 1 >= (int)S.M->bodies.size()) { run.count("skipped:no-such-mobilizer"); return; }
            Configs C; std::string err;
            bool ok = false; try { ok = makeConfigs(S, vs, C, err); } catch (const std::exception& e) { err = e.what(); }
            if (!ok) { run.count("skipped:reference-configuration-not-assemblable"); if (run.verbose) printf("q* failed: %s\n", err.c_str()); return; }
            run.count("items-run:assembler");
            int n = 0;
            for (int w = 0; w < 2; ++w) for (int b = 0; b < 3; ++b) for (int st = 0; st < 3; ++st) for (int tl = 0; tl < 2; ++tl) {
                Case c{d[0], w, lock, b, st, tl};
                if (c.goal == 0 && w) continue;   // no goal: weights irrelevant
                if (!th && w && !(c.goal == 1 || c.goal == 3)) continue;   // quick: non-uniform weights with the all-body marker / sensor goals only
                if (!th && st == 2 && tl == 1) continue;                   // quick: the far start only at the default tolerance
                const std::string desc = S.name + " " + caseStr(c) + " case=" + std::to_string(n++) + " [" + od.describe(idx) + "]";
                try { runAssemblerCase(run, S, C, c, vs, desc); } catch (const std::exception& e) { run.violation("exception-outside-assemble", std::string(e.what()) + " at " + desc, run.replayHeader() + desc + "\n"); }
            }
            if (idx % 53 == 0) run.sample(S.name + " " + od.describe(idx));
        });
    }
    // ------------------------------------------------------------ ObservedPointFitter and LocalEnergyMinimizer
    {
        verif::Odometer od; od.dim("tool", 2); od.dim("system", (int64_t)systems.size());
        run.parallel("fitter-minimizer", od.size(), [&](int64_t idx) {
            if (idx < onlyLo || idx >= onlyHi) return;
            auto d = od.digits(idx); const SysDef& sd = systems[d[1]];
            Sut S; if (!build(sd, S, d[0] == 1)) { run.count("skipped:illegal-instance"); return; }
            Configs C; std::string err;
            bool ok = false; try { ok = makeConfigs(S, vs, C, err); } catch (const std::exception& e) { err = e.what(); }
            if (!ok) { run.count("skipped:reference-configuration-not-assemblable"); return; }
            run.count(d[0] ? "items-run:minimizer" : "items-run:fitter");
            try {
                if (d[0] == 0) { for (int st = 0; st < 3; ++st) for (int w = 0; w < 2; ++w) runFitterCase(run, S, C, st, w, vs, S.name + " ObservedPointFitter start=" + std::to_string(st) + " weights=" + std::to_string(w) + " [" + od.describe(idx) + "]"); }
                else { for (int st = 0; st < 2; ++st) for (int tl = 0; tl < 2; ++tl) runMinimizerCase(run, S, C, st, tl ? 1e-6 : 1e-3, vs, S.name + " LocalEnergyMinimizer start=" + std::to_string(st) + " tol=" + (tl ? "1e-6" : "1e-3") + " [" + od.describe(idx) + "]"); }
            } catch (const std::exception& e) { run.violation("exception-outside-fitter-minimizer", std::string(e.what()) + " at " + S.name, run.replayHeader() + S.name + "\n"); }
            if (idx % 17 == 0) run.sample(S.name + " " + od.describe(idx));
        });
    }
    return run.finish();
}
