// C27 -- Rotations and transforms are proper and conversions round-trip.
// Engine E3 (bounded-exhaustive configuration enumeration): an angle alphabet that sits on
// both sides of every near-singular branch of Rotation.cpp x all 27 axis triples (the 12
// proper sequences and the 15 degenerate ones the API also accepts) x body/space, two-angle,
// one-angle, angle-axis, quaternion, two-axis construction, nearly-orthogonal input, and the
// composition / inversion / re-expression algebra of Rotation, InverseRotation, Transform,
// InverseTransform, UnitVec, Quaternion -- all in float and double.  Reference = plain
// long-double 3x3 / 4x4 arithmetic of engine/refmath.h.
#include "SimTKcommon.h"
#include "verif.h"
#include "refmath.h"

#include <type_traits>

using namespace SimTK;
using ref::LD; using ref::M3; using ref::V3;

// ---------------------------------------------------------------- precision traits
template <class P> struct Prec;
template <> struct Prec<double> {
    static const char* tag() { return "d"; }
    static double eps() { return 2.220446049250313e-16; }
    static double angEps() { return 1e-7; }
};
template <> struct Prec<float> {
    static const char* tag() { return "f"; }
    static double eps() { return 1.1920928955078125e-07; }
    static double angEps() { return 1e-3; }
};
// 4500 eps: 1.0e-12 in double (calibrated worst 8e-16), 5.4e-4 in float
template <class P> static double TOL() { return 4500 * Prec<P>::eps(); }
// what any sensible treatment of the coordinate singularity achieves for a valid rotation
template <class P> static double LOOSE() { return 30 * std::sqrt(Prec<P>::eps()); }

static std::string fmt(const char* f, ...) __attribute__((format(printf, 1, 2)));
static std::string fmt(const char* f, ...) {
    char b[1200]; va_list ap; va_start(ap, f); vsnprintf(b, sizeof b, f, ap); va_end(ap); return b;
}
static const char AX[4] = "XYZ";
// oracle / counter name with the precision tag appended, built once per call site and precision
#define NM(lit) ([]() -> const std::string& { static const std::string s_ = std::string(lit) + "." + Prec<P>::tag(); return s_; }())

// ---------------------------------------------------------------- alphabets
template <class P> static P stepDown(P x, int k) { for (int i = 0; i < k; ++i) x = std::nextafter(x, P(0)); return x; }

static const double GENERIC_ANGLES[3][2] = {{0.7, -1.9}, {2.6, -0.3}, {1.2, -2.8}};

template <class P> static std::vector<double> thetaAlphabet(const verif::Run& run, bool extras) {
    const bool small = false;
    const P pi = NTraits<P>::getPi(), h = pi / 2, e = (P)Prec<P>::angEps();
    std::vector<P> v = {P(0), e, -e, pi / 6, -pi / 6, h - e, -(h - e), h, -h, h + e, -(h + e), pi - e, -(pi - e), pi, -pi};
    if (!small) {
        // values straddling the `Rsum > 4*Eps` branches: |cos| resp. |sin| just below / just above 8.9e-16
        for (int k : {3, 4}) { v.push_back(stepDown(h, k)); v.push_back(-stepDown(h, k)); }
        for (P t : {P(8e-16), P(1e-15)}) { v.push_back(t); v.push_back(-t); }
        v.push_back(stepDown(pi, 1)); v.push_back(stepDown(pi, 2));
    }
    int s0 = (int)(((run.seed % 3) + 3) % 3);
    for (int s = 0; s < 3; ++s) {
        if (!run.thorough() && s != s0) continue;
        v.push_back((P)GENERIC_ANGLES[s][0]); v.push_back((P)GENERIC_ANGLES[s][1]);
    }
    if (run.thorough() && extras) {
        for (int k : {1, 2, 5, 6, 40}) { v.push_back(stepDown(h, k)); v.push_back(-stepDown(h, k)); }
        for (P t : {P(1e-12), P(1e-9), P(1e-5)}) { v.push_back(h - t); v.push_back(-(h - t)); v.push_back(t); v.push_back(pi - t); }
        v.push_back(stepDown(pi, 3)); v.push_back(-stepDown(pi, 2));
    }
    std::vector<double> out;
    for (P x : v) { bool dup = false; for (double y : out) if (y == (double)x) dup = true; if (!dup) out.push_back((double)x); }
    return out;
}

// the 26 lattice directions {-1,0,1}^3 \ {0}
static std::vector<V3> latticeDirs() {
    std::vector<V3> d;
    for (int x = -1; x <= 1; ++x) for (int y = -1; y <= 1; ++y) for (int z = -1; z <= 1; ++z)
        if (x || y || z) d.push_back(ref::vec(x, y, z));
    return d;
}
// the 24 proper rotations of the cube (signed permutation matrices with det +1), exact
static std::vector<M3> cubeRotations() {
    std::vector<M3> out;
    int perm[6][3] = {{0, 1, 2}, {0, 2, 1}, {1, 0, 2}, {1, 2, 0}, {2, 0, 1}, {2, 1, 0}};
    for (auto& p : perm) for (int s = 0; s < 8; ++s) {
        M3 m = ref::zero3();
        for (int i = 0; i < 3; ++i) m.a[i][p[i]] = ((s >> i) & 1) ? -1 : 1;
        if (ref::det(m) > 0) out.push_back(m);
    }
    return out;
}
template <class P> static Rotation_<P> rotFromM3(const M3& m) {
    Mat<3, 3, P> a;
    for (int i = 0; i < 3; ++i) for (int j = 0; j < 3; ++j) a(i, j) = (P)m.a[i][j];
    return Rotation_<P>(a, true);
}

// the rotation set used by the algebra sections: 24 cube rotations (exact; they sit on every tie of the
// quaternion-extraction branch tests), generic ones (by seed), near-singular ones
template <class P> static std::vector<Rotation_<P>> rotationSet(const verif::Run& run) {
    std::vector<Rotation_<P>> S;
    for (auto& m : cubeRotations()) S.push_back(rotFromM3<P>(m));
    const P e = (P)Prec<P>::angEps(), pi = NTraits<P>::getPi();
    int s0 = (int)(((run.seed % 3) + 3) % 3);
    for (int s = 0; s < 3; ++s) {
        if (!run.thorough() && s != s0) continue;
        P a = (P)GENERIC_ANGLES[s][0], b = (P)GENERIC_ANGLES[s][1];
        S.push_back(Rotation_<P>(BodyRotationSequence, a, XAxis, b, YAxis, P(0.4), ZAxis));
        S.push_back(Rotation_<P>(SpaceRotationSequence, b, ZAxis, a, XAxis, P(-1.3), ZAxis));
        S.push_back(Rotation_<P>(a, Vec<3, P>(1, -2, 3)));
        S.push_back(Rotation_<P>(b, Vec<3, P>(-2, 1, P(0.5))));
    }
    S.push_back(Rotation_<P>(BodyRotationSequence, P(0.3), XAxis, pi / 2 - e, YAxis, P(-1.1), ZAxis));
    S.push_back(Rotation_<P>(BodyRotationSequence, P(0.3), ZAxis, e, XAxis, P(-1.1), ZAxis));
    S.push_back(Rotation_<P>(pi - e, Vec<3, P>(1, 1, 1)));
    S.push_back(Rotation_<P>(e, Vec<3, P>(1, -1, 2)));
    return S;
}

// ---------------------------------------------------------------- checks shared by all rotation-producing cases
struct Where {
    std::string s; std::string hdr;
    std::function<std::string()> w() const { const Where* p = this; return [p] { return p->s; }; }
    std::function<std::string()> r() const { const Where* p = this; return [p] { return p->hdr + "case=" + p->s + "\n"; }; }
};

template <class P> static bool properCheck(verif::Run& run, const Rotation_<P>& R, const std::string& oracle, const Where& W, const std::string& cls = "") {
    return run.residual(oracle + "." + Prec<P>::tag(), (double)ref::properErr(ref::toM3(R)), TOL<P>(), W.w(), W.r(), cls);
}

// quaternion / angle-axis / approximate-matrix / inverse-view round trips of an arbitrary valid rotation
template <class P> static void genericRotationChecks(verif::Run& run, const Rotation_<P>& R, const Where& W, bool light = false) {
    const std::string t = std::string(".") + Prec<P>::tag();
    const double tol = TOL<P>();
    const M3 Rm = ref::toM3(R);
    // --- quaternion
    const Mat<3, 3, P>& A = R.asMat33();
    const P tr = A.trace();
    const char* qb = (tr >= A(0, 0) && tr >= A(1, 1) && tr >= A(2, 2)) ? "trace" : (A(0, 0) >= A(1, 1) && A(0, 0) >= A(2, 2)) ? "xx" : (A(1, 1) >= A(2, 2)) ? "yy" : "zz";
    run.count(std::string("quat-extraction-branch") + t + ":" + qb);
    Quaternion_<P> q = R.convertRotationToQuaternion();
    LD qn = 0; for (int i = 0; i < 4; ++i) qn += (LD)q[i] * (LD)q[i];
    run.residual(NM("quat-unit"), (double)fabsl(qn - 1), tol, W.w(), W.r(), qb);
    run.expect(q[0] >= 0, NM("quat-canonical"), [&] { return fmt("q0=%.17g < 0 at ", (double)q[0]) + W.s; }, W.r());
    Rotation_<P> Rq(q);
    run.residual(NM("roundtrip-quat"), (double)ref::maxAbsDiff(ref::toM3(Rq), Rm), tol, W.w(), W.r(), qb);
    // the library's matrix of q equals the textbook matrix of q
    run.residual(NM("setquat-vs-dense"), (double)ref::maxAbsDiff(ref::toM3(Rq), ref::fromQuat(q[0], q[1], q[2], q[3])), tol, W.w(), W.r());
    // q and -q are the same rotation
    Rotation_<P> Rnq(Quaternion_<P>(Vec<4, P>(-q.asVec4()), true));
    run.expect(Rnq.asMat33() == Rq.asMat33(), NM("quat-negated-same-rotation"), [&] { return "R(-q) != R(q) at " + W.s; }, W.r());
    if (!light) {
        Quaternion_<P> q2(R);
        run.expect(q2.asVec4() == q.asVec4(), NM("quat-ctor-equals-convert"), [&] { return "Quaternion(R) != R.convertRotationToQuaternion() at " + W.s; }, W.r());
    }
    // --- angle-axis
    Vec<4, P> aa = R.convertRotationToAngleAxis();
    const P pi = NTraits<P>::getPi();
    run.expect(aa[0] > -pi && aa[0] <= pi, NM("angleaxis-canonical-range"), [&] { return fmt("angle=%.17g outside (-pi,pi] at ", (double)aa[0]) + W.s; }, W.r());
    LD vn = (LD)aa[1] * aa[1] + (LD)aa[2] * aa[2] + (LD)aa[3] * aa[3];
    run.residual(NM("angleaxis-unit-axis"), (double)fabsl(vn - 1), tol, W.w(), W.r());
    Rotation_<P> Raa(aa[0], Vec<3, P>(aa[1], aa[2], aa[3]));
    run.residual(NM("roundtrip-angleaxis"), (double)ref::maxAbsDiff(ref::toM3(Raa), Rm), tol, W.w(), W.r());
    if (!light) {
        Quaternion_<P> qa; qa.setQuaternionFromAngleAxis(aa);
        Rotation_<P> Rqa(qa);
        run.residual(NM("roundtrip-angleaxis-via-quat"), (double)ref::maxAbsDiff(ref::toM3(Rqa), Rm), tol, W.w(), W.r());
        run.expect(qa[0] >= 0, NM("quat-from-angleaxis-canonical"), [&] { return "q0<0 at " + W.s; }, W.r());
        // --- (hopefully nearby) orthogonalisation of an already orthogonal matrix is a fixed point
        Rotation_<P> Ra; Ra.setRotationFromApproximateMat33(R.asMat33());
        run.residual(NM("approx-of-rotation-is-itself"), (double)ref::maxAbsDiff(ref::toM3(Ra), Rm), tol, W.w(), W.r());
        // --- inverse view
        const InverseRotation_<P>& Ri = ~R;
        bool tOk = true;
        for (int i = 0; i < 3; ++i) for (int j = 0; j < 3; ++j) if (!(Ri.asMat33()(i, j) == A(j, i))) tOk = false;
        Rotation_<P> Rt(Ri);
        for (int i = 0; i < 3; ++i) for (int j = 0; j < 3; ++j) if (!(Rt.asMat33()(i, j) == A(j, i))) tOk = false;
        run.expect(tOk, NM("inverse-is-transpose"), [&] { return "~R is not the element-wise transpose at " + W.s; }, W.r());
        Rotation_<P> I1 = R * ~R, I2 = ~R * R;
        run.residual(NM("R-times-inverse-is-identity"), (double)fmaxl(ref::maxAbsDiff(ref::toM3(I1), ref::ident3()), ref::maxAbsDiff(ref::toM3(I2), ref::ident3())), tol, W.w(), W.r());
    }
}

// ---------------------------------------------------------------- section A: three-angle sequences
// white-box condition number of the three-angle extraction: |cos th2| (three distinct axes) or |sin th2| (iji)
template <class P> static double rsumOf(const Rotation_<P>& R, int bos, int x1, int x2, int x3) {
    int i = bos ? x3 : x1, j = x2, k = bos ? x1 : x3;
    const Mat<3, 3, P>& A = R.asMat33();
    auto sq = [](LD x) { return x * x; };
    if (i == k) { k = 3 - i - j; return (double)sqrtl((sq(A[i][j]) + sq(A[i][k]) + sq(A[j][i]) + sq(A[k][i])) / 2); }
    return (double)sqrtl((sq(A[i][i]) + sq(A[i][j]) + sq(A[j][k]) + sq(A[k][k])) / 2);
}

template <class P> static void caseThree(verif::Run& run, int bos, int x1, int x2, int x3, double d1, double d2, double d3, bool light) {
    const std::string t = std::string(".") + Prec<P>::tag();
    const double tol = TOL<P>();
    const P a1 = (P)d1, a2 = (P)d2, a3 = (P)d3;
    const BodyOrSpaceType B = bos ? SpaceRotationSequence : BodyRotationSequence;
    const CoordinateAxis A1(x1), A2(x2), A3(x3);
    const bool degenerate = (x1 == x2) || (x2 == x3);
    const std::string cls = degenerate ? "degenerate-sequence" : (x1 == x3 ? "two-axes-iji" : "three-axes-ijk");
    Where W; W.hdr = run.replayHeader();
    W.s = fmt("P=%s %s %c%c%c angles=(%.17g, %.17g, %.17g)", Prec<P>::tag(), bos ? "space" : "body", AX[x1], AX[x2], AX[x3], d1, d2, d3);
    run.evaluationDistinct(d1 != 0 || d2 != 0 || d3 != 0);

    Rotation_<P> R(B, a1, A1, a2, A2, a3, A3);
    const M3 Rm = ref::toM3(R);
    const M3 E1 = ref::elem(x1, a1), E2 = ref::elem(x2, a2), E3 = ref::elem(x3, a3);
    const M3 Rref = bos ? ref::mul(ref::mul(E3, E2), E1) : ref::mul(ref::mul(E1, E2), E3);
    run.residual(NM("set3-vs-dense"), (double)ref::maxAbsDiff(Rm, Rref), tol, W.w(), W.r(), cls);
    properCheck<P>(run, R, "proper-from-three-angles", W, cls);

    Vec<3, P> ang = R.convertThreeAxesRotationToThreeAngles(B, A1, A2, A3);
    const P pi = NTraits<P>::getPi();
    const P slack = P(4) * (P)Prec<P>::eps();   // atan2 returns the P-rounded pi, nothing larger
    bool finite = std::isfinite(ang[0]) && std::isfinite(ang[1]) && std::isfinite(ang[2]);
    run.expect(finite, NM("angles3-finite"), [&] { return "non-finite angle at " + W.s; }, W.r());
    if (!degenerate) {
        bool inRange = std::abs(ang[0]) <= pi + slack && std::abs(ang[2]) <= pi + slack &&
                       (x1 == x3 ? (ang[1] >= 0 && ang[1] <= pi + slack) : (std::abs(ang[1]) <= pi / 2 + slack));
        run.expect(inRange, NM("angles3-documented-range"), [&] { return fmt("angles (%.17g, %.17g, %.17g) outside the documented ranges at ", (double)ang[0], (double)ang[1], (double)ang[2]) + W.s; }, W.r());
        double rs = rsumOf<P>(R, bos, x1, x2, x3);
        run.count(NM("extract3-branch") + ":" + cls + (rs > 4 * Eps ? ":regular" : ":singular"));
    }
    Rotation_<P> R2(B, ang[0], A1, ang[1], A2, ang[2], A3);
    double rt = (double)ref::maxAbsDiff(ref::toM3(R2), Rm);
    run.residual(NM("roundtrip3"), rt, tol, W.w(), W.r(), cls);
    if (run.verbose) {
        printf("%s\n  R    = %s\n  Rref = %s\n  angles out = (%.17g, %.17g, %.17g)\n  R(angles out) = %s\n  round-trip err %.3g\n", W.s.c_str(), ref::str(Rm).c_str(), ref::str(Rref).c_str(),
               (double)ang[0], (double)ang[1], (double)ang[2], ref::str(ref::toM3(R2)).c_str(), rt);
    }
    uint64_t oh = verif::hashPod(ang[0]); oh = verif::hashPod(ang[1], oh); oh = verif::hashPod(ang[2], oh);
    run.outcome(oh);

    // degenerate sequences produce exactly the rotations of the two-/one-angle families, which get the full set there
    genericRotationChecks<P>(run, R, W, light || degenerate);

    // the same rotation after a trip through its quaternion: a valid rotation that is NOT bit-for-bit of
    // the product form the setter writes.  Its extraction is conditioned by 1/Rsum.
    if (!degenerate) {
        Rotation_<P> G(R.convertRotationToQuaternion());
        Vec<3, P> ag = G.convertThreeAxesRotationToThreeAngles(B, A1, A2, A3);
        Rotation_<P> G2(B, ag[0], A1, ag[1], A2, ag[2], A3);
        double err = (double)ref::maxAbsDiff(ref::toM3(G2), ref::toM3(G));
        double rs = rsumOf<P>(G, bos, x1, x2, x3);
        run.count(NM("extract3-generic-branch") + ":" + cls + (rs > 4 * Eps ? ":regular" : ":singular"));
        run.residual(NM("roundtrip3-generic-condition-scaled"), err * std::min(1.0, rs), tol, W.w(), W.r(), cls);
        bool ok = run.residual(NM("roundtrip3-generic-near-singular-band"), err, LOOSE<P>(), W.w(), W.r(), cls);
        if (run.verbose)
            printf("  via quaternion: G = %s\n  angles out = (%.17g, %.17g, %.17g)  Rsum=%.3g  round-trip err %.3g (%s)\n", ref::str(ref::toM3(G)).c_str(), (double)ag[0], (double)ag[1], (double)ag[2], rs, err, ok ? "ok" : "VIOLATION");
    }
}

// ---------------------------------------------------------------- section B: two-angle sequences
template <class P> static void caseTwo(verif::Run& run, int bos, int x1, int x2, double d1, double d2) {
    const std::string t = std::string(".") + Prec<P>::tag();
    const double tol = TOL<P>();
    const P a1 = (P)d1, a2 = (P)d2;
    const BodyOrSpaceType B = bos ? SpaceRotationSequence : BodyRotationSequence;
    const CoordinateAxis A1(x1), A2(x2);
    const std::string cls = x1 == x2 ? "same-axis" : "two-axes";
    Where W; W.hdr = run.replayHeader();
    W.s = fmt("P=%s %s %c%c angles=(%.17g, %.17g)", Prec<P>::tag(), bos ? "space" : "body", AX[x1], AX[x2], d1, d2);
    run.evaluationDistinct(d1 != 0 || d2 != 0);
    Rotation_<P> R(B, a1, A1, a2, A2);
    const M3 Rm = ref::toM3(R);
    // same axis: the library forms angle1+angle2 in precision P before taking sin/cos
    const M3 Rref = x1 == x2 ? ref::elem(x1, (LD)(P)(a1 + a2))
                             : (bos ? ref::mul(ref::elem(x2, a2), ref::elem(x1, a1)) : ref::mul(ref::elem(x1, a1), ref::elem(x2, a2)));
    run.residual(NM("set2-vs-dense"), (double)ref::maxAbsDiff(Rm, Rref), tol, W.w(), W.r(), cls);
    properCheck<P>(run, R, "proper-from-two-angles", W, cls);
    Vec<2, P> ang = R.convertTwoAxesRotationToTwoAngles(B, A1, A2);
    run.expect(std::isfinite(ang[0]) && std::isfinite(ang[1]), NM("angles2-finite"), [&] { return "non-finite angle at " + W.s; }, W.r());
    Rotation_<P> R2(B, ang[0], A1, ang[1], A2);
    double rt = (double)ref::maxAbsDiff(ref::toM3(R2), Rm);
    run.residual(NM("roundtrip2"), rt, tol, W.w(), W.r(), cls);
    if (x1 == 0 && x2 == 1 && bos == 0) {   // the named convenience pair
        Rotation_<P> R3; R3.setRotationToBodyFixedXY(Vec<2, P>(a1, a2));
        Vec<2, P> a3 = R.convertRotationToBodyFixedXY();
        run.expect(R3.asMat33() == R.asMat33() && a3 == ang, NM("bodyfixedXY-aliases-agree"), [&] { return "setRotationToBodyFixedXY / convertRotationToBodyFixedXY differ from the general call at " + W.s; }, W.r());
    }
    if (run.verbose) printf("%s\n  R = %s\n  Rref = %s\n  angles out = (%.17g, %.17g) round-trip err %.3g\n", W.s.c_str(), ref::str(Rm).c_str(), ref::str(Rref).c_str(), (double)ang[0], (double)ang[1], rt);
    run.outcome(verif::hashPod(ang[1], verif::hashPod(ang[0])));
    genericRotationChecks<P>(run, R, W, false);
}

// ---------------------------------------------------------------- section C: one angle about a coordinate axis
template <class P> static void caseOne(verif::Run& run, int x, double d) {
    const std::string t = std::string(".") + Prec<P>::tag();
    const double tol = TOL<P>();
    const P a = (P)d;
    Where W; W.hdr = run.replayHeader();
    W.s = fmt("P=%s axis %c angle=%.17g", Prec<P>::tag(), AX[x], d);
    run.evaluationDistinct(d != 0);
    const CoordinateAxis A(x);
    Rotation_<P> R(a, A);
    const M3 Rm = ref::toM3(R), Rref = ref::elem(x, a);
    run.residual(NM("set1-vs-dense"), (double)ref::maxAbsDiff(Rm, Rref), tol, W.w(), W.r());
    properCheck<P>(run, R, "proper-from-one-angle", W);
    // every spelling of the same constructor agrees bitwise
    Rotation_<P> Rb = x == 0 ? Rotation_<P>(a, XAxis) : x == 1 ? Rotation_<P>(a, YAxis) : Rotation_<P>(a, ZAxis);
    Rotation_<P> Rc; const P c = std::cos(a), s = std::sin(a);
    if (x == 0) Rc.setRotationFromAngleAboutX(c, s); else if (x == 1) Rc.setRotationFromAngleAboutY(c, s); else Rc.setRotationFromAngleAboutZ(c, s);
    Rotation_<P> Rd; if (x == 0) Rd.setRotationFromAngleAboutX(a); else if (x == 1) Rd.setRotationFromAngleAboutY(a); else Rd.setRotationFromAngleAboutZ(a);
    Rotation_<P> Re; Re.setRotationFromAngleAboutAxis(a, A);
    run.expect(Rb.asMat33() == R.asMat33() && Rc.asMat33() == R.asMat33() && Rd.asMat33() == R.asMat33() && Re.asMat33() == R.asMat33(), NM("one-angle-spellings-agree"),
               [&] { return "constructor / setter spellings differ at " + W.s; }, W.r());
    P b = R.convertOneAxisRotationToOneAngle(A);
    Rotation_<P> R2(b, A);
    run.residual(NM("roundtrip1"), (double)ref::maxAbsDiff(ref::toM3(R2), Rm), tol, W.w(), W.r());
    // recovered angle equals the input modulo 2 pi
    LD dd = (LD)b - (LD)a;
    run.residual(NM("angle1-recovered-mod-2pi"), (double)fmaxl(fabsl(sinl(dd)), fabsl(1 - cosl(dd))), tol, W.w(), W.r());
    // general unit-vector path about the same axis, and the degenerate sequences aaa / aa
    UnitVec<P, 1> u(A);
    Rotation_<P> Ru(a, u);
    run.residual(NM("angle-about-unitvec-of-axis"), (double)ref::maxAbsDiff(ref::toM3(Ru), Rref), tol, W.w(), W.r());
    if (run.verbose) printf("%s\n  R = %s\n  Rref = %s\n  angle out %.17g\n", W.s.c_str(), ref::str(Rm).c_str(), ref::str(Rref).c_str(), (double)b);
    run.outcome(verif::hashPod(b));
    genericRotationChecks<P>(run, R, W, false);
}

// ---------------------------------------------------------------- section D: angle about an arbitrary vector
template <class P> static void caseAngleAxis(verif::Run& run, double d, const V3& dir, double scl) {
    const std::string t = std::string(".") + Prec<P>::tag();
    const double tol = TOL<P>();
    const P a = (P)d;
    const Vec<3, P> v((P)(dir[0] * scl), (P)(dir[1] * scl), (P)(dir[2] * scl));
    Where W; W.hdr = run.replayHeader();
    W.s = fmt("P=%s angle=%.17g axis=(%.9g, %.9g, %.9g)", Prec<P>::tag(), d, (double)v[0], (double)v[1], (double)v[2]);
    run.evaluationDistinct(d != 0);
    const M3 Rref = ref::rodrigues(a, ref::toV3(v));
    Rotation_<P> R(a, v);                       // non-unit vector path
    UnitVec<P, 1> u(v);
    Rotation_<P> Ru(a, u);                      // unit vector path
    Rotation_<P> Rs; Rs.setRotationFromAngleAboutNonUnitVector(a, v);
    const M3 Rm = ref::toM3(R);
    run.residual(NM("angleaxis-vs-rodrigues"), (double)ref::maxAbsDiff(Rm, Rref), tol, W.w(), W.r());
    run.expect(Ru.asMat33() == R.asMat33() && Rs.asMat33() == R.asMat33(), NM("angleaxis-spellings-agree"), [&] { return "unit / non-unit / setter spellings differ at " + W.s; }, W.r());
    properCheck<P>(run, R, "proper-from-angle-axis", W);
    // quaternion built directly from the same (angle, axis)
    Quaternion_<P> q; q.setQuaternionFromAngleAxis(a, u);
    Quaternion_<P> q4; q4.setQuaternionFromAngleAxis(Vec<4, P>(a, v[0], v[1], v[2]));
    LD qn = 0; for (int i = 0; i < 4; ++i) qn += (LD)q[i] * q[i];
    run.residual(NM("quat-from-angleaxis-unit"), (double)fabsl(qn - 1), tol, W.w(), W.r());
    run.expect(q[0] >= 0 && q4[0] >= 0, NM("quat-from-angleaxis-canonical"), [&] { return "q0 < 0 at " + W.s; }, W.r());
    run.residual(NM("quat-from-angleaxis-vs-rodrigues"), (double)fmaxl(ref::maxAbsDiff(ref::fromQuat(q[0], q[1], q[2], q[3]), Rref), ref::maxAbsDiff(ref::fromQuat(q4[0], q4[1], q4[2], q4[3]), Rref)), tol, W.w(), W.r());
    // recovered rotation vector a*v: compared when the canonical input angle is away from 0 and from +-pi
    Vec<4, P> aa = R.convertRotationToAngleAxis();
    LD ac = remainderl((LD)a, 2 * M_PIl);      // canonical input angle in [-pi, pi]
    if (fabsl(ac) > 1e-3L && fabsl(ac) < M_PIl - 1e-3L) {
        V3 un = ref::unit(ref::toV3(v));
        V3 want = ref::scale(un, ac), got = ref::scale(ref::vec(aa[1], aa[2], aa[3]), (LD)aa[0]);
        run.residual(NM("rotation-vector-recovered"), (double)ref::maxAbsDiff(want, got), tol, W.w(), W.r());
    } else run.count(NM("rotation-vector-recovered") + ":skipped-angle-near-0-or-pi");
    if (run.verbose) printf("%s\n  R = %s\n  Rref = %s\n  angle-axis out (%.17g; %.17g, %.17g, %.17g)\n", W.s.c_str(), ref::str(Rm).c_str(), ref::str(Rref).c_str(), (double)aa[0], (double)aa[1], (double)aa[2], (double)aa[3]);
    run.outcome(verif::hashPod(aa));
    genericRotationChecks<P>(run, R, W, false);
}

// ---------------------------------------------------------------- section E: quaternion construction and product
template <class P> static void caseQuatPair(verif::Run& run, const std::vector<Rotation_<P>>& S, int i, int j) {
    const std::string t = std::string(".") + Prec<P>::tag();
    const double tol = TOL<P>();
    Where W; W.hdr = run.replayHeader(); W.s = fmt("P=%s rotation-set pair (%d, %d)", Prec<P>::tag(), i, j);
    run.evaluationDistinct(true);
    Quaternion_<P> q1 = S[i].convertRotationToQuaternion(), q2 = S[j].convertRotationToQuaternion();
    Quaternion_<P> q12 = q1 * q2, q12b = q1.multiply(q2);
    run.expect(q12.asVec4() == q12b.asVec4(), NM("quat-operator-equals-multiply"), [&] { return "q1*q2 != q1.multiply(q2) at " + W.s; }, W.r());
    M3 want = ref::mul(ref::toM3(S[i]), ref::toM3(S[j]));
    Rotation_<P> R12(q12);
    run.residual(NM("quat-product-is-composition"), (double)ref::maxAbsDiff(ref::toM3(R12), want), tol, W.w(), W.r());
    LD n = 0; for (int k = 0; k < 4; ++k) n += (LD)q12[k] * q12[k];
    run.residual(NM("quat-product-unit"), (double)fabsl(n - 1), tol, W.w(), W.r());
    run.outcome(verif::hashPod(q12.asVec4()));
}
template <class P> static void caseQuatCtor(verif::Run& run, const std::vector<Rotation_<P>>& S, int i, int k) {
    const std::string t = std::string(".") + Prec<P>::tag();
    const double tol = TOL<P>();
    static const double SC[] = {1, 0.5, 2, 1e-3, 1e3, -1, -7};
    const double sc = SC[k];
    Where W; W.hdr = run.replayHeader(); W.s = fmt("P=%s rotation-set member %d scaled by %g", Prec<P>::tag(), i, sc);
    run.evaluationDistinct(true);
    Quaternion_<P> q = S[i].convertRotationToQuaternion();
    Vec<4, P> v = q.asVec4() * (P)sc;
    Quaternion_<P> a(v), b(v[0], v[1], v[2], v[3]), c = Quaternion_<P>(v, true).normalize();
    run.expect(a.asVec4() == b.asVec4() && a.asVec4() == c.asVec4(), NM("quat-normalising-ctors-agree"), [&] { return "Quaternion(Vec4) / Quaternion(4 scalars) / normalize() differ at " + W.s; }, W.r());
    LD n = 0; for (int m = 0; m < 4; ++m) n += (LD)a[m] * a[m];
    run.residual(NM("quat-ctor-unit"), (double)fabsl(n - 1), tol, W.w(), W.r());
    // a scaled quaternion is the same rotation
    run.residual(NM("quat-ctor-same-rotation"), (double)ref::maxAbsDiff(ref::toM3(Rotation_<P>(a)), ref::toM3(S[i])), tol, W.w(), W.r());
    run.outcome(verif::hashPod(a.asVec4()));
}

// ---------------------------------------------------------------- section E2: the Quaternion class on NON-canonical input
// Rotation::convertRotationToAngleAxis only ever feeds canonical quaternions (q0 >= 0) to
// Quaternion_::convertQuaternionToAngleAxis, so its `angle > Pi` branch is reached only when the class is used
// directly: negated quaternions, products, quaternions built by the normalising constructors.  Both q and -q describe
// the same rotation, so the (angle, axis) pair must reproduce the matrix of q -- references in long double only.
template <class P> static void checkQuatAngleAxis(verif::Run& run, const Quaternion_<P>& Q, const Where& W, const char* cls) {
    const std::string t = std::string(".") + Prec<P>::tag();
    const double tol = TOL<P>();
    const P pi = NTraits<P>::getPi();
    const M3 RQ = ref::fromQuat(Q[0], Q[1], Q[2], Q[3]);
    run.count(std::string("quaternion-angle-axis-input") + t + (Q[0] < 0 || (Q[0] == 0 && std::signbit(Q[0])) ? ":negative-scalar-part" : ":canonical"));
    Vec<4, P> aa = Q.convertQuaternionToAngleAxis();
    run.expect(aa[0] > -pi && aa[0] <= pi, NM("quaternion-angle-axis-canonical-range") + "/" + cls, [&] { return fmt("angle=%.17g outside (-pi,pi] at ", (double)aa[0]) + W.s; }, W.r());
    const V3 ax = ref::vec(aa[1], aa[2], aa[3]);
    run.residual(NM("quaternion-angle-axis-unit-axis"), (double)fabsl(ref::dot(ax, ax) - 1), tol, W.w(), W.r(), cls);
    // the converted pair is the rotation of q (textbook Rodrigues vs textbook quaternion matrix)
    const M3 Raa = ref::rodrigues((LD)aa[0], ax);
    bool ok = run.residual(NM("quaternion-angle-axis-noncanonical"), (double)ref::maxAbsDiff(Raa, RQ), tol, W.w(), W.r(), cls);
    // and the library's own constructors agree: Rotation(q) == Rotation(angle, axis)
    Rotation_<P> Rl(Q), Ra(aa[0], Vec<3, P>(aa[1], aa[2], aa[3]));
    run.residual(NM("quaternion-angle-axis-noncanonical-library-matrices"), (double)ref::maxAbsDiff(ref::toM3(Rl), ref::toM3(Ra)), tol, W.w(), W.r(), cls);
    // back to a quaternion: canonical, same rotation, equal to +-q (the sign that makes the scalar part non-negative)
    Quaternion_<P> qa; qa.setQuaternionFromAngleAxis(aa);
    Quaternion_<P> qb; qb.setQuaternionFromAngleAxis(Vec<4, P>(aa[0], 3 * aa[1], 3 * aa[2], 3 * aa[3]));   // non-unit axis
    Quaternion_<P> qc; qc.setQuaternionFromAngleAxis(aa[0], UnitVec<P, 1>(Vec<3, P>(aa[1], aa[2], aa[3])));
    run.expect(qa[0] >= 0 && qb[0] >= 0 && qc[0] >= 0, NM("quaternion-from-angle-axis-canonical") + "/" + cls, [&] { return "q0 < 0 at " + W.s; }, W.r());
    LD worst = 0;
    for (const Quaternion_<P>* q : {&qa, &qb, &qc}) {
        worst = fmaxl(worst, ref::maxAbsDiff(ref::fromQuat((*q)[0], (*q)[1], (*q)[2], (*q)[3]), RQ));
        LD dp = 0, dm = 0;
        for (int i = 0; i < 4; ++i) { dp = fmaxl(dp, fabsl((LD)(*q)[i] - (LD)Q[i])); dm = fmaxl(dm, fabsl((LD)(*q)[i] + (LD)Q[i])); }
        // tiny rotations are reported as "no rotation" -> q = [1 0 0 0]; both are within tol of +-Q at matrix level only
        if (fabsl((LD)Q[0]) > 1e-3L) worst = fmaxl(worst, Q[0] > 0 ? dp : dm); else worst = fmaxl(worst, fminl(dp, dm));
    }
    run.residual(NM("quaternion-angle-axis-roundtrip"), (double)worst, tol, W.w(), W.r(), cls);
    // -q is the same rotation: its angle-axis pair gives the same matrix
    Quaternion_<P> N(Vec<4, P>(-Q.asVec4()), true);
    Vec<4, P> an = N.convertQuaternionToAngleAxis();
    run.residual(NM("quaternion-negated-same-angle-axis-rotation"), (double)ref::maxAbsDiff(ref::rodrigues((LD)an[0], ref::vec(an[1], an[2], an[3])), RQ), tol, W.w(), W.r(), cls);
    if (run.verbose) printf("%s [%s]\n  q = (%.17g, %.17g, %.17g, %.17g)\n  angle-axis = (%.17g; %.17g, %.17g, %.17g)  %s\n  R(q) = %s\n  R(angle,axis) = %s\n", W.s.c_str(), cls, (double)Q[0], (double)Q[1], (double)Q[2], (double)Q[3],
                            (double)aa[0], (double)aa[1], (double)aa[2], (double)aa[3], ok ? "ok" : "VIOLATION", ref::str(RQ).c_str(), ref::str(Raa).c_str());
    run.outcome(verif::hashPod(aa));
}
// pairs of the rotation set: the member itself, its negative, the Hamilton product and the negated product
template <class P> static void caseQuatNonCanonical(verif::Run& run, const std::vector<Rotation_<P>>& S, int i, int j) {
    Where W; W.hdr = run.replayHeader(); W.s = fmt("P=%s quaternions of rotation-set members (%d, %d)", Prec<P>::tag(), i, j);
    run.evaluationDistinct(true);
    Quaternion_<P> q1 = S[i].convertRotationToQuaternion(), q2 = S[j].convertRotationToQuaternion();
    Quaternion_<P> n1(Vec<4, P>(-q1.asVec4()), true);
    Quaternion_<P> pr = q1 * q2, pn = n1 * q2, np(Vec<4, P>(-pr.asVec4()), true);
    if (j == 0) {
        checkQuatAngleAxis<P>(run, q1, W, "member");
        checkQuatAngleAxis<P>(run, n1, W, "negated-member");
        // the normalising constructors keep the sign of the scalar part
        Quaternion_<P> c4(-2 * q1[0], -2 * q1[1], -2 * q1[2], -2 * q1[3]), cv(Vec<4, P>(q1.asVec4() * P(-0.5)));
        checkQuatAngleAxis<P>(run, c4, W, "normalising-ctor-of-negative");
        checkQuatAngleAxis<P>(run, cv, W, "normalising-ctor-of-negative");
    }
    checkQuatAngleAxis<P>(run, pr, W, "product");
    checkQuatAngleAxis<P>(run, pn, W, "product-with-negated-factor");
    checkQuatAngleAxis<P>(run, np, W, "negated-product");
}
// angles beyond +-pi about the lattice directions: set -> convert -> matrix, for the quaternion and its negative
template <class P> static void caseQuatWideAngle(verif::Run& run, double d, const V3& dir) {
    const P a = (P)d;
    const UnitVec<P, 1> u(Vec<3, P>((P)dir[0], (P)dir[1], (P)dir[2]));
    Where W; W.hdr = run.replayHeader(); W.s = fmt("P=%s wide angle=%.17g axis=(%.9g, %.9g, %.9g)", Prec<P>::tag(), d, (double)u[0], (double)u[1], (double)u[2]);
    run.evaluationDistinct(true);
    Quaternion_<P> q; q.setQuaternionFromAngleAxis(a, u);
    run.residual(NM("quaternion-from-wide-angle-vs-rodrigues"), (double)ref::maxAbsDiff(ref::fromQuat(q[0], q[1], q[2], q[3]), ref::rodrigues((LD)a, ref::toV3(u))), TOL<P>() * (1 + std::abs(d)), W.w(), W.r());
    run.expect(q[0] >= 0, NM("quaternion-from-angle-axis-canonical") + "/wide-angle", [&] { return "q0 < 0 at " + W.s; }, W.r());
    checkQuatAngleAxis<P>(run, q, W, "wide-angle");
    checkQuatAngleAxis<P>(run, Quaternion_<P>(Vec<4, P>(-q.asVec4()), true), W, "negated-wide-angle");
}

// ---------------------------------------------------------------- section F: one-axis / two-axes construction
template <class P> static void caseTwoAxes(verif::Run& run, int xi, int xj, const V3& ud, const V3& vd, const char* vname) {
    const std::string t = std::string(".") + Prec<P>::tag();
    const double tol = TOL<P>();
    const UnitVec<P, 1> u(Vec<3, P>((P)ud[0], (P)ud[1], (P)ud[2]));
    const Vec<3, P> v((P)vd[0], (P)vd[1], (P)vd[2]);
    Where W; W.hdr = run.replayHeader();
    W.s = fmt("P=%s axis_i=%c axis_j=%c u=(%.9g, %.9g, %.9g) v[%s]=(%.17g, %.17g, %.17g)", Prec<P>::tag(), AX[xi], AX[xj], (double)u[0], (double)u[1], (double)u[2], vname, (double)v[0], (double)v[1], (double)v[2]);
    run.evaluationDistinct(true);
    Rotation_<P> R(u, CoordinateAxis(xi), v, CoordinateAxis(xj));
    properCheck<P>(run, R, "proper-from-two-axes", W);
    bool colOk = R.asMat33()(0, xi) == u[0] && R.asMat33()(1, xi) == u[1] && R.asMat33()(2, xi) == u[2];
    run.expect(colOk, NM("two-axes-first-axis-taken-exactly"), [&] { return "column axis_i != u at " + W.s; }, W.r());
    // second axis: documented as the direction perpendicular to u that comes closest to v
    V3 uu = ref::toV3(u), vv = ref::toV3(v);
    LD vnorm = ref::norm(vv);
    LD sinth = vnorm > 0 ? ref::norm(ref::cross(uu, vv)) / vnorm : 0;
    if (xi != xj && sinth >= 1e-3L) {
        V3 want = ref::unit(ref::sub(vv, ref::scale(uu, ref::dot(uu, vv) / ref::dot(uu, uu))));
        V3 got = ref::vec(R.asMat33()(0, xj), R.asMat33()(1, xj), R.asMat33()(2, xj));
        run.residual(NM("two-axes-second-axis-closest-to-v"), (double)(ref::maxAbsDiff(want, got) * sinth), tol, W.w(), W.r());
        run.count(NM("two-axes") + ":second-axis-specified");
    } else run.count(NM("two-axes") + (xi == xj ? ":same-axis-one-axis-fallback" : ":nearly-parallel-unspecified"));
    if (run.verbose) printf("%s\n  R = %s  sin(angle(u,v)) = %.3Lg\n", W.s.c_str(), ref::str(ref::toM3(R)).c_str(), sinth);
    run.outcome(verif::hashPod(R.asMat33()));
}
template <class P> static void caseOneAxis(verif::Run& run, int xi, const V3& ud) {
    const std::string t = std::string(".") + Prec<P>::tag();
    const UnitVec<P, 1> u(Vec<3, P>((P)ud[0], (P)ud[1], (P)ud[2]));
    Where W; W.hdr = run.replayHeader();
    W.s = fmt("P=%s one-axis axis=%c u=(%.17g, %.17g, %.17g)", Prec<P>::tag(), AX[xi], (double)u[0], (double)u[1], (double)u[2]);
    run.evaluationDistinct(true);
    Rotation_<P> R(u, CoordinateAxis(xi));
    properCheck<P>(run, R, "proper-from-one-axis", W);
    bool colOk = R.asMat33()(0, xi) == u[0] && R.asMat33()(1, xi) == u[1] && R.asMat33()(2, xi) == u[2];
    run.expect(colOk, NM("one-axis-taken-exactly"), [&] { return "column != u at " + W.s; }, W.r());
    // UnitVec::perp on the same input
    UnitVec<P, 1> p = u.perp();
    LD n = ref::norm(ref::toV3(p)), dp = ref::dot(ref::toV3(p), ref::toV3(u));
    run.residual(NM("unitvec-perp-is-unit-and-perpendicular"), (double)fmaxl(fabsl(n - 1), fabsl(dp)), TOL<P>(), W.w(), W.r());
    LD un = ref::norm(ref::toV3(u));
    run.residual(NM("unitvec-ctor-normalises"), (double)fabsl(un - 1), TOL<P>(), W.w(), W.r());
    run.outcome(verif::hashPod(R.asMat33()));
}

// ---------------------------------------------------------------- section G: nearly-orthogonal input
template <class P> static void caseApprox(verif::Run& run, const Rotation_<P>& R0, int ri, double delta, int64_t code) {
    const std::string t = std::string(".") + Prec<P>::tag();
    Mat<3, 3, P> m = R0.asMat33();
    int64_t c = code; LD pert = 0;
    for (int i = 0; i < 3; ++i) for (int j = 0; j < 3; ++j) { int e = (int)(c % 3) - 1; c /= 3; m(i, j) += (P)(e * delta); if (e) pert = delta; }
    Where W; W.hdr = run.replayHeader();
    W.s = fmt("P=%s base-rotation %d delta=%g perturbation-code %lld", Prec<P>::tag(), ri, delta, (long long)code);
    run.evaluationDistinct(code != 9841);   // 9841 = all digits 1 = no perturbation
    Rotation_<P> R(m);
    Rotation_<P> Rs; Rs.setRotationFromApproximateMat33(m);
    run.expect(R.asMat33() == Rs.asMat33(), NM("approx-ctor-equals-setter"), [&] { return "explicit Rotation(Mat33) != setRotationFromApproximateMat33 at " + W.s; }, W.r());
    properCheck<P>(run, R, "proper-from-approximate-matrix", W);
    // "hopefully nearby": within a fixed multiple of the perturbation (measured worst 2.0 delta)
    double dist = (double)ref::maxAbsDiff(ref::toM3(R), ref::toM3(R0));
    run.residual(NM("approx-result-nearby-in-units-of-delta"), dist / (double)(delta + 10 * Prec<P>::eps()), 50.0, W.w(), W.r());
    if (run.verbose) printf("%s\n  input = %s\n  result = %s\n  distance to base %.3g\n", W.s.c_str(), ref::str(ref::toM3(m)).c_str(), ref::str(ref::toM3(R)).c_str(), dist);
    run.outcome(verif::hashPod(R.asMat33()));
    (void)pert;
}

// ---------------------------------------------------------------- section H: Rotation / InverseRotation algebra
template <class P, class = void> struct CanDivideByInverse : std::false_type {};
template <class P> struct CanDivideByInverse<P, std::void_t<decltype(std::declval<const Rotation_<P>&>() / std::declval<const InverseRotation_<P>&>())>> : std::true_type {};

template <class P> static void caseRotPair(verif::Run& run, const std::vector<Rotation_<P>>& S, int i, int j) {
    const std::string t = std::string(".") + Prec<P>::tag();
    const double tol = TOL<P>();
    Where W; W.hdr = run.replayHeader(); W.s = fmt("P=%s rotation-set pair (%d, %d)", Prec<P>::tag(), i, j);
    run.evaluationDistinct(i != j);
    const Rotation_<P>&A = S[i], &B = S[j];
    const M3 a = ref::toM3(A), b = ref::toM3(B), at = ref::transp(a), bt = ref::transp(b);
    auto cmp = [&](const char* op, const Rotation_<P>& got, const M3& want) {
        run.residual(NM("rotation-composition"), (double)ref::maxAbsDiff(ref::toM3(got), want), tol, [&] { return std::string(op) + " at " + W.s; }, W.r(), op);
    };
    cmp("R1*R2", A * B, ref::mul(a, b));
    cmp("R1*~R2", A * ~B, ref::mul(a, bt));
    cmp("~R1*R2", ~A * B, ref::mul(at, b));
    cmp("~R1*~R2", ~A * ~B, ref::mul(at, bt));
    cmp("R1/R2", A / B, ref::mul(a, bt));
    cmp("~R1/R2", ~A / B, ref::mul(at, bt));
    cmp("~R1/~R2", ~A / ~B, ref::mul(at, b));
    if constexpr (CanDivideByInverse<P>::value) cmp("R1/~R2", A / ~B, ref::mul(a, b));
    { Rotation_<P> C = A; C *= B; cmp("R1*=R2", C, ref::mul(a, b)); }
    { Rotation_<P> C = A; C *= ~B; cmp("R1*=~R2", C, ref::mul(a, bt)); }
    { Rotation_<P> C = A; C /= B; cmp("R1/=R2", C, ref::mul(a, bt)); }
    { Rotation_<P> C = A; C /= ~B; cmp("R1/=~R2", C, ref::mul(a, b)); }
    { Rotation_<P> C; C = ~B; cmp("R=~R2", C, bt); }
    // column j of B re-expressed by A: UnitVec / UnitRow / Vec3 products
    for (int c = 0; c < 3; ++c) {
        V3 col = ref::vec(b.a[0][c], b.a[1][c], b.a[2][c]);
        UnitVec<P, 1> u1 = A * B(c), u2 = ~A * B(c);
        run.residual(NM("rotation-times-unitvec"), (double)fmaxl(ref::maxAbsDiff(ref::toV3(u1), ref::mul(a, col)), ref::maxAbsDiff(ref::toV3(u2), ref::mul(at, col))), tol, W.w(), W.r());
        UnitRow<P, 1> r1 = ~B(c) * A, r2 = ~B(c) * ~A;
        run.residual(NM("unitrow-times-rotation"), (double)fmaxl(ref::maxAbsDiff(ref::toV3(r1), ref::mul(at, col)), ref::maxAbsDiff(ref::toV3(r2), ref::mul(a, col))), tol, W.w(), W.r());
        Vec<3, P> w = A * Vec<3, P>(B(c)) * P(3);
        run.residual(NM("rotation-times-vec3"), (double)ref::maxAbsDiff(ref::toV3(w), ref::scale(ref::mul(a, col), 3)), 3 * tol, W.w(), W.r());
    }
    // pointing-angle comparison: angle between A and B decided three-valued
    {
        M3 d = ref::mul(at, b);
        LD c = (d.a[0][0] + d.a[1][1] + d.a[2][2] - 1) / 2;
        LD sn = ref::norm(ref::vec(d.a[2][1] - d.a[1][2], d.a[0][2] - d.a[2][0], d.a[1][0] - d.a[0][1])) / 2;
        LD ang = atan2l(sn, c);
        for (LD lim : {(LD)1e-3, (LD)1.0, (LD)3.0}) {
            if (fabsl(ang - lim) < 1000 * Prec<P>::eps() || ang > M_PIl - 1e-2L) { run.count(NM("pointing-angle") + ":too-close-to-call"); continue; }
            bool got = A.isSameRotationToWithinAngle(B, (P)lim);
            run.expect(got == (ang < lim), NM("isSameRotationToWithinAngle"), [&] { return fmt("angle %.6Lg limit %.3Lg answered %d at ", ang, lim, (int)got) + W.s; }, W.r());
        }
        P md = A.getMaxAbsDifferenceInRotationElements(B);
        run.residual(NM("max-abs-difference"), (double)fabsl((LD)md - ref::maxAbsDiff(a, b)), tol, W.w(), W.r());
    }
    run.outcome(verif::hashPod((A * B).asMat33()));
}

// re-expression of symmetric matrices
template <class P> static void caseReexpress(verif::Run& run, const std::vector<Rotation_<P>>& S, int i, int k) {
    const std::string t = std::string(".") + Prec<P>::tag();
    const double tol = TOL<P>();
    static const double SY[][6] = {   // (0,0) (1,0) (1,1) (2,0) (2,1) (2,2)
        {1, 0, 0, 0, 0, 0}, {0, 1, 0, 0, 0, 0}, {0, 0, 1, 0, 0, 0}, {0, 0, 0, 1, 0, 0}, {0, 0, 0, 0, 1, 0}, {0, 0, 0, 0, 0, 1},
        {1, 0, 1, 0, 0, 1}, {1, 0, 2, 0, 0, 3}, {2.5, -0.7, 1.25, 0.3, 1.9, 3.75}, {-1.5, 2, 0.5, -3, 0.25, 4}, {1000, 3, 2000, -7, 11, 3000}};
    const double* s = SY[k];
    SymMat<3, P> Sm((P)s[0], (P)s[1], (P)s[2], (P)s[3], (P)s[4], (P)s[5]);
    auto elt = [](const SymMat<3, P>& m, int r, int c) { return r >= c ? m(r, c) : m(c, r); };
    M3 sm; for (int r = 0; r < 3; ++r) for (int c = 0; c < 3; ++c) sm.a[r][c] = (LD)elt(Sm, r, c);
    bool symOk = sm.a[0][0] == (LD)(P)s[0] && sm.a[1][0] == (LD)(P)s[1] && sm.a[1][1] == (LD)(P)s[2] && sm.a[2][0] == (LD)(P)s[3] && sm.a[2][1] == (LD)(P)s[4] && sm.a[2][2] == (LD)(P)s[5];
    Where W; W.hdr = run.replayHeader(); W.s = fmt("P=%s rotation-set member %d symmetric-matrix %d", Prec<P>::tag(), i, k);
    run.evaluationDistinct(true);
    const M3 a = ref::toM3(S[i]), at = ref::transp(a);
    const LD scl = ref::maxAbs(sm);
    SymMat<3, P> g1 = S[i].reexpressSymMat33(Sm), g2 = (~S[i]).reexpressSymMat33(Sm);
    M3 m1, m2; for (int r = 0; r < 3; ++r) for (int c = 0; c < 3; ++c) { m1.a[r][c] = (LD)elt(g1, r, c); m2.a[r][c] = (LD)elt(g2, r, c); }
    run.expect(symOk, "symmat-harness-layout", [&] { return std::string("harness SymMat layout assumption broken"); });
    run.residual(NM("reexpress-symmat-R-S-Rt"), (double)(ref::maxAbsDiff(m1, ref::mul(ref::mul(a, sm), at)) / scl), tol, W.w(), W.r());
    run.residual(NM("reexpress-symmat-Rt-S-R"), (double)(ref::maxAbsDiff(m2, ref::mul(ref::mul(at, sm), a)) / scl), tol, W.w(), W.r());
    run.outcome(verif::hashPod(g1));
}

// ---------------------------------------------------------------- section T: Transform / InverseTransform
struct X4 { M3 R; V3 p; };
static X4 xmul(const X4& a, const X4& b) { X4 r; r.R = ref::mul(a.R, b.R); r.p = ref::add(a.p, ref::mul(a.R, b.p)); return r; }
static X4 xinv(const X4& a) { X4 r; r.R = ref::transp(a.R); r.p = ref::scale(ref::mul(r.R, a.p), -1); return r; }
template <class P> static X4 toX4(const Transform_<P>& X) { X4 r; r.R = ref::toM3(X.R()); r.p = ref::toV3(X.p()); return r; }
static LD xdiff(const X4& a, const X4& b) { return fmaxl(ref::maxAbsDiff(a.R, b.R), ref::maxAbsDiff(a.p, b.p)); }

static const double TRANS[4][3] = {{0, 0, 0}, {1, 0, 0}, {0.3, -1.7, 2.2}, {300, -1700, 2200}};

template <class P> static Transform_<P> xformOf(const std::vector<Rotation_<P>>& S, int idx) {
    const double* p = TRANS[idx % 4];
    return Transform_<P>(S[idx / 4], Vec<3, P>((P)p[0], (P)p[1], (P)p[2]));
}

template <class P> static void caseXformPair(verif::Run& run, const std::vector<Rotation_<P>>& S, int i, int j) {
    const std::string t = std::string(".") + Prec<P>::tag();
    Where W; W.hdr = run.replayHeader(); W.s = fmt("P=%s transform pair (R%d,p%d) (R%d,p%d)", Prec<P>::tag(), i / 4, i % 4, j / 4, j % 4);
    run.evaluationDistinct(i != j);
    const Transform_<P> A = xformOf(S, i), B = xformOf(S, j);
    const X4 a = toX4(A), b = toX4(B), ai = xinv(a), bi = xinv(b);
    const double tol = TOL<P>() * (double)(1 + ref::maxAbs(a.p) + ref::maxAbs(b.p));
    auto cmp = [&](const char* op, const Transform_<P>& got, const X4& want) {
        run.residual(NM("transform-composition"), (double)xdiff(toX4(got), want) / (tol / TOL<P>()), TOL<P>(), [&] { return std::string(op) + " at " + W.s; }, W.r(), op);
    };
    cmp("X1*X2", A * B, xmul(a, b));
    cmp("X1*~X2", A * ~B, xmul(a, bi));
    cmp("~X1*X2", ~A * B, xmul(ai, b));
    cmp("~X1*~X2", ~A * ~B, xmul(ai, bi));
    cmp("X1.compose(X2)", A.compose(B), xmul(a, b));
    cmp("X1.compose(~X2)", A.compose(~B), xmul(a, bi));
    cmp("(~X1).compose(X2)", (~A).compose(B), xmul(ai, b));
    cmp("(~X1).compose(~X2)", (~A).compose(~B), xmul(ai, bi));
    { Transform_<P> C; C = ~B; cmp("X=~X2", C, bi); }
    { Transform_<P> C = ~B; cmp("Transform(~X2)", C, bi); }
    { Transform_<P> C; C.updInvert() = B; cmp("~X=X2", C, bi); }
    // 4x4 matrix product as the definition
    {
        Mat<4, 4, P> m = (A * B).toMat44(), ma = A.toMat44(), mb = B.toMat44(), mi = (~A).toMat44();
        LD worst = 0;
        for (int r = 0; r < 4; ++r) for (int c = 0; c < 4; ++c) {
            LD s = 0; for (int k = 0; k < 4; ++k) s += (LD)ma(r, k) * (LD)mb(k, c);
            worst = fmaxl(worst, fabsl(s - (LD)m(r, c)));
            LD s2 = 0; for (int k = 0; k < 4; ++k) s2 += (LD)ma(r, k) * (LD)mi(k, c);
            worst = fmaxl(worst, fabsl(s2 - (r == c ? 1 : 0)));
        }
        run.residual(NM("transform-as-4x4-matrix"), (double)worst / (tol / TOL<P>()), TOL<P>(), W.w(), W.r());
        bool last = m(3, 0) == 0 && m(3, 1) == 0 && m(3, 2) == 0 && m(3, 3) == 1 && A.toMat34() == A.asMat34();
        for (int r = 0; r < 3; ++r) { for (int c = 0; c < 3; ++c) if (ma(r, c) != A.R().asMat33()(r, c)) last = false; if (ma(r, 3) != A.p()[r]) last = false; }
        run.expect(last, NM("transform-matrix-layout"), [&] { return "toMat44/toMat34/asMat34 layout wrong at " + W.s; }, W.r());
    }
    // B's origin and axes seen through A: stations, vectors, augmented 4-vectors
    {
        const Vec<3, P> s = B.p(); const V3 sv = b.p;
        LD w = 0;
        w = fmaxl(w, ref::maxAbsDiff(ref::toV3(A * s), ref::add(a.p, ref::mul(a.R, sv))));
        w = fmaxl(w, ref::maxAbsDiff(ref::toV3(~A * s), ref::add(ai.p, ref::mul(ai.R, sv))));
        w = fmaxl(w, ref::maxAbsDiff(ref::toV3(A.shiftFrameStationToBase(s)), ref::add(a.p, ref::mul(a.R, sv))));
        w = fmaxl(w, ref::maxAbsDiff(ref::toV3(A.shiftBaseStationToFrame(s)), ref::add(ai.p, ref::mul(ai.R, sv))));
        w = fmaxl(w, ref::maxAbsDiff(ref::toV3((~A).shiftFrameStationToBase(s)), ref::add(ai.p, ref::mul(ai.R, sv))));
        w = fmaxl(w, ref::maxAbsDiff(ref::toV3((~A).shiftBaseStationToFrame(s)), ref::add(a.p, ref::mul(a.R, sv))));
        w = fmaxl(w, ref::maxAbsDiff(ref::toV3(A.xformFrameVecToBase(s)), ref::mul(a.R, sv)));
        w = fmaxl(w, ref::maxAbsDiff(ref::toV3(A.xformBaseVecToFrame(s)), ref::mul(ai.R, sv)));
        w = fmaxl(w, ref::maxAbsDiff(ref::toV3((~A).xformFrameVecToBase(s)), ref::mul(ai.R, sv)));
        w = fmaxl(w, ref::maxAbsDiff(ref::toV3((~A).xformBaseVecToFrame(s)), ref::mul(a.R, sv)));
        Vec<4, P> s1(s[0], s[1], s[2], 1), s0(s[0], s[1], s[2], 0);
        Vec<4, P> r1 = A * s1, r0 = A * s0, q1 = ~A * s1, q0 = ~A * s0;
        w = fmaxl(w, ref::maxAbsDiff(ref::toV3(r1), ref::add(a.p, ref::mul(a.R, sv))));
        w = fmaxl(w, ref::maxAbsDiff(ref::toV3(r0), ref::mul(a.R, sv)));
        w = fmaxl(w, ref::maxAbsDiff(ref::toV3(q1), ref::add(ai.p, ref::mul(ai.R, sv))));
        w = fmaxl(w, ref::maxAbsDiff(ref::toV3(q0), ref::mul(ai.R, sv)));
        run.expect(r1[3] == 1 && r0[3] == 0 && q1[3] == 1 && q0[3] == 0, NM("transform-augmented-vector-tag"), [&] { return "4th element not preserved at " + W.s; }, W.r());
        run.residual(NM("transform-applied-to-points-and-vectors"), (double)w / (tol / TOL<P>()), TOL<P>(), W.w(), W.r());
        // inverse translation accessors and setters
        LD v = 0;
        v = fmaxl(v, ref::maxAbsDiff(ref::toV3(A.pInv()), ai.p));
        v = fmaxl(v, ref::maxAbsDiff(ref::toV3((~A).p()), ai.p));
        v = fmaxl(v, ref::maxAbsDiff(ref::toV3((~A).pInv()), a.p));
        { Transform_<P> C = A; C.setPInv(s); v = fmaxl(v, ref::maxAbsDiff(ref::toV3(C.pInv()), sv)); v = fmaxl(v, ref::maxAbsDiff(ref::toV3(C.p()), ref::scale(ref::mul(a.R, sv), -1))); }
        { Transform_<P> C = A; C.updInvert().setP(s); v = fmaxl(v, ref::maxAbsDiff(ref::toV3((~C).p()), sv)); }
        { Transform_<P> C = A; C.updInvert().setPInv(s); v = fmaxl(v, ref::maxAbsDiff(ref::toV3(C.p()), sv)); }
        { Transform_<P> C = A; C += s; C -= s; Transform_<P> D = (A + s) - s, E = s + A; v = fmaxl(v, ref::maxAbsDiff(ref::toV3(C.p()), a.p)); v = fmaxl(v, ref::maxAbsDiff(ref::toV3(D.p()), a.p)); v = fmaxl(v, ref::maxAbsDiff(ref::toV3(E.p()), ref::add(a.p, sv))); }
        run.residual(NM("transform-translation-accessors"), (double)v / (tol / TOL<P>()), TOL<P>(), W.w(), W.r());
        bool views = true;
        for (int r = 0; r < 3; ++r) for (int c = 0; c < 3; ++c) {
            if (A.RInv().asMat33()(r, c) != A.R().asMat33()(c, r)) views = false;
            if ((~A).R().asMat33()(r, c) != A.R().asMat33()(c, r)) views = false;
            if ((~A).RInv().asMat33()(r, c) != A.R().asMat33()(r, c)) views = false;
        }
        for (int r = 0; r < 3; ++r) if (A.x()[r] != A.R().asMat33()(r, 0) || A.y()[r] != A.R().asMat33()(r, 1) || A.z()[r] != A.R().asMat33()(r, 2) || (~A).x()[r] != A.R().asMat33()(0, r)) views = false;
        run.expect(views, NM("transform-rotation-views"), [&] { return "R()/RInv()/x()/y()/z() views inconsistent at " + W.s; }, W.r());
    }
    run.outcome(verif::hashPod((A * B).asMat34()));
}

// ---------------------------------------------------------------- section X: in-place inversion and API-shape facts
template <class P> static void caseInPlace(verif::Run& run, const std::vector<Rotation_<P>>& S, int i) {
    const std::string t = std::string(".") + Prec<P>::tag();
    Where W; W.hdr = run.replayHeader(); W.s = fmt("P=%s transform (R%d,p%d)", Prec<P>::tag(), i / 4, i % 4);
    run.evaluationDistinct(true);
    const Transform_<P> A = xformOf(S, i);
    const X4 a = toX4(A), ai = xinv(a);
    const double scl = (double)(1 + ref::maxAbs(a.p));
    {   // Transform.h: "in case X and this are the same object, i.e. we're doing X = ~X, inverting X in place"
        Transform_<P> C = A; C = ~C;
        run.residual(NM("inplace-invert-Transform"), (double)xdiff(toX4(C), ai) / scl, TOL<P>(), W.w(), W.r());
        if (run.verbose) printf("%s\n  X = ~X gives R = %s p = %s\n  expected  R = %s p = %s\n", W.s.c_str(), ref::str(ref::toM3(C.R())).c_str(), ref::str(ref::toV3(C.p())).c_str(), ref::str(ai.R).c_str(), ref::str(ai.p).c_str());
    }
    {   // "~X = X which is weird but has the same meaning as X = ~X, i.e. invert X in place"
        Transform_<P> C = A; C.updInvert() = C;
        run.residual(NM("inplace-invert-InverseTransform"), (double)xdiff(toX4(C), ai) / scl, TOL<P>(), W.w(), W.r());
    }
    {   // every Rotation produced by a public assignment must be a rotation
        Rotation_<P> R = A.R(); R = ~R;
        run.residual(NM("inplace-invert-Rotation"), (double)ref::maxAbsDiff(ref::toM3(R), ai.R), TOL<P>(), W.w(), W.r());
    }
}

// ---------------------------------------------------------------- driver
template <class P> static void runAll(verif::Run& run) {
    const std::string t = std::string(".") + Prec<P>::tag();
    // TH: base alphabet (first and last angle of a three-angle sequence); TH2: with the thorough-tier extras (more ulp steps
    // below pi/2 and pi, more eps scales) -- used for the middle angle, which alone decides the singular branches, and for
    // the cheaper families.  In the quick tier both are the same.
    const std::vector<double> TH = thetaAlphabet<P>(run, false), TH2 = thetaAlphabet<P>(run, true);
    const int n = (int)TH.size(), n2 = (int)TH2.size();
    run.count(NM("alphabet-size"), n); run.count(NM("alphabet-size-middle-angle"), n2);
    const std::vector<Rotation_<P>> S = rotationSet<P>(run);
    const int nS = (int)S.size();
    const std::vector<V3> L = latticeDirs();

    {   // A
        verif::Odometer od; od.dim("a3", n); od.dim("a2", n2); od.dim("a1", n); od.dim("x3", 3); od.dim("x2", 3); od.dim("x1", 3); od.dim("space", 2);
        run.parallel(NM("three"), od.size(), [&](int64_t idx) {
            auto d = od.digits(idx);
            caseThree<P>(run, d[6], d[5], d[4], d[3], TH[d[2]], TH2[d[1]], TH[d[0]], false);
        });
    }
    {   // B
        verif::Odometer od; od.dim("a2", n2); od.dim("a1", n2); od.dim("x2", 3); od.dim("x1", 3); od.dim("space", 2);
        run.parallel(NM("two"), od.size(), [&](int64_t idx) { auto d = od.digits(idx); caseTwo<P>(run, d[4], d[3], d[2], TH2[d[1]], TH2[d[0]]); });
    }
    {   // C
        verif::Odometer od; od.dim("a", n2); od.dim("x", 3);
        run.parallel(NM("one"), od.size(), [&](int64_t idx) { auto d = od.digits(idx); caseOne<P>(run, d[1], TH2[d[0]]); });
    }
    {   // D
        static const double SC[3] = {1, 1e-3, 1e3};
        verif::Odometer od; od.dim("a", n2); od.dim("dir", 26); od.dim("scale", 3);
        run.parallel(NM("angleaxis"), od.size(), [&](int64_t idx) { auto d = od.digits(idx); caseAngleAxis<P>(run, TH2[d[0]], L[d[1]], SC[d[2]]); });
    }
    {   // E
        run.parallel(NM("quatpair"), (int64_t)nS * nS, [&](int64_t idx) { caseQuatPair<P>(run, S, (int)(idx / nS), (int)(idx % nS)); });
        run.parallel(NM("quatctor"), (int64_t)nS * 7, [&](int64_t idx) { caseQuatCtor<P>(run, S, (int)(idx / 7), (int)(idx % 7)); });
        run.parallel(NM("quatnoncanon"), (int64_t)nS * nS, [&](int64_t idx) { caseQuatNonCanonical<P>(run, S, (int)(idx / nS), (int)(idx % nS)); });
        const P e = (P)Prec<P>::angEps(), pi = NTraits<P>::getPi();
        const std::vector<double> WIDE = {(double)(pi + e), (double)-(pi + e), 3.5, -4.0, 5.0, (double)(2 * pi - e), (double)-(2 * pi - e), (double)(2 * pi), 6.6, -7.0, (double)(3 * pi), 10.0, (double)TH[1], (double)(pi - e)};
        verif::Odometer ow; ow.dim("a", (int64_t)WIDE.size()); ow.dim("dir", 26);
        run.parallel(NM("quatwide"), ow.size(), [&](int64_t idx) { auto d = ow.digits(idx); caseQuatWideAngle<P>(run, WIDE[d[0]], L[d[1]]); });
    }
    {   // F
        struct VV { V3 v; std::string name; };
        auto variants = [&](const V3& u) {
            std::vector<VV> out;
            for (int k = 0; k < 26; ++k) {
                out.push_back({L[k], fmt("w%d", k)});
                out.push_back({ref::add(u, ref::scale(L[k], 1e-2L)), fmt("u+1e-2*w%d", k)});
                out.push_back({ref::add(u, ref::scale(L[k], 2e-3L)), fmt("u+2e-3*w%d", k)});
                out.push_back({ref::add(u, ref::scale(L[k], 1e-5L)), fmt("u+1e-5*w%d", k)});
                // the construction is documented for any non-zero v: its length must not matter
                out.push_back({ref::scale(L[k], 1e9L), fmt("1e9*w%d", k)});
                out.push_back({ref::scale(L[k], 1e-9L), fmt("1e-9*w%d", k)});
                out.push_back({ref::scale(ref::add(u, ref::scale(L[k], 1e-2L)), 1e7L), fmt("1e7*(u+1e-2*w%d)", k)});
            }
            out.push_back({ref::scale(u, 2), "2u"}); out.push_back({ref::scale(u, -1), "-u"}); out.push_back({ref::vec(0, 0, 0), "zero"});
            return out;
        };
        const int nV = 26 * 7 + 3;
        verif::Odometer od; od.dim("v", nV); od.dim("u", 26); od.dim("xj", 3); od.dim("xi", 3);
        run.parallel(NM("twoaxes"), od.size(), [&](int64_t idx) {
            auto d = od.digits(idx);
            auto vs = variants(L[d[1]]);
            caseTwoAxes<P>(run, d[3], d[2], L[d[1]], vs[d[0]].v, vs[d[0]].name.c_str());
        });
        std::vector<V3> U = L;
        for (int a = 0; a < 3; ++a) for (int b = 0; b < 3; ++b) if (a != b) for (LD dl : {(LD)1e-4, (LD)1e-9}) { V3 v = ref::vec(0, 0, 0); v[a] = 1; v[b] = dl; U.push_back(v); v[a] = -1; U.push_back(v); }
        static const double SC[3] = {1, 1e-3, 1e3};
        verif::Odometer o1; o1.dim("u", (int64_t)U.size()); o1.dim("scale", 3); o1.dim("xi", 3);
        run.parallel(NM("oneaxis"), o1.size(), [&](int64_t idx) { auto d = o1.digits(idx); caseOneAxis<P>(run, d[2], ref::scale(U[d[0]], SC[d[1]])); });
    }
    {   // G
        std::vector<int> base = {0, 5, 13, 22, 24, 26, nS - 4, nS - 2};
        std::vector<double> deltas = std::is_same<P, double>::value ? std::vector<double>{1e-10, 1e-6, 1e-3} : std::vector<double>{1e-5, 1e-3};
        verif::Odometer od; od.dim("code", 19683); od.dim("delta", (int64_t)deltas.size()); od.dim("base", run.thorough() ? (int64_t)base.size() : 4);
        std::vector<int> order = run.thorough() ? base : std::vector<int>{0, 13, 24 + (int)(((run.seed % 3) + 3) % 3), nS - 4};
        run.parallel(NM("approx"), od.size(), [&](int64_t idx) { auto d = od.digits(idx); caseApprox<P>(run, S[order[d[2]]], order[d[2]], deltas[d[1]], d[0]); });
    }
    {   // H
        run.parallel(NM("rotpair"), (int64_t)nS * nS, [&](int64_t idx) { caseRotPair<P>(run, S, (int)(idx / nS), (int)(idx % nS)); });
        run.parallel(NM("reexpress"), (int64_t)nS * 11, [&](int64_t idx) { caseReexpress<P>(run, S, (int)(idx / 11), (int)(idx % 11)); });
    }
    {   // T, X
        const int nX = 4 * nS;
        run.parallel(NM("xformpair"), (int64_t)nX * nX, [&](int64_t idx) { caseXformPair<P>(run, S, (int)(idx / nX), (int)(idx % nX)); });
        run.parallel(NM("inplace"), nX, [&](int64_t idx) { caseInPlace<P>(run, S, (int)idx); });
    }
    // API shape: every operator/ combination the header documents must exist for this precision
    if (!run.replaying())
        run.expect(CanDivideByInverse<P>::value, NM("operator-div-Rotation-by-InverseRotation-exists"),
                   [&] { return fmt("Rotation_<%s> / InverseRotation_<%s> does not compile: Rotation.h declares operator/(const Rotation_<P>&, const InverseRotation&) with the Real typedef instead of InverseRotation_<P>", Prec<P>::tag(), Prec<P>::tag()); },
                   [&] { return std::string("section=api-shape\nitem=0\n"); });
}

int main(int argc, char** argv) {
    verif::Run run("C27", argc, argv);
    run.setDeadline(900, 3400);   // guards only; the measured cost is in the notes
    run.rule = "E3: every tuple of (precision, body/space, axis triple out of all 27, three angles from the alphabet) and the analogous tuples for two-angle, one-angle, "
               "angle-axis (26 lattice directions x 3 lengths), quaternion pairs / scalings over the rotation set (24 cube rotations + generic + near-singular), two-axes "
               "construction (9 axis pairs x 26 x 107 second vectors), nearly-orthogonal input (3^9 perturbation lattice x deltas x base rotations), rotation pairs, transform pairs; "
               "a case is one tuple; distinct by construction of the odometer; non-trivial = not the all-zero / identical-pair tuple";
    run.assumptions = {"angle alphabet: 0, +-eps, +-pi/6, +-(pi/2-eps), +-pi/2, +-(pi/2+eps), +-(pi-eps), +-pi, the values 3 and 4 ulps below pi/2 and 1-2 ulps below pi and +-8e-16/+-1e-15 (both sides of the `Rsum > 4*Eps` tests), 2 generic values chosen by VERIF_SEED (thorough: all 6 generic values, and for the middle angle / the cheaper families 22 more values: 1,2,5,6,40 ulps below pi/2, eps in {1e-12,1e-9,1e-5}); eps = 1e-7 (double) / 1e-3 (float)",
                       "reference arithmetic in x87 long double (64-bit mantissa)",
                       "round trips are demanded at matrix level (angles are not unique); for rotations not written by the three-angle setter the tight bound is scaled by the condition number 1/|cos th2| resp. 1/|sin th2|, and a loose bound 30*sqrt(eps) is demanded unscaled",
                       "two-axes construction: the second axis is compared only when sin(angle(u,v)) >= 1e-3 (the fallback threshold of the code is undocumented)"};
    runAll<double>(run);
    runAll<float>(run);
    return run.finish();
}
