// C25 -- Matrix and vector objects and views behave like real matrices.
// Engine E2: every view-composition chain (depth <= 3) over a base matrix x one operation, against a
// dense index-map reference; fixed-size Vec/Row/Mat/SymMat arithmetic over a small dyadic entry alphabet.
// Values are small dyadic rationals, so every +,-,* the library performs is exact in float and double
// and results are compared for equality; only sqrt/inverse-type results carry a (scaled) tolerance.
#include "SimTKcommon.h"
#include "verif.h"

#include <complex>

using namespace SimTK;
typedef long double LD;

// ================================================================ raw interpretation of elements
// An element is a packed array of scalars; a scalar is P, complex<P>, conjugate<P> or a negator<> of those.
// Documented representation: negator<N> stores N and denotes its negative; conjugate<P> stores (re, negIm)
// and denotes re - negIm*i.  decode() reads the raw memory with these rules only (no library arithmetic).
template <class S> struct ST;
template <> struct ST<float>  { typedef float P;  static const bool cplx = false, neg = false, conj = false; };
template <> struct ST<double> { typedef double P; static const bool cplx = false, neg = false, conj = false; };
template <class P_> struct ST<std::complex<P_> > { typedef P_ P; static const bool cplx = true, neg = false, conj = false; };
template <class P_> struct ST<conjugate<P_> >    { typedef P_ P; static const bool cplx = true, neg = false, conj = true; };
template <class N> struct ST<negator<N> > { typedef typename ST<N>::P P; static const bool cplx = ST<N>::cplx, neg = !ST<N>::neg, conj = ST<N>::conj; };

// short tag of a scalar type: R, -R, C, ~C, -C, -~C with f for float
template <class S> static std::string typeTag() { typedef ST<S> T; std::string t = T::neg ? "-" : ""; if (T::conj) t += "~"; t += T::cplx ? "C" : "R"; if (sizeof(typename T::P) == 4) t += "f"; return t; }

static const int MAXR = 12;   // max real numbers per element handled
template <class ELT> struct ET {
    typedef typename CNT<ELT>::Scalar S; typedef ST<S> T; typedef typename T::P P;
    static const int NS = sizeof(ELT) / sizeof(S);
    static const int NR = NS * (T::cplx ? 2 : 1);
    static void decode(const ELT& e, LD* out) {
        static_assert(sizeof(ELT) == NS * sizeof(S), "packed element");
        static_assert(NR <= MAXR, "element too big");
        const P* raw = reinterpret_cast<const P*>(&e);
        for (int k = 0; k < NR; ++k) { LD v = raw[k]; if (T::cplx && (k & 1) && T::conj) v = -v; if (T::neg) v = -v; out[k] = v; }
    }
    static ELT encode(const LD* in) {
        alignas(ELT) unsigned char buf[sizeof(ELT)]; P* raw = reinterpret_cast<P*>(buf);
        for (int k = 0; k < NR; ++k) { LD v = in[k]; if (T::neg) v = -v; if (T::cplx && (k & 1) && T::conj) v = -v; raw[k] = (P)v; }
        return *reinterpret_cast<ELT*>(buf);
    }
};
static bool sameNum(LD a, LD b) { return (std::isnan((double)a) && std::isnan((double)b)) || a == b; }

// ================================================================ the reference model
struct Cell { int r, c; };
struct View {             // index map of a view onto the base + element transform
    int nr = 0, nc = 0; std::vector<Cell> cell; bool neg = false, herm = false;
    bool isCol = false, isRow = false;   // the handle is a genuine (Row)Vector view (created by col/row/diag/index or their transposes)
    bool indexOfNonContiguous = false;   // some index() step was applied to a strided or already indexed vector
    Cell& at(int i, int j) { return cell[(size_t)j * nr + i]; }
    const Cell& at(int i, int j) const { return cell[(size_t)j * nr + i]; }
};
struct BaseModel {
    int m = 0, n = 0, NR = 1; bool cplx = false;
    std::vector<LD> v;        // logical values, base element (r,c) scalar k at ((c*m)+r)*NR+k
    LD& at(int r, int c, int k) { return v[((size_t)c * m + r) * NR + k]; }
    LD at(int r, int c, int k) const { return v[((size_t)c * m + r) * NR + k]; }
};
// logical value of view element (i,j), and the inverse (both the same involution)
static void xform(const View& w, bool cplx, int NR, const LD* in, LD* out) {
    for (int k = 0; k < NR; ++k) { LD x = in[k]; if (w.herm && cplx && (k & 1)) x = -x; if (w.neg) x = -x; out[k] = x; }
}
static void viewGet(const BaseModel& b, const View& w, int i, int j, LD* out) { const Cell& c = w.at(i, j); xform(w, b.cplx, b.NR, &b.v[((size_t)c.c * b.m + c.r) * b.NR], out); }
static void viewSet(BaseModel& b, const View& w, int i, int j, const LD* in) { const Cell& c = w.at(i, j); xform(w, b.cplx, b.NR, in, &b.v[((size_t)c.c * b.m + c.r) * b.NR]); }

// ---------------------------------------------------------------- view steps
enum Step { BLK_FULL, BLK_DROPROW0, BLK_DROPCOL0, BLK_DROPLAST, BLK_INNER, BLK_NOROWS, ROW_FIRST, ROW_LAST, COL_FIRST, COL_LAST, DIAG, TRANSPOSE, NEGATE, INDEX_EVEN, INDEX_ENDS, NSTEPS };
static const char* STEPNAME[NSTEPS] = {"block(0,0,m,n)", "block(1,0,m-1,n)", "block(0,1,m,n-1)", "block(0,0,m-1,n-1)", "block(1,1,m-2,n-2)", "block(0,0,0,n)", "row(0)", "row(last)", "col(0)", "col(last)", "diag", "~", "negate", "index(even)", "index(first,last)"};
static bool stepLegal(int s, const View& w) {
    const int nr = w.nr, nc = w.nc;
    switch (s) {
        case BLK_FULL: case BLK_NOROWS: case DIAG: case TRANSPOSE: case NEGATE: return true;
        case BLK_DROPROW0: return nr >= 1; case BLK_DROPCOL0: return nc >= 1; case BLK_DROPLAST: return nr >= 1 && nc >= 1;
        case BLK_INNER: return nr >= 2 && nc >= 2;
        case ROW_FIRST: return nr >= 1; case ROW_LAST: return nr >= 2; case COL_FIRST: return nc >= 1; case COL_LAST: return nc >= 2;
        case INDEX_EVEN: return (w.isCol && nr >= 1) || (w.isRow && nc >= 1);    // index() exists on VectorBase / RowVectorBase only
        case INDEX_ENDS: return (w.isCol && nr >= 2) || (w.isRow && nc >= 2);
    }
    return false;
}
static bool contiguous(const View& w, int ld) { for (size_t k = 0; k + 1 < w.cell.size(); ++k) if ((w.cell[k + 1].c * ld + w.cell[k + 1].r) - (w.cell[k].c * ld + w.cell[k].r) != 1) return false; return true; }
static View blockOf(const View& w, int i0, int j0, int m, int n) { View o; o.nr = m; o.nc = n; o.neg = w.neg; o.herm = w.herm; o.indexOfNonContiguous = w.indexOfNonContiguous; o.cell.resize((size_t)m * n); for (int j = 0; j < n; ++j) for (int i = 0; i < m; ++i) o.at(i, j) = w.at(i0 + i, j0 + j); return o; }
static std::vector<int> indexList(int s, int len) { std::vector<int> ix; if (s == INDEX_EVEN) for (int i = 0; i < len; i += 2) ix.push_back(i); else { ix.push_back(0); ix.push_back(len - 1); } return ix; }
static View stepModel0(const View& w, int s, int ld) {
    const int nr = w.nr, nc = w.nc;
    switch (s) {
        case BLK_FULL: return blockOf(w, 0, 0, nr, nc);
        case BLK_DROPROW0: return blockOf(w, 1, 0, nr - 1, nc);
        case BLK_DROPCOL0: return blockOf(w, 0, 1, nr, nc - 1);
        case BLK_DROPLAST: return blockOf(w, 0, 0, nr - 1, nc - 1);
        case BLK_INNER: return blockOf(w, 1, 1, nr - 2, nc - 2);
        case BLK_NOROWS: return blockOf(w, 0, 0, 0, nc);
        case ROW_FIRST: { View o = blockOf(w, 0, 0, 1, nc); o.isRow = true; return o; }
        case ROW_LAST: { View o = blockOf(w, nr - 1, 0, 1, nc); o.isRow = true; return o; }
        case COL_FIRST: { View o = blockOf(w, 0, 0, nr, 1); o.isCol = true; return o; }
        case COL_LAST: { View o = blockOf(w, 0, nc - 1, nr, 1); o.isCol = true; return o; }
        case DIAG: { View o; int d = std::min(nr, nc); o.nr = d; o.nc = 1; o.neg = w.neg; o.herm = w.herm; o.isCol = true; o.indexOfNonContiguous = w.indexOfNonContiguous; o.cell.resize(d); for (int i = 0; i < d; ++i) o.at(i, 0) = w.at(i, i); return o; }
        case TRANSPOSE: { View o; o.nr = nc; o.nc = nr; o.neg = w.neg; o.herm = !w.herm; o.indexOfNonContiguous = w.indexOfNonContiguous; o.cell.resize((size_t)nr * nc); for (int j = 0; j < nr; ++j) for (int i = 0; i < nc; ++i) o.at(i, j) = w.at(j, i); return o; }
        case NEGATE: { View o = w; o.neg = !w.neg; return o; }
        case INDEX_EVEN: case INDEX_ENDS: {
            const bool col = w.isCol; std::vector<int> ix = indexList(s, col ? nr : nc);
            View o; o.neg = w.neg; o.herm = w.herm; o.isCol = col; o.isRow = !col; o.indexOfNonContiguous = w.indexOfNonContiguous || !contiguous(w, ld); o.nr = col ? (int)ix.size() : 1; o.nc = col ? 1 : (int)ix.size(); o.cell.resize(ix.size());
            for (size_t k = 0; k < ix.size(); ++k) o.cell[k] = col ? w.at(ix[k], 0) : w.at(0, ix[k]);
            return o; }
    }
    return w;
}
static View stepModel(const View& w, int s, int ld) {
    View o = stepModel0(w, s, ld);
    if (s == NEGATE) { o.isCol = w.isCol; o.isRow = w.isRow; }
    else if (s == TRANSPOSE) { o.isCol = w.isRow; o.isRow = w.isCol; }
    else if (s <= BLK_NOROWS) { o.isCol = w.isCol && o.nc == 1; o.isRow = w.isRow && o.nr == 1; }   // a block of a vector helper stays a vector helper while it keeps its orientation
    return o;
}

// ================================================================ one case
enum OpKind { OP_READ, OP_SETTO, OP_SCALAR_ASSIGN, OP_SETZERO, OP_ELT_WRITE, OP_ADD, OP_SUB, OP_ADD_NEG, OP_SUB_NEG, OP_MUL_S, OP_DIV_S, OP_NEGATE_INPLACE,
              OP_NORMS, OP_SUMS, OP_COPY, OP_COPY_NEG, OP_ASSIGN_IN, OP_ASSIGN_OUT, OP_VIEW_ASSIGN, OP_PRODUCT, OP_GLOBAL, OP_ELTWISE, OP_STANDARDIZE, OP_VECTOR, OP_DIAG_PLUS, NOPS };
static const char* OPNAME[NOPS] = {"read", "setTo(e)", "V=e", "setToZero", "V(i,j)=e", "V+=W", "V-=W", "V+=(-W)", "V-=(-W)", "V*=s", "V/=s", "negateInPlace",
                                   "norms", "sums", "copy", "copy-from-negated", "V=W", "W=V", "viewAssign", "product", "global+-*", "elementwise", "standardize/abs", "as-vector", "V+=e"};

struct Ctx {
    verif::Run* run; std::string where;   // description of the case
    bool writeOp = false;                  // the operation is expected to write through the view
    bool indexOfNonContiguous = false;     // input class: an index() view was taken of a strided or indexed vector
    std::string keyFor(const std::string& k) const { return indexOfNonContiguous ? std::string("indexed-view-of-noncontiguous-vector") : k; }
};
static Ctx* g_cx = nullptr;
#define EXPECT(cond, key, ...) do { bool ok_ = (cond); cx.run->expect(ok_, cx.keyFor(key), [&] { char b_[600]; snprintf(b_, sizeof b_, __VA_ARGS__); return std::string(b_) + " at " + cx.where; }, [&] { return cx.run->replayHeader(); }); } while (0)

template <class E0> struct Base {   // the real base matrix, either an owner or a view of a padded external buffer
    typedef ET<E0> T; typedef typename T::S S;
    int m, n, kind; std::vector<S> buf; int ld = 0; Matrix_<E0>* M = nullptr; BaseModel bm;
    static LD initVal(int lin) { if (lin == 4) return 0; LD v = (lin % 29 + 1) * 0.5L; return lin % 3 == 0 ? -v : v; }
    Base(int m_, int n_, int kind_) : m(m_), n(n_), kind(kind_) {
        bm.m = m; bm.n = n; bm.NR = T::NR; bm.cplx = T::T::cplx; bm.v.resize((size_t)m * n * T::NR);
        if (kind == 0) M = new Matrix_<E0>(m, n);
        else { ld = (m + 2) * T::NS; buf.assign((size_t)ld * (n + 2) + 8, guard()); M = new Matrix_<E0>(m, n, ld, buf.data() + ld + T::NS); }
        for (int c = 0; c < n; ++c) for (int r = 0; r < m; ++r) { LD e[MAXR]; for (int k = 0; k < T::NR; ++k) { e[k] = initVal((c * m + r) * T::NR + k); bm.at(r, c, k) = e[k]; } (*M)(r, c) = T::encode(e); }
    }
    ~Base() { delete M; }
    static S guard() { LD g[2] = {777.25L, -555.5L}; return ET<S>::encode(g); }
    bool guardsIntact() const {
        if (kind == 0) return true;
        S g = guard(); const unsigned char* gb = reinterpret_cast<const unsigned char*>(&g);
        for (size_t i = 0; i < buf.size(); ++i) {
            long off = (long)i - (ld + T::NS); bool inside = false;
            if (off >= 0) { long c = off / ld, r = off % ld; inside = c < n && r < (long)m * T::NS; }
            if (!inside && memcmp(&buf[i], gb, sizeof(S)) != 0) return false;
        }
        return true;
    }
};

// compare the real base against the model: viewed cells numerically, all other cells bitwise against the snapshot
template <class E0> static void checkBase(Ctx& cx, Base<E0>& B, const View& w, const std::vector<unsigned char>& snap, const char* opname) {
    typedef ET<E0> T;
    std::vector<char> touched((size_t)B.m * B.n, 0);
    if (cx.writeOp) for (const Cell& c : w.cell) touched[(size_t)c.c * B.m + c.r] = 1;
    bool okVals = true, okUntouched = true; std::string bad;
    for (int c = 0; c < B.n; ++c) for (int r = 0; r < B.m; ++r) {
        const E0& e = (*B.M)(r, c); LD got[MAXR]; T::decode(e, got);
        for (int k = 0; k < T::NR; ++k) if (!sameNum(got[k], B.bm.at(r, c, k))) { if (okVals) bad = "base(" + std::to_string(r) + "," + std::to_string(c) + ")[" + std::to_string(k) + "]=" + verif::fmtd((double)got[k]) + " expected " + verif::fmtd((double)B.bm.at(r, c, k)); okVals = false; }
        if (!touched[(size_t)c * B.m + r] && memcmp(&e, &snap[((size_t)c * B.m + r) * sizeof(E0)], sizeof(E0)) != 0) { if (okUntouched) bad += " untouched base(" + std::to_string(r) + "," + std::to_string(c) + ") changed"; okUntouched = false; }
    }
    { uint64_t oh = verif::fnv1a(B.bm.v.data(), B.bm.v.size() * sizeof(LD)); if ((oh & 63) == 0) cx.run->outcome(oh); }   // a deterministic 1/64 sample of the distinct outcomes (vacuity guard only)
    EXPECT(okVals, std::string("base-values/") + opname, "after %s: %s", opname, bad.c_str());
    EXPECT(okUntouched, std::string("write-outside-view/") + opname, "after %s: %s", opname, bad.c_str());
    EXPECT(B.guardsIntact(), std::string("write-outside-matrix/") + opname, "after %s the padding around the external data was modified", opname);
}

template <class ELT> static bool eltIs(const ELT& e, const LD* want, LD* got) { ET<ELT>::decode(e, got); for (int k = 0; k < ET<ELT>::NR; ++k) if (!sameNum(got[k], want[k])) return false; return true; }
static std::string vecStr(const LD* v, int n) { std::string s = "("; for (int k = 0; k < n; ++k) s += (k ? "," : "") + verif::fmtd((double)v[k]); return s + ")"; }

// compare a result matrix R (any element type with NR reals) with expected logical values exp[(j*nr+i)*NR+k]
template <class ER> static void checkResult(Ctx& cx, const MatrixBase<ER>& R, int nr, int nc, const std::vector<LD>& exp, const char* key, const char* what) {
    bool okShape = R.nrow() == nr && R.ncol() == nc;
    EXPECT(okShape, std::string("result-shape/") + key, "%s has shape %dx%d, expected %dx%d", what, R.nrow(), R.ncol(), nr, nc);
    if (!okShape) return;
    bool ok = true; std::string bad;
    for (int j = 0; j < nc && ok; ++j) for (int i = 0; i < nr && ok; ++i) { LD got[MAXR]; if (!eltIs(R(i, j), &exp[((size_t)j * nr + i) * ET<ER>::NR], got)) { ok = false; bad = "(" + std::to_string(i) + "," + std::to_string(j) + ")=" + vecStr(got, ET<ER>::NR) + " expected " + vecStr(&exp[((size_t)j * nr + i) * ET<ER>::NR], ET<ER>::NR); } }
    EXPECT(ok, std::string("result-values/") + key, "%s %s", what, bad.c_str());
}

template <class ELT> struct IsScalarElt { static const bool value = ET<ELT>::NS == 1; };

// operand values for W (distinct from the base), e (an element) and the scalar s
static LD wVal(int lin) { LD v = ((lin * 7) % 23 + 2) * 0.25L; return lin % 4 == 1 ? -v : v; }

// complex-aware multiply of one scalar (NR-wise) by the std number s = (sr, si)
static void mulScalar(bool cplx, int NR, const LD* a, LD sr, LD si, LD* out) {
    if (!cplx) { for (int k = 0; k < NR; ++k) out[k] = a[k] * sr; return; }
    for (int k = 0; k < NR; k += 2) { out[k] = a[k] * sr - a[k + 1] * si; out[k + 1] = a[k] * si + a[k + 1] * sr; }
}

template <class P> struct StdNum { static P make(bool, LD r, LD) { return (P)r; } };
template <class P> struct StdNum<std::complex<P> > { static std::complex<P> make(bool, LD r, LD i) { return std::complex<P>((P)r, (P)i); } };

// complex-aware product of two scalars given as NR-tuples (NR = 1 or 2)
static void mulNum(bool cplx, const LD* a, const LD* b, LD* out) { if (!cplx) out[0] = a[0] * b[0]; else { out[0] = a[0] * b[0] - a[1] * b[1]; out[1] = a[0] * b[1] + a[1] * b[0]; } }

// ---------------------------------------------------------------- operations producing new objects
template <class E0, class ELT> static void applyOp2(Ctx& cx, Base<E0>& B, MatrixView_<ELT>& V, const View& w, int op, Matrix_<ELT>& W, std::vector<LD>& wv,
                                                     const ELT& e, const LD* ev, const typename CNT<ELT>::StdNumber& s, LD sr, LD si) {
    typedef ET<ELT> T; typedef typename CNT<ELT>::StdNumber StdNumber;
    const int nr = w.nr, nc = w.nc, NR = T::NR; const bool cplx = T::T::cplx;
    BaseModel& bm = B.bm;
    std::vector<LD> vv((size_t)nr * nc * NR);   // logical values of the view
    for (int j = 0; j < nc; ++j) for (int i = 0; i < nr; ++i) viewGet(bm, w, i, j, &vv[((size_t)j * nr + i) * NR]);
    auto at = [&](const std::vector<LD>& a, int i, int j) { return &a[((size_t)j * nr + i) * NR]; };
    switch (op) {
    case OP_PRODUCT: if constexpr (IsScalarElt<ELT>::value) {
        const int q = 2; Matrix_<StdNumber> R2(nc, q); std::vector<LD> rv((size_t)nc * q * NR);
        for (int j = 0; j < q; ++j) for (int k = 0; k < nc; ++k) { LD x[2] = {(LD)(k + 1) * 0.5L * (j ? -1 : 1), (LD)(j + 1) * 0.25L + k}; for (int t = 0; t < NR; ++t) rv[((size_t)j * nc + k) * NR + t] = x[t]; R2(k, j) = ET<StdNumber>::encode(x); }
        std::vector<LD> ex((size_t)nr * q * NR, 0);
        for (int i = 0; i < nr; ++i) for (int j = 0; j < q; ++j) for (int k = 0; k < nc; ++k) { LD pr[2]; mulNum(cplx, at(vv, i, k), &rv[((size_t)j * nc + k) * NR], pr); for (int t = 0; t < NR; ++t) ex[((size_t)j * nr + i) * NR + t] += pr[t]; }
        auto R = V * R2; checkResult(cx, R, nr, q, ex, "matrix*matrix", "V*B");
        Vector_<StdNumber> x(nc); for (int k = 0; k < nc; ++k) x[k] = R2(k, 1);
        std::vector<LD> ex1(ex.begin() + (size_t)nr * NR, ex.end());
        auto y = V * x; checkResult(cx, y, nr, 1, ex1, "matrix*vector", "V*x");
        // left product: L (2 x nr) * V
        Matrix_<StdNumber> L2(q, nr); std::vector<LD> lv((size_t)q * nr * NR);
        for (int k = 0; k < nr; ++k) for (int i = 0; i < q; ++i) { LD x2[2] = {(LD)(k + 2) * 0.5L * (i ? 1 : -1), (LD)k * 0.5L - i}; for (int t = 0; t < NR; ++t) lv[((size_t)k * q + i) * NR + t] = x2[t]; L2(i, k) = ET<StdNumber>::encode(x2); }
        std::vector<LD> exl((size_t)q * nc * NR, 0);
        for (int i = 0; i < q; ++i) for (int j = 0; j < nc; ++j) for (int k = 0; k < nr; ++k) { LD pr[2]; mulNum(cplx, &lv[((size_t)k * q + i) * NR], at(vv, k, j), pr); for (int t = 0; t < NR; ++t) exl[((size_t)j * q + i) * NR + t] += pr[t]; }
        auto RL = L2 * V; checkResult(cx, RL, q, nc, exl, "matrix*matrix-left", "L*V");
        // V * ~V (both operands carry the view's element adaptors)
        std::vector<LD> exh((size_t)nr * nr * NR, 0);
        for (int i = 0; i < nr; ++i) for (int j = 0; j < nr; ++j) for (int k = 0; k < nc; ++k) { LD cj[2] = {at(vv, j, k)[0], cplx ? -at(vv, j, k)[1] : 0}; LD pr[2]; mulNum(cplx, at(vv, i, k), cj, pr); for (int t = 0; t < NR; ++t) exh[((size_t)j * nr + i) * NR + t] += pr[t]; }
        auto RH = V * ~V; const std::string hk = "matrix*~matrix/" + typeTag<typename T::S>() + "*" + typeTag<typename CNT<typename CNT<ELT>::THerm>::Scalar>();
        checkResult(cx, RH, nr, nr, exh, hk.c_str(), "V*~V");
        } break;
    case OP_GLOBAL: {
        std::vector<LD> ex((size_t)nr * nc * NR);
        LD fr = sr, fi = si;
        for (int j = 0; j < nc; ++j) for (int i = 0; i < nr; ++i) mulScalar(cplx, NR, at(vv, i, j), fr, fi, &ex[((size_t)j * nr + i) * NR]);
        { Matrix_<ELT> R = V * s; checkResult(cx, R, nr, nc, ex, "matrix*scalar", "V*s"); }
        { Matrix_<ELT> R = s * V; checkResult(cx, R, nr, nc, ex, "scalar*matrix", "s*V"); }
        { LD d = sr * sr + si * si; fr = sr / d; fi = -si / d; for (int j = 0; j < nc; ++j) for (int i = 0; i < nr; ++i) mulScalar(cplx, NR, at(vv, i, j), fr, fi, &ex[((size_t)j * nr + i) * NR]);
          Matrix_<ELT> R = V / s; checkResult(cx, R, nr, nc, ex, "matrix/scalar", "V/s"); }
        { for (size_t t = 0; t < ex.size(); ++t) ex[t] = vv[t] * 3; Matrix_<ELT> R = V * 3; checkResult(cx, R, nr, nc, ex, "matrix*int", "V*3"); Matrix_<ELT> R2 = 3 * V; checkResult(cx, R2, nr, nc, ex, "int*matrix", "3*V"); }
        if constexpr (!T::T::conj) {
            for (size_t t = 0; t < ex.size(); ++t) ex[t] = vv[t] + wv[t];
            { auto R = V + W; checkResult(cx, R, nr, nc, ex, "matrix+matrix", "V+W"); }
            for (size_t t = 0; t < ex.size(); ++t) ex[t] = vv[t] - wv[t];
            { auto R = V - W; checkResult(cx, R, nr, nc, ex, "matrix-matrix", "V-W"); }
            { auto R = V + W.negate(); checkResult(cx, R, nr, nc, ex, "matrix+(-matrix)", "V+(-W)"); }
            for (size_t t = 0; t < ex.size(); ++t) ex[t] = vv[t] + wv[t];
            { auto R = V - W.negate(); checkResult(cx, R, nr, nc, ex, "matrix-(-matrix)", "V-(-W)"); }
            for (size_t t = 0; t < ex.size(); ++t) ex[t] = wv[t] - vv[t];
            { auto R = W - V; checkResult(cx, R, nr, nc, ex, "owner-view", "W-V"); }
        }
        if (nc == 1) {   // the Vector and RowVector global operators are separate templates
            VectorView_<ELT>& v = V.updAsVectorView(); Vector_<ELT> wvec(nr); for (int i = 0; i < nr; ++i) wvec[i] = W(i, 0);
            if constexpr (!T::T::conj) {
                for (size_t t = 0; t < ex.size(); ++t) ex[t] = vv[t] + wv[t];
                { auto R = v - wvec.negate(); checkResult(cx, R, nr, 1, ex, "vector-(-vector)", "v-(-w)"); }
                for (size_t t = 0; t < ex.size(); ++t) ex[t] = vv[t] - wv[t];
                { auto R = v + wvec.negate(); checkResult(cx, R, nr, 1, ex, "vector+(-vector)", "v+(-w)"); }
                { auto R = v - wvec; checkResult(cx, R, nr, 1, ex, "vector-vector", "v-w"); }
            }
        }
        } break;
    case OP_ELTWISE: if constexpr (IsScalarElt<ELT>::value && !(T::T::neg && T::T::cplx)) {   // negator<complex> *= negator<complex> does not compile (library limitation)
        cx.writeOp = true;
        V.elementwiseMultiplyInPlace(W);
        for (int j = 0; j < nc; ++j) for (int i = 0; i < nr; ++i) { LD pr[2]; mulNum(cplx, at(vv, i, j), at(wv, i, j), pr); viewSet(bm, w, i, j, pr); }
        V.elementwiseAddScalarInPlace(e);
        for (int j = 0; j < nc; ++j) for (int i = 0; i < nr; ++i) { LD a[MAXR]; viewGet(bm, w, i, j, a); for (int k = 0; k < NR; ++k) a[k] += ev[k]; viewSet(bm, w, i, j, a); }
        } break;
    case OP_STANDARDIZE: {
        auto Sd = V.standardize(); checkResult(cx, Sd, nr, nc, vv, "standardize", "standardize()");
        if constexpr (!T::T::cplx) { std::vector<LD> ex(vv.size()); for (size_t t = 0; t < ex.size(); ++t) ex[t] = std::fabs(vv[t]); auto A = V.abs(); checkResult(cx, A, nr, nc, ex, "abs", "abs()"); }
        } break;
    case OP_VECTOR: {
        if (nc == 1) {
            VectorView_<ELT>& v = V.updAsVectorView();
            EXPECT(v.size() == nr && v.nrow() == nr, "shape/as-vector", "vector view size %d expected %d", v.size(), nr);
            std::vector<LD> sum(NR, 0); for (int i = 0; i < nr; ++i) for (int k = 0; k < NR; ++k) sum[k] += at(vv, i, 0)[k];
            if (nr > 0) { ELT sm = v.sum(); LD got[MAXR]; bool ok = eltIs(sm, sum.data(), got); EXPECT(ok, "result-values/vector-sum", "Vector sum()=%s expected %s", vecStr(got, NR).c_str(), vecStr(sum.data(), NR).c_str()); }
            bool okAddr = true; for (int i = 0; i < nr; ++i) if ((const void*)&v[i] != (const void*)&(*B.M)(w.at(i, 0).r, w.at(i, 0).c) || (const void*)&v(i) != (const void*)&v[i]) okAddr = false;
            EXPECT(okAddr, "index-map/vector-element", "v[i] does not address the viewed element");
            if constexpr (IsScalarElt<ELT>::value) {
                LD dd[2] = {0, 0}; for (int i = 0; i < nr; ++i) { LD a[2] = {at(vv, i, 0)[0], cplx ? -at(vv, i, 0)[1] : 0}; LD pr[2]; mulNum(cplx, a, at(vv, i, 0), pr); dd[0] += pr[0]; if (cplx) dd[1] += pr[1]; }
                auto d = ~v * v; LD got[MAXR]; bool ok = eltIs(d, dd, got); EXPECT(ok, std::string("result-values/dot/") + typeTag<typename CNT<typename CNT<ELT>::THerm>::Scalar>() + "*" + typeTag<typename T::S>(), "~v*v=%s expected %s", vecStr(got, NR).c_str(), vecStr(dd, NR).c_str());
            }
            cx.writeOp = true; v = e; for (int i = 0; i < nr; ++i) viewSet(bm, w, i, 0, ev);   // Vector semantics: every element
        } else if (nr == 1) {
            RowVectorView_<ELT>& r = V.updAsRowVectorView();
            EXPECT(r.size() == nc, "shape/as-rowvector", "row vector view size %d expected %d", r.size(), nc);
            bool okAddr = true; for (int j = 0; j < nc; ++j) if ((const void*)&r[j] != (const void*)&(*B.M)(w.at(0, j).r, w.at(0, j).c)) okAddr = false;
            EXPECT(okAddr, "index-map/rowvector-element", "r[j] does not address the viewed element");
            cx.writeOp = true; r = e; for (int j = 0; j < nc; ++j) viewSet(bm, w, 0, j, ev);
        }
        } break;
    default: break;
    }
}

// ---------------------------------------------------------------- the operations, on a view V of element type ELT
template <class E0, class ELT> static void applyOp(Ctx& cx, Base<E0>& B, MatrixView_<ELT>& V, const View& w, int op) {
    typedef ET<ELT> T; typedef typename CNT<ELT>::StdNumber StdNumber; typedef typename T::P P;
    const int nr = w.nr, nc = w.nc, NR = T::NR; const bool cplx = T::T::cplx;
    BaseModel& bm = B.bm;
    // snapshot of the real base
    std::vector<unsigned char> snap((size_t)B.m * B.n * sizeof(E0));
    for (int c = 0; c < B.n; ++c) for (int r = 0; r < B.m; ++r) memcpy(&snap[((size_t)c * B.m + r) * sizeof(E0)], &(*B.M)(r, c), sizeof(E0));
    // operands
    Matrix_<ELT> W(nr, nc); std::vector<LD> wv((size_t)nr * nc * NR);
    for (int j = 0; j < nc; ++j) for (int i = 0; i < nr; ++i) { LD e[MAXR]; for (int k = 0; k < NR; ++k) { e[k] = wVal((j * nr + i) * NR + k); wv[((size_t)j * nr + i) * NR + k] = e[k]; } W(i, j) = T::encode(e); }
    LD ev[MAXR]; for (int k = 0; k < NR; ++k) ev[k] = (k % 2 ? -1.5L : 2.5L) + k; const ELT e = T::encode(ev);
    const LD sr = cplx ? 0 : 2, si = cplx ? 2 : 0; const StdNumber s = StdNum<StdNumber>::make(cplx, sr, si);
    cx.writeOp = false;
    const char* on = OPNAME[op];
    switch (op) {
    case OP_READ: {
        EXPECT(V.nrow() == nr && V.ncol() == nc && V.nelt() == (ptrdiff_t)nr * nc, "shape/view", "view shape %dx%d expected %dx%d", V.nrow(), V.ncol(), nr, nc);
        if (V.nrow() != nr || V.ncol() != nc) break;
        bool okAddr = true, okVal = true, okAny = true; std::string bad;
        for (int j = 0; j < nc; ++j) for (int i = 0; i < nr; ++i) {
            const Cell& c = w.at(i, j); LD want[MAXR], got[MAXR]; viewGet(bm, w, i, j, want);
            const ELT& ref = const_cast<const MatrixView_<ELT>&>(V)(i, j);
            if ((const void*)&ref != (const void*)&(*B.M)(c.r, c.c)) { if (okAddr) bad = "element (" + std::to_string(i) + "," + std::to_string(j) + ") is not base(" + std::to_string(c.r) + "," + std::to_string(c.c) + ")"; okAddr = false; }
            if (!eltIs(ref, want, got)) { if (okVal) bad += " value(" + std::to_string(i) + "," + std::to_string(j) + ")=" + vecStr(got, NR) + " expected " + vecStr(want, NR); okVal = false; }
            ELT any = V.getAnyElt(i, j); if (!eltIs(any, want, got)) okAny = false;
        }
        EXPECT(okAddr, "index-map/getElt", "%s", bad.c_str());
        EXPECT(okVal, "element-value/getElt", "%s", bad.c_str());
        EXPECT(okAny, "element-value/getAnyElt", "getAnyElt disagrees with the reference");
        // rows and columns of the view
        bool okRC = true;
        for (int i = 0; i < nr; ++i) { RowVectorView_<ELT> r = V[i]; if (r.ncol() != nc) okRC = false; else for (int j = 0; j < nc; ++j) if ((const void*)&r(j) != (const void*)&(*B.M)(w.at(i, j).r, w.at(i, j).c)) okRC = false; }
        for (int j = 0; j < nc; ++j) { VectorView_<ELT> c = V(j); if (c.nrow() != nr) okRC = false; else for (int i = 0; i < nr; ++i) if ((const void*)&c[i] != (const void*)&(*B.M)(w.at(i, j).r, w.at(i, j).c)) okRC = false; }
        EXPECT(okRC, "index-map/row-col-of-view", "V[i] / V(j) do not address the viewed elements");
        break; }
    case OP_SETTO: cx.writeOp = true; V.setTo(e); for (int j = 0; j < nc; ++j) for (int i = 0; i < nr; ++i) viewSet(bm, w, i, j, ev); break;
    case OP_SCALAR_ASSIGN: { cx.writeOp = true; V = e; LD z[MAXR] = {0}; for (int j = 0; j < nc; ++j) for (int i = 0; i < nr; ++i) viewSet(bm, w, i, j, i == j ? ev : z); break; }
    case OP_SETZERO: { cx.writeOp = true; V.setToZero(); LD z[MAXR] = {0}; for (int j = 0; j < nc; ++j) for (int i = 0; i < nr; ++i) viewSet(bm, w, i, j, z); break; }
    case OP_ELT_WRITE: if (nr && nc) { cx.writeOp = true; V(nr - 1, nc - 1) = e; viewSet(bm, w, nr - 1, nc - 1, ev); V.updElt(0, 0) = e; viewSet(bm, w, 0, 0, ev); } break;
    case OP_ADD: case OP_SUB: case OP_ADD_NEG: case OP_SUB_NEG: {
        cx.writeOp = true;
        // the negated operand has element type TNeg and routes through the addIn(TNeg)/subIn(TNeg) overloads of MatrixHelper
        if (op == OP_ADD) V += W; else if (op == OP_SUB) V -= W; else if (op == OP_ADD_NEG) V += W.negate(); else V -= W.negate();
        const bool plus = op == OP_ADD || op == OP_SUB_NEG;
        for (int j = 0; j < nc; ++j) for (int i = 0; i < nr; ++i) { LD a[MAXR]; viewGet(bm, w, i, j, a); for (int k = 0; k < NR; ++k) a[k] = plus ? a[k] + wv[((size_t)j * nr + i) * NR + k] : a[k] - wv[((size_t)j * nr + i) * NR + k]; viewSet(bm, w, i, j, a); }
        break; }
    case OP_MUL_S: case OP_DIV_S: {
        cx.writeOp = true;
        if (op == OP_MUL_S) V *= s; else V /= s;
        LD fr = sr, fi = si; if (op == OP_DIV_S) { LD d = sr * sr + si * si; fr = sr / d; fi = -si / d; }
        for (int j = 0; j < nc; ++j) for (int i = 0; i < nr; ++i) { LD a[MAXR], o[MAXR]; viewGet(bm, w, i, j, a); mulScalar(cplx, NR, a, fr, fi, o); viewSet(bm, w, i, j, o); }
        break; }
    case OP_NEGATE_INPLACE: { cx.writeOp = true; V.negateInPlace(); for (int j = 0; j < nc; ++j) for (int i = 0; i < nr; ++i) { LD a[MAXR]; viewGet(bm, w, i, j, a); for (int k = 0; k < NR; ++k) a[k] = -a[k]; viewSet(bm, w, i, j, a); } break; }
    case OP_NORMS: {
        LD ss = 0; for (int j = 0; j < nc; ++j) for (int i = 0; i < nr; ++i) { LD a[MAXR]; viewGet(bm, w, i, j, a); for (int k = 0; k < NR; ++k) ss += a[k] * a[k]; }
        LD got = V.normSqr(), got2 = V.scalarNormSqr();
        EXPECT(got == ss && got2 == ss, "normSqr", "normSqr()=%.17Lg scalarNormSqr()=%.17Lg expected %.17Lg", got, got2, ss);
        LD nrm = V.norm(); LD ref = std::sqrt(ss);
        if (!cx.indexOfNonContiguous) cx.run->residual(sizeof(P) == 4 ? "norm-vs-sqrt(float)" : "norm-vs-sqrt(double)", (double)(std::fabs(nrm - ref) / std::max<LD>(1, ref)), 64 * (double)std::numeric_limits<P>::epsilon(), [&] { return cx.where; }, [&] { return cx.run->replayHeader(); });
        break; }
    case OP_SUMS: {
        std::vector<LD> cs((size_t)nc * NR, 0), rs((size_t)nr * NR, 0);
        for (int j = 0; j < nc; ++j) for (int i = 0; i < nr; ++i) { LD a[MAXR]; viewGet(bm, w, i, j, a); for (int k = 0; k < NR; ++k) { cs[(size_t)j * NR + k] += a[k]; rs[(size_t)i * NR + k] += a[k]; } }
        RowVector_<ELT> c1 = V.colSum(), c2 = V.sum(); Vector_<ELT> r1 = V.rowSum();
        checkResult(cx, c1, 1, nc, cs, "colSum", "colSum()"); checkResult(cx, c2, 1, nc, cs, "sum", "sum()"); checkResult(cx, r1, nr, 1, rs, "rowSum", "rowSum()");
        break; }
    case OP_COPY: {
        Matrix_<ELT> C(V); std::vector<LD> ex((size_t)nr * nc * NR);
        for (int j = 0; j < nc; ++j) for (int i = 0; i < nr; ++i) viewGet(bm, w, i, j, &ex[((size_t)j * nr + i) * NR]);
        checkResult(cx, C, nr, nc, ex, "copy-construct", "Matrix_(view)");
        if (nr && nc) { C(0, 0) = e; C *= s; }   // the copy is independent: the base must not change (checked below)
        Matrix_<ELT> D; D = V; checkResult(cx, D, nr, nc, ex, "copy-assign-to-owner", "owner = view");
        break; }
    case OP_COPY_NEG: {
        typedef typename CNT<ELT>::TNeg ENeg;
        Matrix_<ENeg> C(V);   // conversion from the matrix with negated element type: same logical values
        std::vector<LD> ex((size_t)nr * nc * NR);
        for (int j = 0; j < nc; ++j) for (int i = 0; i < nr; ++i) viewGet(bm, w, i, j, &ex[((size_t)j * nr + i) * NR]);
        checkResult(cx, C, nr, nc, ex, "copy-construct-negated-type", "Matrix_<TNeg>(view)");
        break; }
    case OP_ASSIGN_IN: { cx.writeOp = true; V = W; for (int j = 0; j < nc; ++j) for (int i = 0; i < nr; ++i) viewSet(bm, w, i, j, &wv[((size_t)j * nr + i) * NR]); break; }
    case OP_ASSIGN_OUT: {
        Matrix_<ELT> X(2, 5); X = V; std::vector<LD> ex((size_t)nr * nc * NR);
        for (int j = 0; j < nc; ++j) for (int i = 0; i < nr; ++i) viewGet(bm, w, i, j, &ex[((size_t)j * nr + i) * NR]);
        checkResult(cx, X, nr, nc, ex, "owner-assigned-from-view", "X = view (X resized)");
        break; }
    case OP_VIEW_ASSIGN: {
        cx.writeOp = true;
        Matrix_<ELT> X(1, 1); X.viewAssign(V);
        EXPECT(X.nrow() == nr && X.ncol() == nc, "shape/viewAssign", "viewAssign gives %dx%d expected %dx%d", X.nrow(), X.ncol(), nr, nc);
        if (X.nrow() == nr && X.ncol() == nc) { X.setTo(e); for (int j = 0; j < nc; ++j) for (int i = 0; i < nr; ++i) viewSet(bm, w, i, j, ev); }
        break; }
    case OP_DIAG_PLUS: { cx.writeOp = true; V += e; for (int i = 0; i < std::min(nr, nc); ++i) { LD a[MAXR]; viewGet(bm, w, i, i, a); for (int k = 0; k < NR; ++k) a[k] += ev[k]; viewSet(bm, w, i, i, a); } break; }
    default: break;
    }
    if (op == OP_PRODUCT || op == OP_GLOBAL || op == OP_ELTWISE || op == OP_STANDARDIZE || op == OP_VECTOR) applyOp2<E0, ELT>(cx, B, V, w, op, W, wv, e, ev, s, sr, si);
    checkBase(cx, B, w, snap, on);
}

// ---------------------------------------------------------------- building the chain with static element types
// The element type changes with ~ (THerm) and negate (TNeg); the set {E, ~E, -E, -~E} is closed, so the recursion is finite.
template <class E0, class ELT, int DEPTH> struct Chain {
    static void run(Ctx& cx, Base<E0>& B, MatrixView_<ELT>& V, const View& w, const int* steps, int nsteps, int op) {
        if (nsteps == 0) { cx.indexOfNonContiguous = w.indexOfNonContiguous; applyOp<E0, ELT>(cx, B, V, w, op); return; }
        const int s = steps[0]; const int nr = w.nr, nc = w.nc;
        View w2 = stepModel(w, s, B.kind ? B.m + 2 : B.m);
        switch (s) {
            case BLK_FULL: { MatrixView_<ELT> X = V(0, 0, nr, nc); Chain<E0, ELT, DEPTH - 1>::run(cx, B, X, w2, steps + 1, nsteps - 1, op); } break;
            case BLK_DROPROW0: { MatrixView_<ELT> X = V(1, 0, nr - 1, nc); Chain<E0, ELT, DEPTH - 1>::run(cx, B, X, w2, steps + 1, nsteps - 1, op); } break;
            case BLK_DROPCOL0: { MatrixView_<ELT> X = V.updBlock(0, 1, nr, nc - 1); Chain<E0, ELT, DEPTH - 1>::run(cx, B, X, w2, steps + 1, nsteps - 1, op); } break;
            case BLK_DROPLAST: { MatrixView_<ELT> X = V(0, 0, nr - 1, nc - 1); Chain<E0, ELT, DEPTH - 1>::run(cx, B, X, w2, steps + 1, nsteps - 1, op); } break;
            case BLK_INNER: { MatrixView_<ELT> X = V(1, 1, nr - 2, nc - 2); Chain<E0, ELT, DEPTH - 1>::run(cx, B, X, w2, steps + 1, nsteps - 1, op); } break;
            case BLK_NOROWS: { MatrixView_<ELT> X = V(0, 0, 0, nc); Chain<E0, ELT, DEPTH - 1>::run(cx, B, X, w2, steps + 1, nsteps - 1, op); } break;
            case ROW_FIRST: { RowVectorView_<ELT> X = V[0]; Chain<E0, ELT, DEPTH - 1>::run(cx, B, X.updAsMatrixView(), w2, steps + 1, nsteps - 1, op); } break;
            case ROW_LAST: { RowVectorView_<ELT> X = V.updRow(nr - 1); Chain<E0, ELT, DEPTH - 1>::run(cx, B, X.updAsMatrixView(), w2, steps + 1, nsteps - 1, op); } break;
            case COL_FIRST: { VectorView_<ELT> X = V(0); Chain<E0, ELT, DEPTH - 1>::run(cx, B, X.updAsMatrixView(), w2, steps + 1, nsteps - 1, op); } break;
            case COL_LAST: { VectorView_<ELT> X = V.updCol(nc - 1); Chain<E0, ELT, DEPTH - 1>::run(cx, B, X.updAsMatrixView(), w2, steps + 1, nsteps - 1, op); } break;
            case DIAG: { VectorView_<ELT> X = V.updDiag(); Chain<E0, ELT, DEPTH - 1>::run(cx, B, X.updAsMatrixView(), w2, steps + 1, nsteps - 1, op); } break;
            case TRANSPOSE: { typedef typename CNT<ELT>::THerm EH; MatrixView_<EH> X = ~V; Chain<E0, EH, DEPTH - 1>::run(cx, B, X, w2, steps + 1, nsteps - 1, op); } break;
            case NEGATE: { typedef typename CNT<ELT>::TNeg EN; MatrixView_<EN>& X = V.updNegate().updAsMatrixView(); Chain<E0, EN, DEPTH - 1>::run(cx, B, X, w2, steps + 1, nsteps - 1, op); } break;
            case INDEX_EVEN: case INDEX_ENDS: {
                const bool col = w.isCol; std::vector<int> ix = indexList(s, col ? nr : nc); Array_<int> ia(ix);
                if (col) { VectorView_<ELT> X = V.updAsVectorBase().updIndex(ia); Chain<E0, ELT, DEPTH - 1>::run(cx, B, X.updAsMatrixView(), w2, steps + 1, nsteps - 1, op); }
                else { RowVectorView_<ELT> X = V.updAsRowVectorBase().updIndex(ia); Chain<E0, ELT, DEPTH - 1>::run(cx, B, X.updAsMatrixView(), w2, steps + 1, nsteps - 1, op); }
                } break;
        }
    }
};
template <class E0, class ELT> struct Chain<E0, ELT, 0> {
    static void run(Ctx& cx, Base<E0>& B, MatrixView_<ELT>& V, const View& w, const int*, int, int op) { cx.indexOfNonContiguous = w.indexOfNonContiguous; applyOp<E0, ELT>(cx, B, V, w, op); }
};


// ================================================================ scalar adaptors and fixed-size matrices
typedef std::complex<LD> CL;
struct Dense { int nr = 0, nc = 0; std::vector<CL> v; Dense() {} Dense(int r, int c) : nr(r), nc(c), v((size_t)r * c) {} CL& at(int i, int j) { return v[(size_t)i * nc + j]; } const CL& at(int i, int j) const { return v[(size_t)i * nc + j]; } };
template <class E> static CL scalarVal(const E& e) { LD r[MAXR]; ET<E>::decode(e, r); return ET<E>::NR == 2 ? CL(r[0], r[1]) : CL(r[0], 0); }
template <int M, class E, int S> static Dense toDense(const Vec<M, E, S>& x) { Dense d(M, 1); for (int i = 0; i < M; ++i) d.at(i, 0) = scalarVal(x[i]); return d; }
template <int N, class E, int S> static Dense toDense(const Row<N, E, S>& x) { Dense d(1, N); for (int j = 0; j < N; ++j) d.at(0, j) = scalarVal(x[j]); return d; }
template <int M, int N, class E, int CS, int RS> static Dense toDense(const Mat<M, N, E, CS, RS>& x) { Dense d(M, N); for (int i = 0; i < M; ++i) for (int j = 0; j < N; ++j) d.at(i, j) = scalarVal(x(i, j)); return d; }
template <int M, class E, int RS> static Dense toDense(const SymMat<M, E, RS>& x) { Dense d(M, M); for (int i = 0; i < M; ++i) for (int j = 0; j <= i; ++j) { d.at(i, j) = scalarVal(x(i, j)); if (i != j) d.at(j, i) = std::conj(d.at(i, j)); } return d; }   // only the lower triangle is stored/addressable
static Dense toDense(double x) { Dense d(1, 1); d.at(0, 0) = x; return d; }
static Dense toDense(float x) { Dense d(1, 1); d.at(0, 0) = x; return d; }
template <class P> static Dense toDense(const std::complex<P>& x) { Dense d(1, 1); d.at(0, 0) = CL(x.real(), x.imag()); return d; }
template <class N> static Dense toDense(const negator<N>& x) { Dense d(1, 1); d.at(0, 0) = scalarVal(x); return d; }
template <class P> static Dense toDense(const conjugate<P>& x) { Dense d(1, 1); d.at(0, 0) = scalarVal(x); return d; }
static Dense dT(const Dense& a) { Dense d(a.nc, a.nr); for (int i = 0; i < a.nr; ++i) for (int j = 0; j < a.nc; ++j) d.at(j, i) = std::conj(a.at(i, j)); return d; }
static Dense dNeg(const Dense& a) { Dense d = a; for (auto& x : d.v) x = -x; return d; }
static Dense dAdd(const Dense& a, const Dense& b, LD sgn = 1) { Dense d = a; for (size_t k = 0; k < d.v.size(); ++k) d.v[k] += sgn * b.v[k]; return d; }
static Dense dMul(const Dense& a, const Dense& b) { Dense d(a.nr, b.nc); for (int i = 0; i < a.nr; ++i) for (int j = 0; j < b.nc; ++j) { CL s = 0; for (int k = 0; k < a.nc; ++k) s += a.at(i, k) * b.at(k, j); d.at(i, j) = s; } return d; }
static Dense dScale(const Dense& a, CL s) { Dense d = a; for (auto& x : d.v) x *= s; return d; }
static Dense dCross3(const Dense& a, const Dense& b) { Dense d(3, 1); const CL* x = a.v.data(); const CL* y = b.v.data(); d.v[0] = x[1] * y[2] - x[2] * y[1]; d.v[1] = x[2] * y[0] - x[0] * y[2]; d.v[2] = x[0] * y[1] - x[1] * y[0]; return d; }
static LD dMaxDiff(const Dense& a, const Dense& b) { if (a.nr != b.nr || a.nc != b.nc) return INFINITY; LD m = 0; for (size_t k = 0; k < a.v.size(); ++k) { LD d = std::abs(a.v[k] - b.v[k]); if (!(d <= m)) m = d; } return m; }
static std::string dStr(const Dense& a) { std::string s = "["; for (int i = 0; i < a.nr; ++i) { if (i) s += ";"; for (int j = 0; j < a.nc; ++j) { s += (j ? " " : ""); s += verif::fmtd((double)a.at(i, j).real()); if (a.at(i, j).imag() != 0) s += "+" + verif::fmtd((double)a.at(i, j).imag()) + "i"; } } return s + "]"; }


struct SmallCtx { verif::Run* run; };
template <class X> static void expectDense(verif::Run& run, const std::string& key, const X& got, const Dense& want, const std::function<std::string()>& where) {
    Dense g = toDense(got);
    bool ok = dMaxDiff(g, want) == 0;
    { uint64_t oh = verif::fnv1a(want.v.data(), want.v.size() * sizeof(CL), verif::hashStr(key)); if ((oh & 63) == 0) run.outcome(oh); }
    run.expect(ok, key, [&] { return key + ": got " + dStr(g) + " expected " + dStr(want) + " for " + where(); }, [&] { return run.replayHeader(); });
}

// ---------------------------------------------------------------- S6: scalar adaptor table
static const LD SVALS[][2] = {{1.5L, -0.5L}, {-2, 0.25L}, {0, 2}, {-0.25L, 0}, {1, 1}};
static const int NSVALS = 5;
template <class A> static A mkScalar(const LD* v) { LD r[2] = {v[0], ET<A>::NR == 2 ? v[1] : 0}; return ET<A>::encode(r); }
template <class A, class B> static void scalarPair(verif::Run& run) {
    typedef typename ET<A>::P P;
    const std::string ta = typeTag<A>(), tb = typeTag<B>();
    for (int i = 0; i < NSVALS; ++i) for (int j = 0; j < NSVALS; ++j) {
        const A a = mkScalar<A>(SVALS[i]); const B b = mkScalar<B>(SVALS[j]);
        const CL x = scalarVal(a), y = scalarVal(b);
        auto where = [&] { return ta + "(" + verif::fmtd((double)x.real()) + "," + verif::fmtd((double)x.imag()) + ") op " + tb + "(" + verif::fmtd((double)y.real()) + "," + verif::fmtd((double)y.imag()) + ")"; };
        run.evaluation(verif::hashStr(ta + "," + tb + std::to_string(i * 8 + j)), true);
        { Dense w(1, 1); w.at(0, 0) = x + y; expectDense(run, "scalar/add/" + ta + "," + tb, a + b, w, where); }
        { Dense w(1, 1); w.at(0, 0) = x - y; expectDense(run, "scalar/sub/" + ta + "," + tb, a - b, w, where); }
        { Dense w(1, 1); w.at(0, 0) = x * y; expectDense(run, "scalar/mul/" + ta + "," + tb, a * b, w, where); }
        if (y != CL(0)) { CL q = x / y; Dense g = toDense(a / b); LD err = std::abs(g.at(0, 0) - q) / std::max<LD>(1, std::abs(q));
            run.residual(std::string("scalar/div") + (sizeof(P) == 4 ? "(float)" : "(double)"), (double)err, 8 * (double)std::numeric_limits<P>::epsilon(), [&] { return where(); }, [&] { return run.replayHeader(); }, ta + "," + tb); }
        { bool eq = (a == b), ne = (a != b); run.expect(eq == (x == y) && ne == (x != y), "scalar/compare/" + ta + "," + tb, [&] { return "== / != wrong for " + where(); }, [&] { return run.replayHeader(); }); }
        { Dense w(1, 1); w.at(0, 0) = -x; expectDense(run, "scalar/unary-minus/" + ta, -a, w, where); }
        if constexpr (std::is_same<A, B>::value || std::is_same<B, P>::value) {   // compound assignment (other mixed adaptor combinations do not compile)
            { A t = a; t += b; Dense w(1, 1); w.at(0, 0) = x + y; expectDense(run, "scalar/add-assign/" + ta + "," + tb, t, w, where); }
            { A t = a; t -= b; Dense w(1, 1); w.at(0, 0) = x - y; expectDense(run, "scalar/sub-assign/" + ta + "," + tb, t, w, where); }
            if constexpr (!(ST<A>::cplx && ST<B>::cplx && ST<B>::neg)) { A t = a; t *= b; Dense w(1, 1); w.at(0, 0) = x * y; expectDense(run, "scalar/mul-assign/" + ta + "," + tb, t, w, where); }
        }
    }
}
template <class P> static void scalarTable(verif::Run& run) {
    typedef std::complex<P> C; typedef conjugate<P> J; typedef negator<P> NP; typedef negator<C> NC; typedef negator<J> NJ;
#define SROW(A) scalarPair<A, P>(run); scalarPair<A, NP>(run); scalarPair<A, C>(run); scalarPair<A, J>(run); scalarPair<A, NC>(run); scalarPair<A, NJ>(run);
    SROW(P) SROW(NP) SROW(C) SROW(J) SROW(NC) SROW(NJ)
#undef SROW
}

// ---------------------------------------------------------------- S1/S2: exhaustive 2x2 matrices and 2-/3-vectors over the alphabet
static const double ALPHA[5] = {-1, -0.5, 0, 0.5, 1.5};
template <class P> static Mat<2, 2, P> mat22(int code) { Mat<2, 2, P> m; for (int k = 0; k < 4; ++k) { m(k / 2, k % 2) = (P)ALPHA[code % 5]; code /= 5; } return m; }
template <class P, int N> static Vec<N, P> vecN(int code) { Vec<N, P> v; for (int k = 0; k < N; ++k) { v[k] = (P)ALPHA[code % 5]; code /= 5; } return v; }

template <class P> static void mat22Single(verif::Run& run, int ca) {
    const Mat<2, 2, P> A = mat22<P>(ca); const Dense a = toDense(A);
    auto where = [&] { return std::string(sizeof(P) == 4 ? "float" : "double") + " A=" + dStr(a); };
    run.evaluation(verif::hashMix(0x2201 + sizeof(P), ca), ca != 312);
    // element addressing by the documented strides
    { bool ok = true; for (int i = 0; i < 2; ++i) for (int j = 0; j < 2; ++j) if (&A(i, j) != reinterpret_cast<const P*>(&A) + i * 1 + j * 2) ok = false; run.expect(ok, "small/index-map/Mat22", [&] { return "Mat22 element addresses are not column-packed for " + where(); }); }
    expectDense(run, "small/transpose/Mat22", ~A, dT(a), where);
    expectDense(run, "small/negate/Mat22", -A, dNeg(a), where);
    expectDense(run, "small/transpose-of-negate/Mat22", ~(-A), dNeg(dT(a)), where);
    { Dense w(1, 1); w.at(0, 0) = a.at(0, 0) * a.at(1, 1) - a.at(0, 1) * a.at(1, 0); expectDense(run, "small/det/Mat22", det(A), w, where); expectDense(run, "small/det/Mat22-transposed", det(~A), w, where); }
    { Dense w(1, 1); w.at(0, 0) = a.at(0, 0) + a.at(1, 1); expectDense(run, "small/trace/Mat22", A.trace(), w, where); }
    { Dense r(1, 2), c(2, 1); for (int i = 0; i < 2; ++i) for (int j = 0; j < 2; ++j) { r.at(0, j) += a.at(i, j); c.at(i, 0) += a.at(i, j); } expectDense(run, "small/colSum/Mat22", A.colSum(), r, where); expectDense(run, "small/rowSum/Mat22", A.rowSum(), c, where); }
    for (int i = 0; i < 2; ++i) { Dense r(1, 2), c(2, 1); for (int j = 0; j < 2; ++j) { r.at(0, j) = a.at(i, j); c.at(j, 0) = a.at(j, i); } expectDense(run, "small/row/Mat22", A[i], r, where); expectDense(run, "small/col/Mat22", A(i), c, where); }
    { LD ss = 0; for (auto& x : a.v) ss += std::norm(x); LD got = A.normSqr(); run.expect(got == ss, "small/normSqr/Mat22", [&] { return "normSqr " + verif::fmtd((double)got) + " expected " + verif::fmtd((double)ss) + " " + where(); }); }
    const LD dt = (a.at(0, 0) * a.at(1, 1) - a.at(0, 1) * a.at(1, 0)).real();
    if (dt != 0) {
        Dense inv = toDense(A.invert()); Dense I = dMul(a, inv); Dense E(2, 2); E.at(0, 0) = E.at(1, 1) = 1;
        LD na = 0, ni = 0; for (auto& x : a.v) na += std::abs(x); for (auto& x : inv.v) ni += std::abs(x);
        run.residual(std::string("small/inverse-residual/Mat22") + (sizeof(P) == 4 ? "(float)" : "(double)"), (double)(dMaxDiff(I, E) / std::max<LD>(1, na * ni)), 32 * (double)std::numeric_limits<P>::epsilon(), where, [&] { return run.replayHeader(); });
        Dense invT = toDense((~A).invert()); run.residual(std::string("small/inverse-of-transpose/Mat22") + (sizeof(P) == 4 ? "(float)" : "(double)"), (double)(dMaxDiff(invT, dT(inv)) / std::max<LD>(1, ni)), 32 * (double)std::numeric_limits<P>::epsilon(), where, [&] { return run.replayHeader(); });
        Dense invN = toDense((-A).invert()); run.residual(std::string("small/inverse-of-negated/Mat22") + (sizeof(P) == 4 ? "(float)" : "(double)"), (double)(dMaxDiff(invN, dNeg(inv)) / std::max<LD>(1, ni)), 32 * (double)std::numeric_limits<P>::epsilon(), where, [&] { return run.replayHeader(); });
    } else run.count("mat22_singular_skipped_inverse");
}
template <class P> static void mat22Pair(verif::Run& run, int ca, int cb) {
    const Mat<2, 2, P> A = mat22<P>(ca), B = mat22<P>(cb); const Dense a = toDense(A), b = toDense(B);
    auto where = [&] { return std::string(sizeof(P) == 4 ? "float" : "double") + " A=" + dStr(a) + " B=" + dStr(b); };
    run.evaluationDistinct(true);
    expectDense(run, "small/add/Mat22", A + B, dAdd(a, b), where);
    expectDense(run, "small/sub/Mat22", A - B, dAdd(a, b, -1), where);
    expectDense(run, "small/mul/Mat22", A * B, dMul(a, b), where);
    expectDense(run, "small/mul/Mat22*~Mat22", A * ~B, dMul(a, dT(b)), where);
    expectDense(run, "small/mul/~Mat22*Mat22", ~A * B, dMul(dT(a), b), where);
    expectDense(run, "small/mul/-Mat22*Mat22", (-A) * B, dNeg(dMul(a, b)), where);
    expectDense(run, "small/mul/Mat22*-~Mat22", A * (-~B), dNeg(dMul(a, dT(b))), where);
    expectDense(run, "small/add/-Mat22+~Mat22", (-A) + ~B, dAdd(dNeg(a), dT(b)), where);
    expectDense(run, "small/sub/~Mat22--Mat22", ~A - (-B), dAdd(dT(a), b), where);
    { Mat<2, 2, P> T = A; T += B; expectDense(run, "small/add-assign/Mat22", T, dAdd(a, b), where); T -= ~B; expectDense(run, "small/sub-assign/Mat22-=~Mat22", T, dAdd(dAdd(a, b), dT(b), -1), where); T *= (P)2; expectDense(run, "small/scale-assign/Mat22", T, dScale(dAdd(dAdd(a, b), dT(b), -1), 2), where); }
    { Vec<2, P> v = B(0); Dense dv = toDense(v); expectDense(run, "small/mul/Mat22*Vec2", A * v, dMul(a, dv), where); expectDense(run, "small/mul/Row2*Mat22", ~v * A, dMul(dT(dv), a), where); expectDense(run, "small/mul/~Mat22*-Vec2", ~A * (-v), dNeg(dMul(dT(a), dv)), where); }
    { SymMat<2, P> S(A(0, 0), A(1, 0), A(1, 1)); Dense ds(2, 2); ds.at(0, 0) = a.at(0, 0); ds.at(1, 0) = ds.at(0, 1) = a.at(1, 0); ds.at(1, 1) = a.at(1, 1);
      expectDense(run, "small/SymMat2/elements", S, ds, where);
      expectDense(run, "small/SymMat2*Vec2", S * B(1), dMul(ds, toDense(B(1))), where);
      SymMat<2, P> S2(B(0, 0), B(1, 0), B(1, 1)); Dense ds2(2, 2); ds2.at(0, 0) = b.at(0, 0); ds2.at(1, 0) = ds2.at(0, 1) = b.at(1, 0); ds2.at(1, 1) = b.at(1, 1);
      expectDense(run, "small/SymMat2+SymMat2", S + S2, dAdd(ds, ds2), where); expectDense(run, "small/SymMat2-SymMat2", S - S2, dAdd(ds, ds2, -1), where);
      { Dense w(1, 1); w.at(0, 0) = ds.at(0, 0) * ds.at(1, 1) - ds.at(0, 1) * ds.at(1, 0); expectDense(run, "small/det/SymMat2", det(S), w, where); }
      expectDense(run, "small/-SymMat2", -S, dNeg(ds), where); expectDense(run, "small/~SymMat2", ~S, ds, where); }
}
template <class P, int N> static void vecPair(verif::Run& run, int ca, int cb) {
    const Vec<N, P> A = vecN<P, N>(ca), B = vecN<P, N>(cb); const Dense a = toDense(A), b = toDense(B);
    const std::string tn = "Vec" + std::to_string(N);
    auto where = [&] { return std::string(sizeof(P) == 4 ? "float" : "double") + " a=" + dStr(dT(a)) + " b=" + dStr(dT(b)); };
    run.evaluationDistinct(true);
    expectDense(run, "small/add/" + tn, A + B, dAdd(a, b), where);
    expectDense(run, "small/sub/" + tn + "-(-" + tn + ")", A - (-B), dAdd(a, b), where);
    expectDense(run, "small/dot/~" + tn + "*" + tn, ~A * B, dMul(dT(a), b), where);
    { Dense w = dMul(dT(a), b); expectDense(run, "small/dot/dot()", dot(A, B), w, where); expectDense(run, "small/dot/~(-a)*b", ~(-A) * B, dNeg(w), where); expectDense(run, "small/dot/~a*(-b)", ~A * (-B), dNeg(w), where); expectDense(run, "small/dot/~(-a)*(-b)", ~(-A) * (-B), w, where); }
    expectDense(run, "small/outer/" + tn, A * ~B, dMul(a, dT(b)), where);
    expectDense(run, "small/outer/-a*~b", (-A) * ~B, dNeg(dMul(a, dT(b))), where);
    expectDense(run, "small/scale/" + tn, A * (P)2 - B / (P)2, dAdd(dScale(a, 2), dScale(b, 0.5L), -1), where);
    { LD ss = 0; for (auto& x : a.v) ss += std::norm(x); LD got = A.normSqr(); run.expect(got == ss && (LD)(-A).normSqr() == ss, "small/normSqr/" + tn, [&] { return "normSqr wrong " + where(); });
      LD nrm = A.norm(); run.residual(sizeof(P) == 4 ? "small/norm-vs-sqrt(float)" : "small/norm-vs-sqrt(double)", (double)(std::fabs(nrm - std::sqrt(ss)) / std::max<LD>(1, std::sqrt(ss))), 64 * (double)std::numeric_limits<P>::epsilon(), where); }
    { Dense w(1, 1); for (auto& x : a.v) w.at(0, 0) += x; expectDense(run, "small/sum/" + tn, A.sum(), w, where); expectDense(run, "small/sum/-" + tn, (-A).sum(), dNeg(w), where); }
    run.expect((A == B) == (a.v == b.v) && (A != B) == (a.v != b.v), "small/compare/" + tn, [&] { return "== wrong " + where(); });
    if constexpr (N == 3) {
        Dense c = dCross3(a, b);
        expectDense(run, "small/cross/Vec3%Vec3", A % B, c, where); expectDense(run, "small/cross/cross()", cross(A, B), c, where);
        expectDense(run, "small/cross/-a%b", (-A) % B, dNeg(c), where); expectDense(run, "small/cross/a%-b", A % (-B), dNeg(c), where); expectDense(run, "small/cross/-a%-b", (-A) % (-B), c, where);
        expectDense(run, "small/cross/Row3%Vec3", (~A) % B, dT(c), where); expectDense(run, "small/cross/Vec3%Row3", A % (~B), dT(c), where);   // documented: a Row operand gives a Row result expectDense(run, "small/cross/Row3%Row3", (~A) % (~B), dT(c), where);
        expectDense(run, "small/crossMat*b", crossMat(A) * B, c, where); expectDense(run, "small/crossMat(-a)*b", crossMat(-A) * B, dNeg(c), where);
        { Dense cm = toDense(crossMat(A)); expectDense(run, "small/crossMatSq", crossMatSq(A), dMul(dT(cm), cm), where); }
    }
    if constexpr (N == 2) {
        Dense w(1, 1); w.at(0, 0) = a.v[0] * b.v[1] - a.v[1] * b.v[0];
        expectDense(run, "small/cross/Vec2%Vec2", A % B, w, where); expectDense(run, "small/cross/-a%b(2d)", (-A) % B, dNeg(w), where); expectDense(run, "small/crossMat2*b", crossMat(A) * B, w, where);
    }
}


// ---------------------------------------------------------------- S3: general Mat<M,N> on a fixed 6-set per shape (all conforming products)
template <class P, int M, int N> static Mat<M, N, P> patMat(int k) { Mat<M, N, P> m; for (int i = 0; i < M; ++i) for (int j = 0; j < N; ++j) m(i, j) = (P)ALPHA[(unsigned)(k * 7 + i * 3 + j * 5 + (i * j) % 3 + k * k) % 5] * (P)((k + i + j) % 4 == 3 ? 2 : 1); return m; }
template <class P, int M, int N, int K> static void matProducts(verif::Run& run) {
    const std::string tn = "Mat" + std::to_string(M) + std::to_string(N) + "*Mat" + std::to_string(N) + std::to_string(K);
    for (int ka = 0; ka < 6; ++ka) for (int kb = 0; kb < 6; ++kb) {
        const Mat<M, N, P> A = patMat<P, M, N>(ka); const Mat<N, K, P> B = patMat<P, N, K>(kb + 6); const Mat<K, N, P> Bt = patMat<P, K, N>(kb + 12);
        const Dense a = toDense(A), b = toDense(B), bt = toDense(Bt);
        auto where = [&] { return std::string(sizeof(P) == 4 ? "float " : "double ") + tn + " A=" + dStr(a) + " B=" + dStr(b) + " Bt=" + dStr(bt); };
        run.evaluation(verif::hashStr(tn + std::to_string(ka * 6 + kb) + (sizeof(P) == 4 ? "f" : "d")), true);
        expectDense(run, "small/mul/" + tn, A * B, dMul(a, b), where);
        expectDense(run, "small/mul-transposed-rhs/" + tn, A * ~Bt, dMul(a, dT(bt)), where);
        expectDense(run, "small/mul-negated/" + tn, (-A) * B, dNeg(dMul(a, b)), where);
        expectDense(run, "small/mul-both-views/" + tn, (-A) * (-~Bt), dMul(a, dT(bt)), where);
        expectDense(run, "small/transpose-of-product/" + tn, ~(A * B), dMul(dT(b), dT(a)), where);
        expectDense(run, "small/~B*~A/" + tn, ~B * ~A, dMul(dT(b), dT(a)), where);
        { Vec<N, P> v = B(0); expectDense(run, "small/mat*vec/" + tn, A * v, dMul(a, toDense(v)), where); Row<M, P> r = ~A(0); expectDense(run, "small/row*mat/" + tn, r * A, dMul(toDense(r), a), where); }
        if constexpr (K == N) { expectDense(run, "small/add/Mat" + std::to_string(M) + std::to_string(N), A + patMat<P, M, N>(kb + 3), dAdd(a, toDense(patMat<P, M, N>(kb + 3))), where);
                                expectDense(run, "small/sub-transposed/Mat" + std::to_string(M) + std::to_string(N), A - ~patMat<P, N, M>(kb + 3), dAdd(a, dT(toDense(patMat<P, N, M>(kb + 3))), -1), where); }
        { bool ok = true; for (int i = 0; i < M; ++i) for (int j = 0; j < N; ++j) if (&A(i, j) != reinterpret_cast<const P*>(&A) + i + j * M) ok = false; run.expect(ok, "small/index-map/Mat", [&] { return "element addresses not column-packed " + where(); }); }
        { Dense sub(M, 1); for (int i = 0; i < M; ++i) sub.at(i, 0) = a.at(i, N - 1); expectDense(run, "small/col/Mat", A(N - 1), sub, where); Dense rw(1, N); for (int j = 0; j < N; ++j) rw.at(0, j) = a.at(M - 1, j); expectDense(run, "small/row/Mat", A[M - 1], rw, where); }
    }
}
template <class P, int M, int N> static void matProductsK(verif::Run& run) { matProducts<P, M, N, 1>(run); matProducts<P, M, N, 2>(run); matProducts<P, M, N, 3>(run); }
template <class P, int M> static void matProductsN(verif::Run& run) { matProductsK<P, M, 1>(run); matProductsK<P, M, 2>(run); matProductsK<P, M, 3>(run); }

// ---------------------------------------------------------------- S5: determinant and inverse, N = 1..6, 64 matrices each
template <int N> static LD refDet(Dense a) {   // Gaussian elimination with partial pivoting in long double
    LD d = 1; for (int c = 0; c < N; ++c) { int p = c; for (int r = c + 1; r < N; ++r) if (std::abs(a.at(r, c)) > std::abs(a.at(p, c))) p = r; if (a.at(p, c) == CL(0)) return 0;
        if (p != c) { for (int j = 0; j < N; ++j) std::swap(a.at(p, j), a.at(c, j)); d = -d; } d *= a.at(c, c).real();
        for (int r = c + 1; r < N; ++r) { CL f = a.at(r, c) / a.at(c, c); for (int j = c; j < N; ++j) a.at(r, j) -= f * a.at(c, j); } }
    return d;
}
template <class P, int N> static void detInverse(verif::Run& run) {
    for (int k = 0; k < 64; ++k) {
        Mat<N, N, P> A; for (int i = 0; i < N; ++i) for (int j = 0; j < N; ++j) A(i, j) = (P)ALPHA[(unsigned)(k * 11 + i * 7 + j * 13 + (k >> (i % 3)) + i * j) % 5] + (i == j ? (P)((k % 3) + 1.5) * (((k >> 3) + i) % 2 ? 1 : -1) : 0);
        const Dense a = toDense(A); auto where = [&] { return std::string(sizeof(P) == 4 ? "float " : "double ") + "N=" + std::to_string(N) + " A=" + dStr(a); };
        run.evaluation(verif::hashMix(0xD37 + N * 2 + sizeof(P), k), true);
        LD rd = refDet<N>(a); LD scale = 0; { LD pr = 1; for (int i = 0; i < N; ++i) { LD rs = 0; for (int j = 0; j < N; ++j) rs += std::abs(a.at(i, j)); pr *= rs; } scale = pr; }   // Hadamard-type bound on |det|
        LD gd = det(A); run.residual(std::string("small/det-vs-elimination") + (sizeof(P) == 4 ? "(float)" : "(double)"), (double)(std::fabs(gd - rd) / std::max<LD>(scale, 1e-30L)), 64 * N * (double)std::numeric_limits<P>::epsilon(), where, [&] { return run.replayHeader(); }, "N=" + std::to_string(N));
        LD gdt = det(~A), gdn = det(-A); run.residual(std::string("small/det-of-views") + (sizeof(P) == 4 ? "(float)" : "(double)"), (double)((std::fabs(gdt - rd) + std::fabs(gdn - ((N % 2) ? -rd : rd))) / std::max<LD>(scale, 1e-30L)), 128 * N * (double)std::numeric_limits<P>::epsilon(), where, [&] { return run.replayHeader(); }, "N=" + std::to_string(N));
        if (std::fabs(rd) > 1e-3L * scale) {
            Dense inv = toDense(A.invert()); Dense I = dMul(a, inv); Dense E(N, N); for (int i = 0; i < N; ++i) E.at(i, i) = 1;
            LD na = 0, ni = 0; for (auto& x : a.v) na = std::max(na, (LD)std::abs(x)); for (auto& x : inv.v) ni = std::max(ni, (LD)std::abs(x));
            run.residual(std::string("small/inverse-residual") + (sizeof(P) == 4 ? "(float)" : "(double)"), (double)(dMaxDiff(I, E) / std::max<LD>(1, N * na * ni)), 64 * N * (double)std::numeric_limits<P>::epsilon(), where, [&] { return run.replayHeader(); }, "N=" + std::to_string(N));
            Dense invT = toDense((~A).invert()); run.residual(std::string("small/inverse-of-transpose") + (sizeof(P) == 4 ? "(float)" : "(double)"), (double)(dMaxDiff(invT, dT(inv)) / std::max<LD>(1, N * na * ni * ni)), 256 * N * (double)std::numeric_limits<P>::epsilon(), where, [&] { return run.replayHeader(); }, "N=" + std::to_string(N));
        } else run.count("detInverse_near_singular_skipped");
    }
}

static const int SHAPES[][2] = {{0,0},{0,1},{0,2},{0,3},{1,0},{1,1},{1,2},{1,3},{2,0},{2,1},{2,2},{2,3},{3,0},{3,1},{3,2},{3,3},{5,4}};
static const int NSHAPES = 17;
static const int MAXDEPTH = 4;

// one (shape, base kind, chain) item: all operations, each on a fresh base
template <class E0> static void runChainItem(verif::Run& run, const char* eltName, int shape, int kind, const std::vector<int>& steps) {
    const int m = SHAPES[shape][0], n = SHAPES[shape][1];
    // legality of the chain on the evolving shape
    { View w; w.nr = m; w.nc = n; w.cell.resize((size_t)m * n); for (int j = 0; j < n; ++j) for (int i = 0; i < m; ++i) w.at(i, j) = Cell{i, j};
      for (int s : steps) { if (!stepLegal(s, w)) { run.count("chains_illegal_for_shape"); return; } w = stepModel(w, s, kind ? m + 2 : m); } }
    std::string chain; for (int s : steps) chain += std::string(chain.empty() ? "" : ".") + STEPNAME[s];
    for (int op = 0; op < NOPS; ++op) {
        Ctx cx; cx.run = &run; g_cx = &cx;
        cx.where = std::string("elt=") + eltName + " base=" + std::to_string(m) + "x" + std::to_string(n) + (kind ? " external(padded)" : " owner") + " view=[" + chain + "] op=" + OPNAME[op];
        Base<E0> B(m, n, kind);
        View w; w.nr = m; w.nc = n; w.cell.resize((size_t)m * n); for (int j = 0; j < n; ++j) for (int i = 0; i < m; ++i) w.at(i, j) = Cell{i, j};
        uint64_t h = verif::hashStr(cx.where);
        try {
            MatrixView_<E0>& V0 = B.M->updAsMatrixView();
            Chain<E0, E0, MAXDEPTH>::run(cx, B, V0, w, steps.data(), (int)steps.size(), op);
            run.evaluation(h, m * n > 0);
        } catch (const std::exception& e) {
            std::string msg = e.what(); for (auto& ch : msg) if (ch == '\n') ch = ' ';
            run.evaluation(h, m * n > 0);
            if (msg.find("not implemented") != std::string::npos || msg.find("Can't perform operation") != std::string::npos) { run.count(std::string("unsupported_by_library:") + OPNAME[op]); continue; }
            run.expect(false, cx.keyFor(std::string("exception/") + OPNAME[op]), [&] { return "unexpected exception: " + msg.substr(0, 300) + " at " + cx.where; }, [&] { return run.replayHeader(); });
        }
        if (run.verbose) printf("  %s\n", cx.where.c_str());
        if (op == OP_ADD && steps.size() == 3 && (run.currentItem() % 9973) == 0) run.sample(cx.where + " -> base and results agree with the reference");
    }
}
static std::vector<std::vector<int> > allChains(int maxDepth) {
    std::vector<std::vector<int> > out; out.push_back({});
    size_t from = 0;
    for (int d = 1; d <= maxDepth; ++d) { size_t to = out.size(); for (size_t i = from; i < to; ++i) for (int s = 0; s < NSTEPS; ++s) { auto c = out[i]; c.push_back(s); out.push_back(c); } from = to; }
    return out;
}

int main(int argc, char** argv) {
    verif::Run run("C25", argc, argv);
    run.setDeadline(300, 2400);
    const bool th = run.thorough();
    run.rule = "a case = (element type, base shape, owner or padded external base, chain of <= 3 view steps legal for the shape, operation); every case builds a fresh base matrix with distinct dyadic entries, composes the views on the real library objects, applies the operation and compares every base element, every returned object and the padding with the dense index-map reference; non-trivial = the base has at least one element";
    run.assumptions = {"entries are small dyadic rationals so that all additions and multiplications are exact in float and double; comparisons are equalities (sign of zero ignored), except sqrt-type results",
                       "negator<> and conjugate<> values are read from raw memory with their documented representation, not through library arithmetic",
                       "operations the documentation does not define on views (resize of a view, overlapping operands) are not generated"};
    auto chains = allChains(th ? 4 : 3);
    struct Item { int elt, shape, kind, chain; };
    std::vector<Item> items;
    const int nElt = 5;
    for (int e = 0; e < nElt; ++e) for (int sh = 0; sh < NSHAPES; ++sh) for (int kind = 0; kind < 2; ++kind) for (size_t c = 0; c < chains.size(); ++c) {
        size_t d = chains[c].size();
        if (!th && d == 3 && !((e == 0 || e == 2) && kind == 0)) continue;   // quick: depth 3 only for Real and Complex on owner bases; depth 2 elsewhere
        if (th && d == 4 && !(e == 0 && kind == 0)) continue;                // thorough: depth 3 everywhere, depth 4 for Real on owner bases
        items.push_back({e, sh, kind, (int)c});
    }
    run.parallel("views", (int64_t)items.size(), [&](int64_t i) {
        const Item& it = items[i];
        switch (it.elt) {
            case 0: runChainItem<Real>(run, "Real", it.shape, it.kind, chains[it.chain]); break;
            case 1: runChainItem<float>(run, "float", it.shape, it.kind, chains[it.chain]); break;
            case 2: runChainItem<Complex>(run, "Complex", it.shape, it.kind, chains[it.chain]); break;
            case 3: runChainItem<Vec3>(run, "Vec3", it.shape, it.kind, chains[it.chain]); break;
            case 4: runChainItem<SpatialVec>(run, "SpatialVec", it.shape, it.kind, chains[it.chain]); break;
        }
    });
    // ---- scalar adaptors: every ordered pair of {P, -P, C, ~C, -C, -~C} for P = double, float
    run.parallel("scalars", 2, [&](int64_t i) { if (i == 0) scalarTable<double>(run); else scalarTable<float>(run); });
    // ---- fixed-size matrices, exhaustive over the alphabet {-1,-1/2,0,1/2,3/2}
    run.parallel("mat22", 625 * 2, [&](int64_t i) {
        int ca = (int)(i % 625); bool f = i >= 625;
        if (f) { mat22Single<float>(run, ca); for (int cb = 0; cb < 625; cb += th ? 1 : 7) mat22Pair<float>(run, ca, (cb + ca) % 625); }
        else   { mat22Single<double>(run, ca); for (int cb = 0; cb < 625; cb += th ? 1 : 3) mat22Pair<double>(run, ca, (cb + ca) % 625); }
    });
    run.parallel("vec", 125 + 25, [&](int64_t i) {
        if (i < 125) { for (int cb = 0; cb < 125; ++cb) { vecPair<double, 3>(run, (int)i, cb); if (th || cb % 5 == 0) vecPair<float, 3>(run, (int)i, cb); } }
        else { int ca = (int)i - 125; for (int cb = 0; cb < 25; ++cb) { vecPair<double, 2>(run, ca, cb); vecPair<float, 2>(run, ca, cb); } }
    });
    run.parallel("mat-general", 6, [&](int64_t i) {
        switch (i) { case 0: matProductsN<double, 1>(run); break; case 1: matProductsN<double, 2>(run); break; case 2: matProductsN<double, 3>(run); break;
                     case 3: matProductsN<float, 1>(run); break; case 4: matProductsN<float, 2>(run); break; case 5: matProductsN<float, 3>(run); break; }
    });
    run.parallel("det-inverse", 12, [&](int64_t i) {
        switch (i) { case 0: detInverse<double, 1>(run); break; case 1: detInverse<double, 2>(run); break; case 2: detInverse<double, 3>(run); break; case 3: detInverse<double, 4>(run); break; case 4: detInverse<double, 5>(run); break; case 5: detInverse<double, 6>(run); break;
                     case 6: detInverse<float, 1>(run); break; case 7: detInverse<float, 2>(run); break; case 8: detInverse<float, 3>(run); break; case 9: detInverse<float, 4>(run); break; case 10: detInverse<float, 5>(run); break; case 11: detInverse<float, 6>(run); break; }
    });
    return run.finish();
}
