// C42 -- MultibodyGraphMaker always produces a valid spanning tree.
//
// Engine E3 (all input graphs up to a bound) + E2 (edit histories, differential
// against a fresh maker).  Nothing is sampled: every body-attribute tuple x every
// ordered joint sequence inside the bound is built on the real class, generateGraph()
// is run, and the structural oracle below is evaluated on the result (or the thrown
// error is judged).  See notes/C42.md.
#include "SimTKcommon.h"
#include "simmath/MultibodyGraphMaker.h"
#include "verif.h"

#include <array>
#include <csetjmp>
#include <csignal>
#include <sys/time.h>

using namespace SimTK;
typedef MultibodyGraphMaker MGM;

// ---------------------------------------------------------------- alphabets
static const int NTYPES = 3;
static const char* const TYPE_NAME[NTYPES] = {"weld", "pin", "ball"};
static const int TYPE_DOF[NTYPES] = {0, 1, 3};
static const bool TYPE_LOOPOK[NTYPES] = {true, false, true};   // good loop constraint available?
static std::string S_TYPE[NTYPES], S_BODY[8], S_JOINT[16];
static void initNames() {
    for (int t = 0; t < NTYPES; ++t) S_TYPE[t] = TYPE_NAME[t];
    S_BODY[0] = "G";
    for (int i = 1; i < 8; ++i) S_BODY[i] = std::string(1, char('a' + i - 1));
    for (int i = 0; i < 16; ++i) S_JOINT[i] = "j" + std::to_string(i);
}

// ---------------------------------------------------------------- reference model of the input
struct MBody { int letter; int mass; bool base; };                       // letter >= 1 (0 is Ground)
struct MJoint { int id; int type; int parent, child; bool loop; };       // parent/child are letters
struct Model {
    std::vector<MBody> bodies; std::vector<MJoint> joints;
    int pos(int letter) const {             // body number inside the maker
        if (letter == 0) return 0;
        for (size_t i = 0; i < bodies.size(); ++i) if (bodies[i].letter == letter) return (int)i + 1;
        return -1;
    }
    bool hasMassless() const { for (auto& b : bodies) if (b.mass == 0) return true; return false; }
};
static void* bodyRef(int letter) { return (void*)(intptr_t)(0x100 + letter); }
static void* jointRef(int id) { return (void*)(intptr_t)(0x200 + id); }

static void addTypes(MGM& g) { g.addJointType(S_TYPE[1], TYPE_DOF[1], TYPE_LOOPOK[1]); g.addJointType(S_TYPE[2], TYPE_DOF[2], TYPE_LOOPOK[2]); }
static void addBodyTo(MGM& g, const MBody& b) { g.addBody(S_BODY[b.letter], (double)b.mass, b.base, bodyRef(b.letter)); }
static void addJointTo(MGM& g, const MJoint& j) { g.addJoint(S_JOINT[j.id], S_TYPE[j.type], S_BODY[j.parent], S_BODY[j.child], j.loop, jointRef(j.id)); }
static void buildFresh(MGM& g, const Model& m) {
    addTypes(g);
    g.addBody(S_BODY[0], 0, false, bodyRef(0));
    for (auto& b : m.bodies) addBodyTo(g, b);
    for (auto& j : m.joints) addJointTo(g, j);
}

// ---------------------------------------------------------------- textual operations (replay language)
//   B a 1 0 | J j0 pin G a 0 | DB a | DJ j0 | GEN | CLR
static std::string opBody(const MBody& b) { return "B " + S_BODY[b.letter] + " " + std::to_string(b.mass) + " " + std::to_string((int)b.base); }
static std::string opJoint(const MJoint& j) { return "J " + S_JOINT[j.id] + " " + S_TYPE[j.type] + " " + S_BODY[j.parent] + " " + S_BODY[j.child] + " " + std::to_string((int)j.loop); }
static std::string opsOfModel(const Model& m) {
    std::string s;
    for (auto& b : m.bodies) s += opBody(b) + "; ";
    for (auto& j : m.joints) s += opJoint(j) + "; ";
    return s;
}
static std::string describe(const Model& m) { return opsOfModel(m); }

// ---------------------------------------------------------------- oracle on one generated graph
struct Check {
    std::vector<std::pair<std::string, std::string>> fails;   // (key, what)
    int64_t n = 0;                                             // oracle evaluations
    int nSlaves = 0, nAdded = 0, nLoopC = 0, nReversed = 0, maxLevel = 0, nGroundSlaves = 0;
    bool baseA = false, baseB = false, baseOther = false, slaveMassless = false;
};
#define CK(cond, key, msg) do { ++c.n; if (!(cond)) c.fails.emplace_back(std::string(key), std::string(msg)); } while (0)
static std::string N2S(int v) { return std::to_string(v); }

static void checkGraph(const Model& m, const MGM& g, Check& c) {
    const int n = (int)m.bodies.size(), k = (int)m.joints.size();
    const int NB = (int)g.bodies.size(), NJ = (int)g.joints.size(), NM = (int)g.mobilizers.size(), NC = (int)g.constraints.size();
    const size_t fails0 = c.fails.size();

    // ---- the input tables are preserved, extras are slaves / added joints
    CK(NB >= n + 1 && g.getNumBodies() == NB, "shape/body-table", "fewer bodies than input");
    CK(NJ >= k && g.getNumJoints() == NJ, "shape/joint-table", "fewer joints than input");
    CK(g.getNumMobilizers() == NM && g.getNumLoopConstraints() == NC, "shape/counts", "accessor counts differ from tables");
    if (c.fails.size() != fails0) return;
    for (int i = 0; i <= n; ++i) {
        const MGM::Body& b = g.bodies[i];
        if (i == 0) CK(b.name == "G" && b.level == 0 && b.mobilizer == -1 && b.master == -1 && !b.mustBeBaseBody && b.userRef == bodyRef(0), "shape/ground", "Ground body altered: level=" + N2S(b.level) + " mobilizer=" + N2S(b.mobilizer));
        else {
            const MBody& mb = m.bodies[i - 1];
            CK(b.name == S_BODY[mb.letter] && b.mass == (double)mb.mass && b.mustBeBaseBody == mb.base && b.userRef == bodyRef(mb.letter) && !b.isSlave(),
               "shape/body-table", "input body " + N2S(i) + " not preserved (name=" + b.name + ")");
            CK(g.getBodyNum(S_BODY[mb.letter]) == i, "shape/name-lookup", "getBodyNum(" + S_BODY[mb.letter] + ") != " + N2S(i));
        }
    }
    for (int i = n + 1; i < NB; ++i) CK(g.bodies[i].isSlave(), "shape/body-table", "extra body " + N2S(i) + " is not a slave");
    for (int j = 0; j < NJ; ++j) {
        const MGM::Joint& J = g.joints[j];
        if (j < k) {
            const MJoint& mj = m.joints[j];
            CK(J.name == S_JOINT[mj.id] && J.mustBeLoopJoint == mj.loop && J.userRef == jointRef(mj.id) && J.parentBodyNum == m.pos(mj.parent) && J.childBodyNum == m.pos(mj.child)
               && J.jointTypeNum >= 0 && J.jointTypeNum < (int)g.jointTypes.size() && g.jointTypes[J.jointTypeNum].name == S_TYPE[mj.type] && !J.isAddedBaseJoint,
               "shape/joint-table", "input joint " + N2S(j) + " not preserved");
            CK(g.getJointNum(S_JOINT[mj.id]) == j, "shape/name-lookup", "getJointNum(" + S_JOINT[mj.id] + ") != " + N2S(j));
        } else CK(J.isAddedBaseJoint, "shape/joint-table", "extra joint " + N2S(j) + " is not an added base joint");
    }
    // ---- index sanity (so that nothing below reads out of range)
    bool sane = true;
    for (auto& mo : g.mobilizers) sane = sane && mo.joint >= 0 && mo.joint < NJ && mo.inboardBody >= 0 && mo.inboardBody < NB && mo.outboardBody >= 0 && mo.outboardBody < NB && mo.mgm == &g;
    for (auto& lc : g.constraints) sane = sane && lc.joint >= 0 && lc.joint < NJ && lc.parentBody >= 0 && lc.parentBody < NB && lc.childBody >= 0 && lc.childBody < NB && lc.mgm == &g;
    for (auto& b : g.bodies) { sane = sane && b.mobilizer >= -1 && b.mobilizer < NM && b.master >= -1 && b.master < NB; for (int s : b.slaves) sane = sane && s > 0 && s < NB;
        for (int j : b.jointsAsChild) sane = sane && j >= 0 && j < NJ; for (int j : b.jointsAsParent) sane = sane && j >= 0 && j < NJ; }
    for (auto& J : g.joints) sane = sane && J.mobilizer >= -1 && J.mobilizer < NM && J.loopConstraint >= -1 && J.loopConstraint < NC && J.parentBodyNum >= 0 && J.parentBodyNum < NB && J.childBodyNum >= 0 && J.childBodyNum < NB
                                    && J.jointTypeNum >= 0 && J.jointTypeNum < (int)g.jointTypes.size();
    CK(sane, "shape/index-range", "an index stored in the graph is out of range (or a back pointer is not this maker)");
    if (c.fails.size() != fails0) return;

    auto dofOf = [&](int j) { return g.jointTypes[g.joints[j].jointTypeNum].numMobilities; };
    auto isInput = [&](int b) { return b >= 1 && b <= n; };

    // ---- every body (input or slave) is the outboard body of exactly one mobilizer; Ground of none
    CK(NM == NB - 1, "mobilizer/count", N2S(NM) + " mobilizers for " + N2S(NB) + " bodies (incl. Ground and slaves)");
    std::array<int, 32> outCount{}; std::array<int, 32> placedAt{};   // placedAt[b] = mobilizer index+1
    if (NB > 32) { CK(false, "shape/too-many-bodies", "more than 32 bodies"); return; }
    for (int i = 0; i < NM; ++i) {
        const MGM::Mobilizer& mo = g.mobilizers[i];
        outCount[mo.outboardBody]++;
        // inboard-first: the inboard body is Ground or the outboard body of an EARLIER mobilizer
        CK(mo.inboardBody == 0 || placedAt[mo.inboardBody] != 0, "mobilizer/order", "mobilizer " + N2S(i) + " has inboard body " + N2S(mo.inboardBody) + " which no earlier mobilizer placed");
        if (!placedAt[mo.outboardBody]) placedAt[mo.outboardBody] = i + 1;
        CK(!g.bodies[mo.inboardBody].isSlave(), "mobilizer/inboard-is-slave", "mobilizer " + N2S(i) + " has a slave body as inboard body");
        CK(mo.outboardBody != 0, "mobilizer/outboard-is-ground", "mobilizer " + N2S(i) + " has Ground as outboard body");
        const int lin = g.bodies[mo.inboardBody].level;
        CK(mo.level == lin + 1 && g.bodies[mo.outboardBody].level == mo.level && mo.getLevel() == mo.level, "mobilizer/level",
           "mobilizer " + N2S(i) + " level=" + N2S(mo.level) + " inboard body level=" + N2S(lin) + " outboard body level=" + N2S(g.bodies[mo.outboardBody].level));
        if (mo.level > c.maxLevel) c.maxLevel = mo.level;
        const MGM::Joint& J = g.joints[mo.joint];
        CK(J.mobilizer == i, "joint/mobilizer-backref", "mobilizer " + N2S(i) + " uses joint " + N2S(mo.joint) + " whose mobilizer field is " + N2S(J.mobilizer));
        const MGM::Body& ob = g.bodies[mo.outboardBody];
        if (ob.isSlave()) {
            // the slave's mobilizer implements the loop joint: parent -> (slave of child), forward
            CK(!mo.isReversed && mo.inboardBody == J.parentBodyNum && ob.master == J.childBodyNum && !J.isAddedBaseJoint, "slave/mobilizer",
               "slave mobilizer " + N2S(i) + " does not go from the joint's parent to a slave of the joint's child");
            CK(!g.jointTypes[J.jointTypeNum].haveGoodLoopJointAvailable, "slave/needless-split", "body split for joint " + N2S(mo.joint) + " although its type has a loop constraint");
        } else {
            // reversed flag <=> the outboard body is the joint's parent
            if (mo.isReversed) CK(mo.outboardBody == J.parentBodyNum && mo.inboardBody == J.childBodyNum, "mobilizer/direction", "reversed mobilizer " + N2S(i) + ": outboard is not the joint's parent");
            else CK(mo.outboardBody == J.childBodyNum && mo.inboardBody == J.parentBodyNum, "mobilizer/direction", "forward mobilizer " + N2S(i) + ": outboard is not the joint's child");
            // mustBeLoop joints are never tree mobilizers
            CK(!J.mustBeLoopJoint, "mustBeLoop/tree-mobilizer", "must-be-loop joint " + N2S(mo.joint) + " is tree mobilizer " + N2S(i));
            if (mo.isReversed) c.nReversed++;
        }
        // public accessors agree with the tables
        const int masterNum = ob.isSlave() ? ob.master : mo.outboardBody;
        CK(mo.isAddedBaseMobilizer() == J.isAddedBaseJoint && mo.isSlaveMobilizer() == ob.isSlave() && mo.isReversedFromJoint() == mo.isReversed
           && mo.getJointRef() == J.userRef && mo.getInboardBodyRef() == g.bodies[mo.inboardBody].userRef && mo.getOutboardBodyRef() == ob.userRef
           && mo.getOutboardMasterBodyRef() == g.bodies[masterNum].userRef && mo.getJointTypeName() == g.jointTypes[J.jointTypeNum].name
           && mo.getNumFragments() == 1 + (int)g.bodies[masterNum].slaves.size() && &g.getMobilizer(i) == &mo,
           "mobilizer/accessors", "public accessors of mobilizer " + N2S(i) + " disagree with the tables");
        CK(isInput(masterNum) || masterNum == 0, "slave/master-not-input", "mobilizer " + N2S(i) + ": master body is not an input body");
        if (ob.isSlave()) CK(mo.getOutboardBodyRef() == nullptr && mo.getOutboardMasterBodyRef() == g.bodies[ob.master].userRef, "mobilizer/accessors", "slave mobilizer refs wrong");
    }
    for (int b = 0; b < NB; ++b) {
        const MGM::Body& B = g.bodies[b];
        if (b == 0) CK(outCount[0] == 0, "body/one-mobilizer", "Ground is the outboard body of a mobilizer");
        else CK(outCount[b] == 1 && B.mobilizer >= 0 && g.mobilizers[B.mobilizer].outboardBody == b && B.isInTree(), "body/one-mobilizer",
                "body " + N2S(b) + " (" + B.name + ") is the outboard body of " + N2S(outCount[b]) + " mobilizers; mobilizer field=" + N2S(B.mobilizer));
    }
    // ---- every joint is exactly one of {mobilizer, loop constraint}
    for (int j = 0; j < NJ; ++j) {
        const MGM::Joint& J = g.joints[j];
        CK(J.hasMobilizer() != J.hasLoopConstraint(), "joint/exactly-one-role", "joint " + N2S(j) + " (" + J.name + ") mobilizer=" + N2S(J.mobilizer) + " loopConstraint=" + N2S(J.loopConstraint));
        if (J.hasMobilizer()) CK(g.mobilizers[J.mobilizer].joint == j, "joint/mobilizer-backref", "joint " + N2S(j) + " points at mobilizer " + N2S(J.mobilizer) + " which uses another joint");
        if (J.hasLoopConstraint()) CK(g.constraints[J.loopConstraint].joint == j, "joint/constraint-backref", "joint " + N2S(j) + " points at constraint " + N2S(J.loopConstraint) + " which uses another joint");
    }
    for (int i = 0; i < NC; ++i) {
        const MGM::LoopConstraint& lc = g.constraints[i];
        const MGM::Joint& J = g.joints[lc.joint];
        c.nLoopC++;
        CK(J.loopConstraint == i, "joint/constraint-backref", "constraint " + N2S(i) + " uses joint " + N2S(lc.joint) + " whose loopConstraint field is " + N2S(J.loopConstraint));
        CK(lc.parentBody == J.parentBodyNum && lc.childBody == J.childBodyNum && lc.type == g.jointTypes[J.jointTypeNum].name && g.jointTypes[J.jointTypeNum].haveGoodLoopJointAvailable
           && lc.getJointTypeName() == lc.type && lc.getJointRef() == J.userRef && lc.getParentBodyRef() == g.bodies[lc.parentBody].userRef && lc.getChildBodyRef() == g.bodies[lc.childBody].userRef
           && &g.getLoopConstraint(i) == &lc,
           "loopConstraint/fields", "loop constraint " + N2S(i) + " does not describe its joint");
        CK(!g.bodies[lc.parentBody].isSlave() && !g.bodies[lc.childBody].isSlave(), "loopConstraint/on-slave", "loop constraint " + N2S(i) + " attached to a slave body");
    }
    // ---- adjacency lists describe the joint table
    for (int b = 0; b < NB; ++b) {
        const MGM::Body& B = g.bodies[b];
        std::vector<int> asC, asP;
        for (int j = 0; j < NJ; ++j) {
            if (g.joints[j].parentBodyNum == b) asP.push_back(j);
            if (g.joints[j].childBodyNum == b) asC.push_back(j);
        }
        if (B.isSlave()) { asC.clear(); asP.clear(); if (B.mobilizer >= 0) asC.push_back(g.mobilizers[B.mobilizer].joint); }
        std::vector<int> hc = B.jointsAsChild, hp = B.jointsAsParent; std::sort(hc.begin(), hc.end()); std::sort(hp.begin(), hp.end());
        CK(hc == asC && hp == asP, "body/adjacency", "jointsAsChild/jointsAsParent of body " + N2S(b) + " do not match the joint table");
    }
    // ---- slave <-> master links
    for (int b = 0; b < NB; ++b) {
        const MGM::Body& B = g.bodies[b];
        if (B.isSlave()) {
            c.nSlaves++; if (B.master == 0) c.nGroundSlaves++;
            const MGM::Body& M = g.bodies[B.master];
            CK(!M.isSlave() && std::count(M.slaves.begin(), M.slaves.end(), b) == 1 && B.slaves.empty(), "slave/links", "slave " + N2S(b) + " is not listed exactly once by its master " + N2S(B.master));
        }
        for (int s : B.slaves) CK(g.bodies[s].master == b, "slave/links", "body " + N2S(b) + " lists slave " + N2S(s) + " whose master is " + N2S(g.bodies[s].master));
        CK(B.getNumFragments() == 1 + (int)B.slaves.size() && B.isMaster() == !B.slaves.empty(), "slave/links", "fragment count");
    }

    // ---- added joints are Ground free joints and become base mobilizers; they are added only where needed
    // reachability from Ground over tree-eligible joints
    std::array<bool, 32> reach{}; reach[0] = true;
    auto closure = [&](int upToJoint) {   // eligible = not must-be-loop; input joints + added joints [k, upToJoint)
        bool ch = true;
        while (ch) { ch = false;
            for (int j = 0; j < upToJoint; ++j) { const MGM::Joint& J = g.joints[j]; if (J.mustBeLoopJoint) continue;
                if (reach[J.parentBodyNum] != reach[J.childBodyNum]) { reach[J.parentBodyNum] = reach[J.childBodyNum] = true; ch = true; } } }
    };
    auto groundJoints = [&](int b, int& nAll, int& nEligible) {   // input joints between b and Ground
        nAll = nEligible = 0;
        for (int j = 0; j < k; ++j) { const MGM::Joint& J = g.joints[j];
            if ((J.parentBodyNum == b && J.childBodyNum == 0) || (J.parentBodyNum == 0 && J.childBodyNum == b)) { nAll++; if (!J.mustBeLoopJoint) nEligible++; } }
    };
    auto nInputJoints = [&](int b) { int c2 = 0; for (int j = 0; j < k; ++j) if (g.joints[j].parentBodyNum == b || g.joints[j].childBodyNum == b) c2++; return c2; };
    std::array<int, 32> addedFor{};    // joint index+1 of the added joint of body b
    std::array<bool, 32> baseViolator{};
    // mustBeBase first (the added-joint clauses are subsumed by a violation of it on the same body)
    for (int b = 1; b <= n; ++b) {
        const MGM::Body& B = g.bodies[b];
        if (!B.mustBeBaseBody) continue;
        ++c.n;
        if (B.level == 1 && g.mobilizers[B.mobilizer].inboardBody == 0) continue;
        baseViolator[b] = true;
    }
    closure(k);
    for (int j = k; j < NJ; ++j) {
        const MGM::Joint& J = g.joints[j];
        c.nAdded++;
        const bool form = J.parentBodyNum == 0 && isInput(J.childBodyNum) && J.jointTypeNum == 1 && g.jointTypes[1].name == "free" && g.jointTypes[1].numMobilities == 6 && !J.mustBeLoopJoint
                          && J.userRef == nullptr && J.name == "#G_" + g.bodies[J.childBodyNum].name;
        CK(form, "addedJoint/form", "added joint " + N2S(j) + " is not a free joint Ground -> input body");
        if (!form) continue;
        const int b = J.childBodyNum;
        CK(addedFor[b] == 0, "addedJoint/duplicate", "body " + N2S(b) + " got two added base joints");
        addedFor[b] = j + 1;
        if (!baseViolator[b])
            CK(J.hasMobilizer() && g.mobilizers[J.mobilizer].level == 1 && !g.mobilizers[J.mobilizer].isReversed && g.mobilizers[J.mobilizer].outboardBody == b, "addedJoint/not-base-mobilizer",
               "added joint " + N2S(j) + " for body " + N2S(b) + " is not a level-1 forward mobilizer");
        // needed?  step-1 additions: no joints at all, or must-be-base without a (tree-eligible) Ground joint
        int nAll, nEl; groundJoints(b, nAll, nEl);
        const bool step1 = nInputJoints(b) == 0 || (g.bodies[b].mustBeBaseBody && nEl == 0);
        if (!step1) {
            CK(!reach[b], "addedJoint/not-needed", "added base joint " + N2S(j) + " for body " + N2S(b) + " which was already reachable from Ground through tree-eligible joints");
            // documented heuristic: most children among bodies that never appear as a child, else most children; ties -> first.
            // "children" is read four ways (joints or distinct bodies; with or without must-be-loop joints): the choice must be optimal under one of them.
            if (!reach[b]) {
                bool okAny = false;
                for (int variant = 0; variant < 4 && !okAny; ++variant) {
                    const bool distinctKids = variant & 1, skipLoop = variant & 2;
                    int best = -1, bestKids = -1; bool bestParentOnly = false;
                    for (int x = 1; x <= n; ++x) {
                        if (reach[x]) continue;
                        int kids = 0; bool asChild = false; std::array<bool, 32> seen{};
                        for (int jj = 0; jj < k; ++jj) { const MGM::Joint& JJ = g.joints[jj];
                            if (JJ.childBodyNum == x) asChild = true;
                            if (JJ.parentBodyNum == x) { if (skipLoop && JJ.mustBeLoopJoint) continue; if (distinctKids) { if (seen[JJ.childBodyNum]) continue; seen[JJ.childBodyNum] = true; } kids++; } }
                        const bool po = !asChild;
                        if (best < 0 || (po && !bestParentOnly) || (po == bestParentOnly && kids > bestKids)) { best = x; bestKids = kids; bestParentOnly = po; }
                    }
                    if (best == b) okAny = true;
                }
                CK(okAny, "baseChoice/heuristic", "body " + N2S(b) + " was chosen as new base body against the documented heuristic (most children among parent-only bodies, else most children, first on ties)");
            }
        }
        reach[b] = true; closure(j + 1);
    }
    for (int b = 1; b <= n; ++b) {
        int nAll, nEl; groundJoints(b, nAll, nEl);
        if (nInputJoints(b) == 0 || (g.bodies[b].mustBeBaseBody && nAll == 0))
            CK(addedFor[b] != 0, "addedJoint/missing", "body " + N2S(b) + " (no joints, or must-be-base without any Ground joint) got no added base joint");
    }
    // ---- mustBeBase bodies are at level 1; every violation is classified
    for (int b = 1; b <= n; ++b) {
        if (!baseViolator[b]) continue;
        int nAll, nEl; groundJoints(b, nAll, nEl);
        const bool eligible = nEl > 0 || addedFor[b] != 0;
        const MGM::Body& B = g.bodies[b];
        const int inb = B.mobilizer >= 0 ? g.mobilizers[B.mobilizer].inboardBody : 0;
        const MGM::Body& IB = g.bodies[inb];
        std::string what = "must-be-base body " + N2S(b) + " (" + B.name + ") is at level " + N2S(B.level) + " (inboard body " + IB.name + ")";
        if (!eligible && nAll > 0) { c.baseA = true; c.fails.emplace_back("mustBeBase/loop-only-ground-joint", what + ": its only Ground connection is a must-be-loop joint, no base joint was added"); }
        else if (eligible && inb != 0 && IB.mass == 0 && IB.mobilizer >= 0 && dofOf(g.mobilizers[IB.mobilizer].joint) > 0) {
            c.baseB = true; c.fails.emplace_back("mustBeBase/massless-extension", what + ": the massless-branch extension from " + IB.name + " reached it before its own Ground joint was considered"); }
        else { c.baseOther = true; c.fails.emplace_back("mustBeBase/other", what + ": not one of the two known patterns"); }
    }
    // ---- no branch ends in a massless body whose inboard mobilizer has mobilities
    std::array<bool, 32> hasOutboard{};
    for (auto& mo : g.mobilizers) hasOutboard[mo.inboardBody] = true;
    for (int b = 1; b < NB; ++b) {
        const MGM::Body& B = g.bodies[b];
        if (B.mobilizer < 0) continue;
        const int dof = dofOf(g.mobilizers[B.mobilizer].joint);
        if (!B.isSlave()) {
            if (B.mass == 0 && dof > 0) CK(hasOutboard[b], "massless/terminal", "massless body " + N2S(b) + " (" + B.name + ") ends a branch with a " + N2S(dof) + "-dof mobilizer");
        } else {
            ++c.n;
            if (g.bodies[B.master].mass == 0 && dof > 0) { c.slaveMassless = true;
                c.fails.emplace_back("massless/terminal-slave-of-massless-master", "slave body " + N2S(b) + " of massless body " + g.bodies[B.master].name + " ends a branch with a " + N2S(dof) + "-dof mobilizer (a fragment of zero mass)"); }
        }
    }
}

// ---------------------------------------------------------------- judged generateGraph()
enum ErrKind { E_NONE = 0, E_FREE, E_DANGLE, E_TERMINAL, E_OTHER };
struct GenResult { bool threw = false; std::string msg; ErrKind kind = E_NONE; };
static GenResult generate(MGM& g) {
    GenResult r;
    try { g.generateGraph(); }
    catch (const std::exception& e) { r.threw = true; r.msg = e.what(); }
    return r;
}
// An error is acceptable only if it names a massless input body for which the stated condition holds.
static void judgeError(const Model& m, GenResult& r, Check& c) {
    auto bodyAfter = [&](const std::string& pre) -> int { size_t p = r.msg.find(pre); if (p == std::string::npos) return -1; p += pre.size(); if (p >= r.msg.size()) return -1;
        int letter = r.msg[p] - 'a' + 1; return letter; };
    int letter = -1;
    if (r.msg.find("is massless but free (no joint)") != std::string::npos) { r.kind = E_FREE; letter = bodyAfter("generateGraph(): body "); }
    else if (r.msg.find("is massless but not internal") != std::string::npos) { r.kind = E_DANGLE; letter = bodyAfter("generateGraph(): body "); }
    else if (r.msg.find("terminal massless body (") != std::string::npos) { r.kind = E_TERMINAL; letter = bodyAfter("terminal massless body ("); }
    else r.kind = E_OTHER;
    bool ok = false;
    if (r.kind != E_OTHER) {
        for (auto& b : m.bodies) if (b.letter == letter && b.mass == 0) {
            int nj = 0, mobile = 0; for (auto& j : m.joints) if (j.parent == letter || j.child == letter) { nj++; if (TYPE_DOF[j.type] > 0) mobile++; }
            if (r.kind == E_FREE) ok = nj == 0;
            else if (r.kind == E_DANGLE) ok = nj == 1 && mobile == 1;
            else {
                // "terminal massless body": X can only have become a mobile terminal body through a joint with mobilities or an added
                // free joint (must-be-base, or not reachable from Ground over tree-eligible input joints).  A massless body whose joints
                // are all welds and which hangs on the Ground component may end a branch (documented), so an error naming it is unjustified.
                bool reachable = false;
                { std::vector<int> seen(1, 0); bool ch = true;
                  auto has = [&](int l) { return std::find(seen.begin(), seen.end(), l) != seen.end(); };
                  while (ch) { ch = false; for (auto& j : m.joints) { if (j.loop) continue; if (has(j.parent) != has(j.child)) { seen.push_back(has(j.parent) ? j.child : j.parent); ch = true; } } }
                  reachable = has(letter); }
                ok = mobile > 0 || b.base || !reachable;
            }
        }
    }
    CK(ok, "error/unjustified", "generateGraph() threw '" + r.msg + "' but the condition it states does not hold for a massless input body");
}

static uint64_t outcomeHash(const Model& m, const GenResult& r, const Check& c) {
    uint64_t h = verif::hashPod((int)m.bodies.size());
    int v[9] = {(int)r.kind, c.nSlaves, c.nAdded, c.nLoopC, c.nReversed, c.maxLevel, c.nGroundSlaves, (int)c.baseA + 2 * (int)c.baseB + 4 * (int)c.baseOther, (int)c.slaveMassless};
    return verif::fnv1a(v, sizeof v, h);
}

// ---------------------------------------------------------------- white-box canonical state (E2)
struct Canon { std::string main, ground; };
// Text form (for messages and replay).  `ground` holds everything that depends on Ground's slave list (the list itself,
// the names "#G_slave_<k>" of Ground's slaves and the fragment counts); `main` holds the rest.
static Canon canon(const MGM& g) {
    std::ostringstream o, q;
    o << "weld=" << g.weldTypeName << " free=" << g.freeTypeName << "\n";
    for (size_t i = 0; i < g.jointTypes.size(); ++i) o << "type " << i << " " << g.jointTypes[i].name << " " << g.jointTypes[i].numMobilities << " " << g.jointTypes[i].haveGoodLoopJointAvailable << " " << (intptr_t)g.jointTypes[i].userRef << "\n";
    for (size_t i = 0; i < g.bodies.size(); ++i) {
        const MGM::Body& b = g.bodies[i];
        if (b.master == 0) { o << "body " << i << " #G_slave_*"; q << " name" << i << "=" << b.name; } else o << "body " << i << " " << b.name;
        o << " m=" << b.mass << " base=" << b.mustBeBaseBody << " ref=" << (intptr_t)b.userRef << " lvl=" << b.level << " mob=" << b.mobilizer << " master=" << b.master << " c=[";
        for (int j : b.jointsAsChild) o << j << ","; o << "] p=["; for (int j : b.jointsAsParent) o << j << ","; o << "]";
        std::ostringstream& sl = i == 0 ? q : o;
        sl << " slaves=["; for (int s : b.slaves) sl << s << ","; sl << "]";
        o << "\n";
    }
    for (size_t i = 0; i < g.joints.size(); ++i) {
        const MGM::Joint& j = g.joints[i];
        o << "joint " << i << " " << j.name << " loop=" << j.mustBeLoopJoint << " ref=" << (intptr_t)j.userRef << " " << j.parentBodyNum << ">" << j.childBodyNum << " t=" << j.jointTypeNum << " added=" << j.isAddedBaseJoint << " mob=" << j.mobilizer << " lc=" << j.loopConstraint << "\n";
    }
    for (size_t i = 0; i < g.mobilizers.size(); ++i) {
        const MGM::Mobilizer& mo = g.mobilizers[i];
        o << "mobilizer " << i << " j=" << mo.joint << " lvl=" << mo.level << " " << mo.inboardBody << ">" << mo.outboardBody << " rev=" << mo.isReversed << " self=" << (mo.mgm == &g) << "\n";
        bool okIdx = mo.mgm == &g && mo.outboardBody >= 0 && mo.outboardBody < (int)g.bodies.size();
        if (okIdx) { const MGM::Body& ob = g.bodies[mo.outboardBody]; int mn = ob.isSlave() ? ob.master : mo.outboardBody; if (mn >= 0 && mn < (int)g.bodies.size()) (mn == 0 ? q : o) << " frag" << i << "=" << 1 + g.bodies[mn].slaves.size() << (mn == 0 ? "" : "\n"); }
    }
    for (size_t i = 0; i < g.constraints.size(); ++i) {
        const MGM::LoopConstraint& lc = g.constraints[i];
        o << "constraint " << i << " " << lc.type << " j=" << lc.joint << " " << lc.parentBody << ">" << lc.childBody << " self=" << (lc.mgm == &g) << "\n";
    }
    for (auto& kv : g.bodyName2Num) o << "bn " << kv.first << "=" << kv.second << "\n";
    for (auto& kv : g.jointName2Num) o << "jn " << kv.first << "=" << kv.second << "\n";
    for (auto& kv : g.jointTypeName2Num) o << "tn " << kv.first << "=" << kv.second << "\n";
    return {o.str(), q.str()};
}
// Fast binary form of the same information (used for the comparison; the text form is produced only on a mismatch).
static void canonBin(const MGM& g, std::string& o, std::string& q) {
    o.clear(); q.clear();
    auto pi = [](std::string& s, int64_t v) { s.append((const char*)&v, sizeof v); };
    auto ps = [&](std::string& s, const std::string& v) { pi(s, (int64_t)v.size()); s += v; };
    auto pv = [&](std::string& s, const std::vector<int>& v) { pi(s, (int64_t)v.size()); for (int x : v) pi(s, x); };
    ps(o, g.weldTypeName); ps(o, g.freeTypeName);
    pi(o, (int64_t)g.jointTypes.size());
    for (auto& t : g.jointTypes) { ps(o, t.name); pi(o, t.numMobilities); pi(o, t.haveGoodLoopJointAvailable); pi(o, (intptr_t)t.userRef); }
    pi(o, (int64_t)g.bodies.size());
    for (size_t i = 0; i < g.bodies.size(); ++i) {
        const MGM::Body& b = g.bodies[i];
        if (b.master == 0) ps(q, b.name); else ps(o, b.name);
        double mass = b.mass; int64_t mb = 0; if (mass == mass) memcpy(&mb, &mass, sizeof mb); else mb = -1;
        pi(o, mb); pi(o, b.mustBeBaseBody); pi(o, (intptr_t)b.userRef); pi(o, b.level); pi(o, b.mobilizer); pi(o, b.master); pv(o, b.jointsAsChild); pv(o, b.jointsAsParent);
        pv(i == 0 ? q : o, b.slaves);
    }
    pi(o, (int64_t)g.joints.size());
    for (auto& j : g.joints) { ps(o, j.name); pi(o, j.mustBeLoopJoint); pi(o, (intptr_t)j.userRef); pi(o, j.parentBodyNum); pi(o, j.childBodyNum); pi(o, j.jointTypeNum); pi(o, j.isAddedBaseJoint); pi(o, j.mobilizer); pi(o, j.loopConstraint); }
    pi(o, (int64_t)g.mobilizers.size());
    for (auto& mo : g.mobilizers) {
        pi(o, mo.joint); pi(o, mo.level); pi(o, mo.inboardBody); pi(o, mo.outboardBody); pi(o, mo.isReversed); pi(o, mo.mgm == &g);
        bool okIdx = mo.mgm == &g && mo.outboardBody >= 0 && mo.outboardBody < (int)g.bodies.size();
        if (okIdx) { const MGM::Body& ob = g.bodies[mo.outboardBody]; int mn = ob.isSlave() ? ob.master : mo.outboardBody; if (mn >= 0 && mn < (int)g.bodies.size()) pi(mn == 0 ? q : o, 1 + (int64_t)g.bodies[mn].slaves.size()); }
    }
    pi(o, (int64_t)g.constraints.size());
    for (auto& lc : g.constraints) { ps(o, lc.type); pi(o, lc.joint); pi(o, lc.parentBody); pi(o, lc.childBody); pi(o, lc.mgm == &g); }
    for (auto& kv : g.bodyName2Num) { ps(o, kv.first); pi(o, kv.second); }
    pi(o, -7);
    for (auto& kv : g.jointName2Num) { ps(o, kv.first); pi(o, kv.second); }
    pi(o, -7);
    for (auto& kv : g.jointTypeName2Num) { ps(o, kv.first); pi(o, kv.second); }
}
static std::string firstDiff(const std::string& a, const std::string& b) {
    std::istringstream ia(a), ib(b); std::string la, lb;
    while (true) {
        bool ga = (bool)std::getline(ia, la), gb = (bool)std::getline(ib, lb);
        if (!ga && !gb) return "(no difference)";
        if (!ga) la = "(end)"; if (!gb) lb = "(end)";
        if (la != lb) return "history-built has '" + la + "' but fresh maker has '" + lb + "'";
    }
}

// ---------------------------------------------------------------- history executor (E2 and replay)
struct Op { char kind; MBody body; MJoint joint; int letter = 0, id = 0; };   // kind: B J b(DB) j(DJ) G C
static std::string opText(const Op& o) {
    switch (o.kind) { case 'B': return opBody(o.body); case 'J': return opJoint(o.joint); case 'b': return "DB " + S_BODY[o.letter]; case 'j': return "DJ " + S_JOINT[o.id]; case 'G': return "GEN"; default: return "CLR"; }
}
static std::string opsText(const std::vector<Op>& ops) { std::string s; for (auto& o : ops) s += opText(o) + "; "; return s; }
static int letterOf(const std::string& s) { return s == "G" ? 0 : s[0] - 'a' + 1; }
static std::vector<Op> parseOps(const std::string& text) {
    std::vector<Op> ops; std::istringstream is(text); std::string part;
    while (std::getline(is, part, ';')) {
        std::istringstream ps(part); std::string k; if (!(ps >> k)) continue;
        Op o;
        if (k == "B") { std::string nm; int mass, base; ps >> nm >> mass >> base; o.kind = 'B'; o.body = {letterOf(nm), mass, base != 0}; }
        else if (k == "J") { std::string nm, ty, p, ch; int loop; ps >> nm >> ty >> p >> ch >> loop; int t = 0; for (int i = 0; i < NTYPES; ++i) if (ty == TYPE_NAME[i]) t = i;
            o.kind = 'J'; o.joint = {atoi(nm.c_str() + 1), t, letterOf(p), letterOf(ch), loop != 0}; }
        else if (k == "DB") { std::string nm; ps >> nm; o.kind = 'b'; o.letter = letterOf(nm); }
        else if (k == "DJ") { std::string nm; ps >> nm; o.kind = 'j'; o.id = atoi(nm.c_str() + 1); }
        else if (k == "GEN") o.kind = 'G';
        else if (k == "CLR") o.kind = 'C';
        else continue;
        ops.push_back(o);
    }
    return ops;
}
static void applyToModel(Model& m, const Op& o) {
    if (o.kind == 'B') m.bodies.push_back(o.body);
    else if (o.kind == 'J') m.joints.push_back(o.joint);
    else if (o.kind == 'j') { for (size_t i = 0; i < m.joints.size(); ++i) if (m.joints[i].id == o.id) { m.joints.erase(m.joints.begin() + i); break; } }
    else if (o.kind == 'b') {
        for (size_t i = 0; i < m.joints.size();) if (m.joints[i].parent == o.letter || m.joints[i].child == o.letter) m.joints.erase(m.joints.begin() + i); else ++i;
        for (size_t i = 0; i < m.bodies.size(); ++i) if (m.bodies[i].letter == o.letter) { m.bodies.erase(m.bodies.begin() + i); break; }
    }
}

struct HistStats { int64_t gens = 0, gensThrew = 0, ungenCompares = 0, genCompares = 0, checks = 0; uint64_t lastOutcome = 0; };

// Replays `ops` on a fresh maker.  After every input edit / clear the (ungenerated) state must equal that of a
// fresh maker given the model's current input; at every GEN the result must equal a fresh maker's result
// (same error text, or same canonical graph) and satisfy the structural oracle.
// fails: (key, what).  `structural`: also run checkGraph on the history-built graph.
static void runHistory(const std::vector<Op>& ops, std::vector<std::pair<std::string, std::string>>& fails, HistStats& st, bool verbose, const std::string& scen, bool structural = true) {
    MGM h; addTypes(h); h.addBody(S_BODY[0], 0, false, bodyRef(0));
    Model m; bool generated = false;
    auto compare = [&](const MGM& a, const MGM& f, const std::string& phase, size_t opIndex) {
        static thread_local std::string am, ag, fm, fg;
        canonBin(a, am, ag); canonBin(f, fm, fg);
        st.checks += 2;
        if (am == fm && ag == fg && !verbose) return;
        Canon ca = canon(a), cf = canon(f);
        if ((am == fm) != (ca.main == cf.main) || (ag == fg) != (ca.ground == cf.ground))
            fails.emplace_back("harness/canon-forms-disagree", "binary and text canonical forms disagree");
        if (ca.main != cf.main) fails.emplace_back("history/" + scen + "/" + phase + "-state-differs", "after op " + N2S((int)opIndex) + " (" + opText(ops[opIndex]) + "): " + firstDiff(ca.main, cf.main));
        if (ca.ground != cf.ground) fails.emplace_back("history/clearGraph-keeps-ground-slaves", "after op " + N2S((int)opIndex) + " (" + opText(ops[opIndex]) + "): Ground's slave list / fragment counts differ from a fresh maker: history-built '" + ca.ground + "' fresh '" + cf.ground + "'");
        if (verbose) { printf("   compare[%s] main %s, ground-slaves %s\n", phase.c_str(), ca.main == cf.main ? "equal" : "DIFFER", ca.ground == cf.ground ? "equal" : "DIFFER");
            if (ca.main != cf.main) printf("--- history-built\n%s--- fresh\n%s", ca.main.c_str(), cf.main.c_str());
            if (ca.ground != cf.ground) printf("--- history-built ground: %s\n--- fresh ground: %s\n", ca.ground.c_str(), cf.ground.c_str()); }
    };
    for (size_t i = 0; i < ops.size(); ++i) {
        const Op& o = ops[i];
        if (verbose) printf("op %zu: %s\n", i, opText(o).c_str());
        if (o.kind == 'G') {
            if (generated) continue;   // generate twice without clearGraph is not a documented use
            GenResult rh = generate(h);
            MGM f; buildFresh(f, m); GenResult rf = generate(f);
            st.gens++; st.genCompares++; st.checks++;
            generated = true;
            if (verbose) { printf("   generateGraph(): %s\n", rh.threw ? ("threw: " + rh.msg).c_str() : "ok"); std::ostringstream d; h.dumpGraph(d); printf("%s", d.str().c_str()); }
            if (rh.threw != rf.threw || rh.msg != rf.msg)
                fails.emplace_back("history/" + scen + "/generate-outcome-differs", "op " + N2S((int)i) + ": history-built maker " + (rh.threw ? "threw '" + rh.msg + "'" : "succeeded") + " but a fresh maker " + (rf.threw ? "threw '" + rf.msg + "'" : "succeeded"));
            else if (!rh.threw) {
                compare(h, f, "generated", i);
                if (structural) {
                    // the structural oracle is evaluated on the fresh maker's graph; the history-built one has just been compared with it
                    Check c; checkGraph(m, f, c); st.checks += c.n;
                    for (auto& fl : c.fails) fails.push_back(fl);
                    st.lastOutcome = outcomeHash(m, rh, c);
                    if (verbose) for (auto& fl : c.fails) printf("   ORACLE %s: %s\n", fl.first.c_str(), fl.second.c_str());
                }
            } else { st.gensThrew++; Check c; judgeError(m, rh, c); st.checks += c.n; for (auto& fl : c.fails) fails.push_back(fl); st.lastOutcome = verif::hashStr(rh.msg); }
            continue;
        }
        if (o.kind == 'C') { h.clearGraph(); generated = false; }
        else {
            if (generated) { h.clearGraph(); generated = false; }   // edits are only made on a cleared maker
            if (o.kind == 'B') addBodyTo(h, o.body);
            else if (o.kind == 'J') addJointTo(h, o.joint);
            else if (o.kind == 'b') { bool r = h.deleteBody(S_BODY[o.letter]); st.checks++; if (!r) fails.emplace_back("history/deleteBody-returned-false", "deleteBody(" + S_BODY[o.letter] + ") returned false for an existing body"); }
            else if (o.kind == 'j') { bool r = h.deleteJoint(S_JOINT[o.id]); st.checks++; if (!r) fails.emplace_back("history/deleteJoint-returned-false", "deleteJoint(" + S_JOINT[o.id] + ") returned false for an existing joint"); }
            applyToModel(m, o);
        }
        MGM f; buildFresh(f, m);
        st.ungenCompares++;
        compare(h, f, "ungenerated", i);
    }
}

// ---------------------------------------------------------------- enumeration helpers
struct Kind { int parent, child, type; bool loop; };
static std::vector<Kind> jointKinds(int n) {     // all ordered (parent,child) pairs of distinct bodies among Ground + n, x type x mustBeLoop
    std::vector<Kind> v;
    for (int p = 0; p <= n; ++p) for (int ch = 0; ch <= n; ++ch) if (p != ch) for (int t = 0; t < NTYPES; ++t) for (int l = 0; l < 2; ++l) v.push_back({p, ch, t, l != 0});
    return v;
}
static int64_t ipow(int64_t b, int e) { int64_t r = 1; while (e-- > 0) r *= b; return r; }

struct GItem { int n, attr, k, first; bool multiset; bool descending; };

// local counters flushed once per item
struct Local {
    std::map<std::string, int64_t> cnt; int64_t transitions = 0;
    void flush(verif::Run& run) { for (auto& kv : cnt) run.count(kv.first, kv.second); run.transition(transitions); cnt.clear(); transitions = 0; }
};

// ---------------------------------------------------------------- watchdog: CPU-time limit per enumeration item
// A defective library can loop forever (e.g. deleteBody() with a stale adjacency index).  Each item of a section runs under a
// virtual-time limit; on expiry the item is reported as `hang/<section>` and this worker stops (its remaining items are
// reported as not covered).
static sigjmp_buf g_wdJmp; static volatile sig_atomic_t g_wdArmed = 0;
static void wdHandler(int) { if (g_wdArmed) { g_wdArmed = 0; siglongjmp(g_wdJmp, 1); } }
static void wdArm(double sec) { itimerval t; memset(&t, 0, sizeof t); t.it_value.tv_sec = (long)sec; setitimer(ITIMER_VIRTUAL, &t, nullptr); g_wdArmed = sec > 0; }
static void guarded(verif::Run& run, const std::string& section, double cpuLimit, const std::function<void()>& body) {
    if (sigsetjmp(g_wdJmp, 1) == 0) { wdArm(cpuLimit); body(); wdArm(0); }
    else { wdArm(0);
        run.violation("hang/" + section, "item " + std::to_string(run.currentItem()) + " of section " + section + " exceeded " + std::to_string((int)cpuLimit) + " s of CPU time (the library did not return)", run.replayHeader());
        if (!run.replaying()) run.flushAndExitWorker(); }
}

int main(int argc, char** argv) {
    initNames();
    { struct sigaction sa; memset(&sa, 0, sizeof sa); sa.sa_handler = wdHandler; sigaction(SIGVTALRM, &sa, nullptr); }
    verif::Run run("C42", argc, argv);
    run.setDeadline(600, 2700);
    const bool thorough = run.thorough();
    run.rule = "graphs: a case = Ground + n bodies (each mass in {0,1} x mustBeBase in {0,1}) + an ORDERED sequence of k joints, each = ordered (parent,child) pair of distinct bodies incl. Ground x type {weld,pin,ball} x mustBeLoop {0,1}; "
               "all n<=3,k<=3 sequences (quick); thorough adds n=4,k<=2 sequences, n=4,k=3 and n=3,k=4 multisets in ascending and in descending kind order, n<=2,k=4 sequences, n=4,k=4 ascending multisets with at most one massless and at most one must-be-base body; cases are distinct by construction; non-trivial = at least one body. "
               "edits: every model with n<=2,k<=2 or n=3,k<=1 (thorough: n<=3,k<=2) x {regenerate twice, delete each joint, delete each body, re-add the last joint, add a body}, each with and without a generate/clear cycle before the edit. "
               "histories: every operation sequence up to depth d over {addBody, addJoint(any kind), deleteBody, deleteJoint, generate+clear} from an empty maker, replayed on a fresh object";
    run.assumptions = {"joints connect two distinct bodies (documented precondition)", "input edits are made only on a maker without a generated graph (clearGraph first); generateGraph is not called twice without clearGraph",
                       "Ground is never deleted (documented)", "joint types weld (0 dof, loop constraint), pin (1 dof, no loop constraint -> slave split), ball (3 dof, loop constraint) stand for all types: the class reads only numMobilities==0 and haveGoodLoopJointAvailable"};

    // ================================================================ replay of one recorded case
    if (run.replaying()) {
        std::vector<Op> ops = parseOps(run.replayField("ops"));
        std::vector<std::pair<std::string, std::string>> fails; HistStats st;
        printf("replaying %zu operations: %s\n", ops.size(), opsText(ops).c_str());
        runHistory(ops, fails, st, true, run.replayField("scenario").empty() ? "replay" : run.replayField("scenario"));
        std::vector<std::pair<std::string, std::string>> fails2; HistStats st2;
        runHistory(ops, fails2, st2, false, run.replayField("scenario").empty() ? "replay" : run.replayField("scenario"));
        if (fails != fails2) { printf("replay is not deterministic\n"); return 2; }
        for (auto& f : fails) printf("ORACLE %s: %s\n", f.first.c_str(), f.second.c_str());
        if (!fails.empty()) { printf("VIOLATION property=C42 replay=%s\n", run.replayPath.c_str()); return 1; }
        printf("no violation on replay\n");
        return 0;
    }

    // ================================================================ section 1: all input graphs
    const int NQ = 3, KQ = 3;
    std::vector<GItem> items;
    auto addItems = [&](int n, int k, bool multiset, bool descending, int maxBase, int maxMassless) {
        int kinds = (n + 1) * n * NTYPES * 2;
        for (int attr = 0; attr < (int)ipow(4, n); ++attr) {
            int nBase = 0, nMassless = 0; for (int b = 0; b < n; ++b) { if ((attr >> (2 * b)) & 2) nBase++; if ((attr >> (2 * b)) & 1) nMassless++; }
            if (nBase > maxBase || nMassless > maxMassless) continue;
            if (k == 0) items.push_back({n, attr, 0, 0, false, false});
            else for (int f = 0; f < kinds; ++f) items.push_back({n, attr, k, f, multiset, descending});
        }
    };
    for (int n = 0; n <= NQ; ++n) for (int k = 0; k <= KQ; ++k) { if (n == 0 && k > 0) continue; addItems(n, k, false, false, 256, 4); }
    if (thorough) {
        for (int k = 0; k <= 2; ++k) addItems(4, k, false, false, 256, 4);   // 4 bodies, every ordered sequence of <= 2 joints
        addItems(4, 3, true, false, 256, 4); addItems(4, 3, true, true, 256, 4);   // 4 bodies, 3-joint multisets in ascending and in descending kind order
        for (int n = 1; n <= 2; ++n) addItems(n, 4, false, false, 256, 4);   // <= 2 bodies, every ordered sequence of 4 joints
        addItems(3, 4, true, false, 256, 4); addItems(3, 4, true, true, 256, 4); // 3 bodies, 4-joint multisets in ascending and in descending kind order
        addItems(4, 4, true, false, 1, 1);                                   // 4 bodies, 4-joint multisets (ascending); at most one massless and at most one must-be-base body
    }
    run.extraCoverage["graph_items"] = std::to_string(items.size());

    double tSec = run.elapsed();
    std::string only; for (size_t i = 0; i + 1 < run.extra.size(); ++i) if (run.extra[i] == "--only") only = run.extra[i + 1];   // development aid: run one section
    if (!only.empty()) run.exhaustive = false;
    if (only.empty() || only == "graphs")
    run.parallel("graphs", (int64_t)items.size(), [&](int64_t idx) { guarded(run, "graphs", 20, [&] {
        const GItem it = items[idx];
        const std::vector<Kind> kinds = jointKinds(it.n);
        const int K = (int)kinds.size();
        Model m;
        for (int b = 0; b < it.n; ++b) { int a = (it.attr >> (2 * b)) & 3; m.bodies.push_back({b + 1, (a & 1) ? 0 : 1, (a & 2) != 0}); }
        m.joints.resize(it.k);
        std::vector<int> sel(it.k, 0);
        if (it.k > 0) sel[0] = it.first;
        Local L;
        const std::string tag = "n" + N2S(it.n) + "k" + N2S(it.k);
        int64_t hc[12] = {0};   // 0 cases, 1..4 errors by kind, 5 accepted, 6.. features
        auto runCase = [&]() {
            for (int j = 0; j < it.k; ++j) { const Kind& kd = kinds[sel[j]]; m.joints[j] = {j, kd.type, kd.parent, kd.child, kd.loop}; }
            MGM g; buildFresh(g, m);
            GenResult r = generate(g);
            Check c;
            if (r.threw) { judgeError(m, r, c); hc[r.kind]++; }
            else {
                checkGraph(m, g, c);
                hc[5]++;
                if (c.nSlaves) hc[6]++;
                if (c.nGroundSlaves) hc[7]++;
                if (c.nLoopC) hc[8]++;
                if (c.nAdded) hc[9]++;
                if (c.nReversed) hc[10]++;
                if (c.maxLevel > it.n) hc[11]++;
            }
            hc[0]++;
            L.transitions += c.n;
            run.evaluationDistinct(it.n > 0);
            run.outcome(outcomeHash(m, r, c));
            if (!c.fails.empty()) {
                std::string ops;
                for (auto& f : c.fails) {
                    L.cnt["oracle:" + f.first + ":FAIL"]++;
                    int64_t& seen = run.acc.violCountByKey[f.first];
                    if (seen >= (int64_t)run.maxViolsPerKey) { seen++; continue; }   // only the first few per key carry text
                    if (ops.empty()) ops = opsOfModel(m) + "GEN";
                    run.violation(f.first, f.second + " | input: " + ops, run.replayHeader() + "scenario=graphs\nops=" + ops + "\n");
                }
            }
            if (run.verbose) printf("%s -> %s\n", describe(m).c_str(), r.threw ? r.msg.c_str() : "ok");
        };
        // enumerate the remaining k-1 joints
        std::function<void(int)> rec = [&](int pos) {
            if (pos >= it.k) { if (it.descending && sel[0] == sel[it.k - 1]) return; /* all-equal multisets belong to the ascending pass */ runCase(); return; }
            if (!it.multiset) { for (int s = 0; s < K; ++s) { sel[pos] = s; rec(pos + 1); } }
            else if (!it.descending) { for (int s = sel[pos - 1]; s < K; ++s) { sel[pos] = s; rec(pos + 1); } }
            else { for (int s = sel[pos - 1]; s >= 0; --s) { sel[pos] = s; rec(pos + 1); } }
        };
        rec(it.k > 0 ? 1 : 0);
        if (idx % 1499 == 7 && it.k > 0) {
            MGM g; buildFresh(g, m); GenResult r = generate(g);
            std::string res = r.threw ? "error: " + r.msg : (N2S((int)g.mobilizers.size()) + " mobilizers, " + N2S((int)g.constraints.size()) + " loop constraints, " + N2S((int)g.bodies.size() - 1 - it.n) + " slaves");
            run.sample(opsOfModel(m) + "GEN -> " + res);
        }
        static const char* const HN[12] = {"", "graphs:error:massless-free", "graphs:error:massless-dangling", "graphs:error:terminal-massless", "graphs:error:other", "graphs:accepted", "graphs:with-slaves",
                                           "graphs:with-ground-slaves", "graphs:with-loop-constraints", "graphs:with-added-base-joints", "graphs:with-reversed-mobilizers", "graphs:deeper-than-n"};
        L.cnt["graphs:cases:" + tag] += hc[0];
        for (int q = 1; q < 12; ++q) if (hc[q]) L.cnt[HN[q]] += hc[q];
        L.flush(run);
    }); });
    run.extraCoverage["wall_graphs_s"] = verif::jsonNum(run.elapsed() - tSec); tSec = run.elapsed();

    // ================================================================ section 2: single edits on every model (E2, merged view)
    struct EItem { int n, attr, k, first; };
    std::vector<EItem> eitems;
    {
        // quick: n<=2,k<=2 and n=3,k<=1; thorough: n<=3,k<=2
        for (int n = 1; n <= 3; ++n) for (int k = 0; k <= 3; ++k) {
            const bool inQuick = (n <= 2 && k <= 2) || (n == 3 && k <= 1);
            const bool inThorough = k <= 2;
            if (!(thorough ? inThorough : inQuick)) continue;
            int kinds = (n + 1) * n * NTYPES * 2;
            for (int attr = 0; attr < (int)ipow(4, n); ++attr) {
                if (k == 0) eitems.push_back({n, attr, 0, 0});
                else for (int f = 0; f < kinds; ++f) eitems.push_back({n, attr, k, f});
            }
        }
    }
    if (only.empty() || only == "edits")
    run.parallel("edits", (int64_t)eitems.size(), [&](int64_t idx) { guarded(run, "edits", 20, [&] {
        const EItem it = eitems[idx];
        const std::vector<Kind> kinds = jointKinds(it.n);
        const int K = (int)kinds.size();
        Model m;
        for (int b = 0; b < it.n; ++b) { int a = (it.attr >> (2 * b)) & 3; m.bodies.push_back({b + 1, (a & 1) ? 0 : 1, (a & 2) != 0}); }
        m.joints.resize(it.k);
        std::vector<int> sel(it.k, 0);
        if (it.k > 0) sel[0] = it.first;
        Local L;
        auto runScenario = [&](const std::string& scen, const std::vector<Op>& ops) {
            std::vector<std::pair<std::string, std::string>> fails; HistStats st;
            runHistory(ops, fails, st, run.verbose, scen, /*structural*/false);
            L.transitions += st.checks;
            L.cnt["edits:scenario:" + scen]++;
            L.cnt["edits:generates"] += st.gens; L.cnt["edits:generates-that-threw"] += st.gensThrew;
            run.evaluationDistinct(true);
            run.outcome(verif::hashMix(verif::hashStr(scen), st.lastOutcome));
            for (auto& f : fails) {
                L.cnt["oracle:" + f.first + ":FAIL"]++;
                int64_t& seen = run.acc.violCountByKey[f.first];
                if (seen >= (int64_t)run.maxViolsPerKey) { seen++; continue; }
                std::string t = opsText(ops);
                run.violation(f.first, f.second + " | history: " + t, run.replayHeader() + "scenario=" + scen + "\nops=" + t + "\n");
            }
        };
        auto opB = [](const MBody& b) { Op o; o.kind = 'B'; o.body = b; return o; };
        auto opJ = [](const MJoint& j) { Op o; o.kind = 'J'; o.joint = j; return o; };
        auto opK = [](char k) { Op o; o.kind = k; return o; };
        auto runModel = [&]() {
            for (int j = 0; j < it.k; ++j) { const Kind& kd = kinds[sel[j]]; m.joints[j] = {j, kd.type, kd.parent, kd.child, kd.loop}; }
            std::vector<Op> base; for (auto& b : m.bodies) base.push_back(opB(b)); for (auto& j : m.joints) base.push_back(opJ(j));
            // regenerate twice
            { auto ops = base; for (int r = 0; r < 3; ++r) { ops.push_back(opK('G')); ops.push_back(opK('C')); } ops.push_back(opK('G')); runScenario("regenerate", ops); }
            for (int cyc = 0; cyc < 2; ++cyc) {
                auto pre = base; if (cyc) { pre.push_back(opK('G')); pre.push_back(opK('C')); }
                const std::string sfx = cyc ? "-after-cycle" : "";
                for (auto& j : m.joints) { auto ops = pre; Op o; o.kind = 'j'; o.id = j.id; ops.push_back(o); ops.push_back(opK('G')); runScenario("deleteJoint" + sfx, ops); }
                for (auto& b : m.bodies) { auto ops = pre; Op o; o.kind = 'b'; o.letter = b.letter; ops.push_back(o); ops.push_back(opK('G')); runScenario("deleteBody" + sfx, ops); }
            }
            if (it.k > 0) {   // all but the last joint, cycle, add the last joint
                std::vector<Op> ops; for (auto& b : m.bodies) ops.push_back(opB(b)); for (int j = 0; j + 1 < it.k; ++j) ops.push_back(opJ(m.joints[j]));
                ops.push_back(opK('G')); ops.push_back(opK('C')); ops.push_back(opJ(m.joints[it.k - 1])); ops.push_back(opK('G'));
                runScenario("addJoint-after-cycle", ops);
            }
            for (int a = 0; a < 3; ++a) {   // add a body (and a pin joint to it from the first body) after a cycle
                auto ops = base; ops.push_back(opK('G')); ops.push_back(opK('C'));
                MBody nb{it.n + 1, a == 1 ? 0 : 1, a == 2}; ops.push_back(opB(nb));
                ops.push_back(opK('G')); ops.push_back(opK('C'));
                MJoint nj{it.k, 1, 1, it.n + 1, false}; ops.push_back(opJ(nj)); ops.push_back(opK('G'));
                runScenario("addBody-after-cycle", ops);
            }
        };
        std::function<void(int)> rec = [&](int pos) {
            if (pos >= it.k) { runModel(); return; }
            for (int s = 0; s < K; ++s) { sel[pos] = s; rec(pos + 1); }
        };
        rec(it.k > 0 ? 1 : 0);
        L.flush(run);
    }); });

    // ================================================================ section 3: all operation histories up to depth d (E2, unmerged view)
    // Universe: bodies a,b (second thorough pass: a,b,c); a new body takes the smallest unused letter, a new joint the smallest
    // unused id (so names are reused after deletion).  Items = the first three operations; the rest is a DFS.
    // Pass: quick depth 5 over a universe of 2 bodies; thorough depth 5 over 3 bodies (a superset).
    run.extraCoverage["wall_edits_s"] = verif::jsonNum(run.elapsed() - tSec); tSec = run.elapsed();
    struct HPass { int depth, bodies; bool onlyWithThird; };
    std::vector<HPass> passes;
    if (thorough) passes.push_back({5, 3, false}); else passes.push_back({5, 2, false});
    auto expand = [](const std::vector<Op>& h) { std::vector<Op> e; for (auto& o : h) { if (o.kind == 'X') { Op g; g.kind = 'G'; e.push_back(g); Op c; c.kind = 'C'; e.push_back(c); } else e.push_back(o); } return e; };
    for (size_t pn = 0; pn < passes.size(); ++pn) {
        const HPass P = passes[pn];
        const std::string sect = "histories" + std::string(pn ? "B" : "");
        auto menuOf = [&](const Model& m, bool lastWasCycle) {
            std::vector<Op> v;
            if ((int)m.bodies.size() < P.bodies) {
                int letter = 1; while (m.pos(letter) >= 0) ++letter;
                for (int a = 0; a < 3; ++a) { Op o; o.kind = 'B'; o.body = {letter, a == 1 ? 0 : 1, a == 2}; v.push_back(o); }
            }
            int id = 0; { bool used = true; while (used) { used = false; for (auto& j : m.joints) if (j.id == id) { used = true; ++id; break; } } }
            for (int pi = 0; pi <= (int)m.bodies.size(); ++pi) for (int ci = 0; ci <= (int)m.bodies.size(); ++ci) if (pi != ci)
                for (int t = 0; t < NTYPES; ++t) for (int l = 0; l < 2; ++l) {
                    Op o; o.kind = 'J'; o.joint = {id, t, pi == 0 ? 0 : m.bodies[pi - 1].letter, ci == 0 ? 0 : m.bodies[ci - 1].letter, l != 0}; v.push_back(o); }
            for (auto& b : m.bodies) { Op o; o.kind = 'b'; o.letter = b.letter; v.push_back(o); }
            for (auto& j : m.joints) { Op o; o.kind = 'j'; o.id = j.id; v.push_back(o); }
            if (!lastWasCycle) { Op o; o.kind = 'X'; v.push_back(o); }   // X = generate + clear
            return v;
        };
        auto evaluate = [&](const std::vector<Op>& h, Local& L, const std::string& header) {
            std::vector<Op> ops = expand(h); { Op g; g.kind = 'G'; ops.push_back(g); }
            std::vector<std::pair<std::string, std::string>> fails; HistStats st;
            runHistory(ops, fails, st, run.verbose, "ops", /*structural*/true);
            L.transitions += st.checks; L.cnt[sect + ":depth" + N2S((int)h.size())]++;
            L.cnt[sect + ":generates"] += st.gens; L.cnt[sect + ":generates-that-threw"] += st.gensThrew;
            run.evaluationDistinct(true);
            run.outcome(st.lastOutcome);
            for (auto& f : fails) {
                L.cnt["oracle:" + f.first + ":FAIL"]++;
                int64_t& seen = run.acc.violCountByKey[f.first];
                if (seen >= (int64_t)run.maxViolsPerKey) { seen++; continue; }
                std::string t = opsText(ops);
                run.violation(f.first, f.second + " | history: " + t, header + "scenario=ops\nops=" + t + "\n");
            }
        };
        auto hadThird = [&](const std::vector<Op>& h) { int nb = 0, mx = 0; for (auto& o : h) { if (o.kind == 'B') nb++; else if (o.kind == 'b') nb--; if (nb > mx) mx = nb; } return mx >= 3; };
        // prefixes of length 3 become items; shorter histories are evaluated here in the parent
        std::vector<std::vector<Op>> prefixes;
        {
            Local L;
            std::function<void(std::vector<Op>&, Model&)> gen = [&](std::vector<Op>& h, Model& m) {
                if (h.size() == 3) { prefixes.push_back(h); return; }
                if ((only.empty() || only == "histories") && !run.replaying() && (!P.onlyWithThird || hadThird(h))) guarded(run, sect, 20, [&] { evaluate(h, L, "section=" + sect + "\nitem=0\n"); });
                auto menu = menuOf(m, !h.empty() && h.back().kind == 'X');
                for (auto& o : menu) { Model m2 = m; if (o.kind != 'X') applyToModel(m2, o); h.push_back(o); gen(h, m2); h.pop_back(); }
            };
            std::vector<Op> h; Model m; gen(h, m);
            L.flush(run);
        }
        if (only.empty() || only == "histories")
        run.parallel(sect, (int64_t)prefixes.size(), [&](int64_t idx) { guarded(run, sect, 30, [&] {
            Local L;
            std::vector<Op> h = prefixes[idx];
            Model m; for (auto& o : h) if (o.kind != 'X') applyToModel(m, o);
            std::function<void(Model&)> dfs = [&](Model& mm) {
                if (!P.onlyWithThird || hadThird(h)) evaluate(h, L, run.replayHeader());   // replay on a fresh object, final generate
                if ((int)h.size() >= P.depth) return;
                auto menu = menuOf(mm, !h.empty() && h.back().kind == 'X');
                for (auto& o : menu) { Model m2 = mm; if (o.kind != 'X') applyToModel(m2, o); h.push_back(o); dfs(m2); h.pop_back(); }
            };
            dfs(m);
            L.flush(run);
        }); });
    }
    run.extraCoverage["wall_histories_s"] = verif::jsonNum(run.elapsed() - tSec);
    return run.finish();
}
