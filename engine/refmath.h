// refmath.h -- plain long-double 3x3 / 6x6 reference arithmetic for the
// numeric harnesses C27, C28, C29.  Nothing here uses simbody code: it is the
// independent "boring" arithmetic the library results are compared with.
#ifndef VERIF_REFMATH_H_
#define VERIF_REFMATH_H_

#include <cmath>
#include <cstdio>
#include <string>

namespace ref {

typedef long double LD;

struct V3 { LD v[3]; LD& operator[](int i) { return v[i]; } const LD& operator[](int i) const { return v[i]; } };
struct M3 { LD a[3][3]; };

inline V3 vec(LD x, LD y, LD z) { V3 r; r[0] = x; r[1] = y; r[2] = z; return r; }
inline V3 add(const V3& a, const V3& b) { return vec(a[0] + b[0], a[1] + b[1], a[2] + b[2]); }
inline V3 sub(const V3& a, const V3& b) { return vec(a[0] - b[0], a[1] - b[1], a[2] - b[2]); }
inline V3 scale(const V3& a, LD s) { return vec(a[0] * s, a[1] * s, a[2] * s); }
inline LD dot(const V3& a, const V3& b) { return a[0] * b[0] + a[1] * b[1] + a[2] * b[2]; }
inline V3 cross(const V3& a, const V3& b) { return vec(a[1] * b[2] - a[2] * b[1], a[2] * b[0] - a[0] * b[2], a[0] * b[1] - a[1] * b[0]); }
inline LD norm(const V3& a) { return sqrtl(dot(a, a)); }
inline V3 unit(const V3& a) { return scale(a, 1 / norm(a)); }
inline LD maxAbs(const V3& a) { return fmaxl(fabsl(a[0]), fmaxl(fabsl(a[1]), fabsl(a[2]))); }
inline LD maxAbsDiff(const V3& a, const V3& b) { return maxAbs(sub(a, b)); }

inline M3 zero3() { M3 m; for (int i = 0; i < 3; ++i) for (int j = 0; j < 3; ++j) m.a[i][j] = 0; return m; }
inline M3 ident3() { M3 m = zero3(); m.a[0][0] = m.a[1][1] = m.a[2][2] = 1; return m; }
inline M3 mul(const M3& x, const M3& y) {
    M3 m = zero3();
    for (int i = 0; i < 3; ++i) for (int j = 0; j < 3; ++j) for (int k = 0; k < 3; ++k) m.a[i][j] += x.a[i][k] * y.a[k][j];
    return m;
}
inline V3 mul(const M3& x, const V3& v) {
    V3 r;
    for (int i = 0; i < 3; ++i) r[i] = x.a[i][0] * v[0] + x.a[i][1] * v[1] + x.a[i][2] * v[2];
    return r;
}
inline M3 transp(const M3& x) { M3 m; for (int i = 0; i < 3; ++i) for (int j = 0; j < 3; ++j) m.a[i][j] = x.a[j][i]; return m; }
inline M3 add(const M3& x, const M3& y) { M3 m; for (int i = 0; i < 3; ++i) for (int j = 0; j < 3; ++j) m.a[i][j] = x.a[i][j] + y.a[i][j]; return m; }
inline M3 sub(const M3& x, const M3& y) { M3 m; for (int i = 0; i < 3; ++i) for (int j = 0; j < 3; ++j) m.a[i][j] = x.a[i][j] - y.a[i][j]; return m; }
inline M3 scale(const M3& x, LD s) { M3 m; for (int i = 0; i < 3; ++i) for (int j = 0; j < 3; ++j) m.a[i][j] = x.a[i][j] * s; return m; }
inline LD det(const M3& m) {
    return m.a[0][0] * (m.a[1][1] * m.a[2][2] - m.a[1][2] * m.a[2][1])
         - m.a[0][1] * (m.a[1][0] * m.a[2][2] - m.a[1][2] * m.a[2][0])
         + m.a[0][2] * (m.a[1][0] * m.a[2][1] - m.a[1][1] * m.a[2][0]);
}
inline LD maxAbs(const M3& x) { LD r = 0; for (int i = 0; i < 3; ++i) for (int j = 0; j < 3; ++j) { LD d = fabsl(x.a[i][j]); if (!(d <= r)) r = d; } return r; }
inline LD maxAbsDiff(const M3& x, const M3& y) { return maxAbs(sub(x, y)); }
// cross-product matrix  [v]x
inline M3 crossMat(const V3& v) {
    M3 m = zero3();
    m.a[0][1] = -v[2]; m.a[0][2] = v[1];
    m.a[1][0] = v[2];  m.a[1][2] = -v[0];
    m.a[2][0] = -v[1]; m.a[2][1] = v[0];
    return m;
}
inline M3 outer(const V3& a, const V3& b) { M3 m; for (int i = 0; i < 3; ++i) for (int j = 0; j < 3; ++j) m.a[i][j] = a[i] * b[j]; return m; }
// how far from a proper rotation:  max(|R^T R - I|, |det R - 1|)
inline LD properErr(const M3& R) {
    LD e = maxAbsDiff(mul(transp(R), R), ident3());
    LD d = fabsl(det(R) - 1);
    return (e > d || std::isnan((double)e)) ? e : d;
}
// elementary right-handed rotation about coordinate axis 0/1/2 (textbook form)
inline M3 elem(int axis, LD ang) {
    LD c = cosl(ang), s = sinl(ang);
    M3 m = ident3();
    int j = (axis + 1) % 3, k = (axis + 2) % 3;
    m.a[j][j] = c; m.a[k][k] = c; m.a[k][j] = s; m.a[j][k] = -s;
    return m;
}
// Rodrigues formula; the axis is normalised here
inline M3 rodrigues(LD ang, const V3& axis) {
    V3 u = unit(axis);
    LD c = cosl(ang), s = sinl(ang);
    return add(add(scale(ident3(), c), scale(outer(u, u), 1 - c)), scale(crossMat(u), s));
}
// rotation of a (normalised here) quaternion, scalar first
inline M3 fromQuat(LD w, LD x, LD y, LD z) {
    LD n = sqrtl(w * w + x * x + y * y + z * z); w /= n; x /= n; y /= n; z /= n;
    M3 m;
    m.a[0][0] = 1 - 2 * (y * y + z * z); m.a[0][1] = 2 * (x * y - w * z);     m.a[0][2] = 2 * (x * z + w * y);
    m.a[1][0] = 2 * (x * y + w * z);     m.a[1][1] = 1 - 2 * (x * x + z * z); m.a[1][2] = 2 * (y * z - w * x);
    m.a[2][0] = 2 * (x * z - w * y);     m.a[2][1] = 2 * (y * z + w * x);     m.a[2][2] = 1 - 2 * (x * x + y * y);
    return m;
}
template <class M> inline M3 toM3(const M& m) { M3 r; for (int i = 0; i < 3; ++i) for (int j = 0; j < 3; ++j) r.a[i][j] = (LD)m[i][j]; return r; }
template <class V> inline V3 toV3(const V& v) { return vec((LD)v[0], (LD)v[1], (LD)v[2]); }

inline std::string str(const M3& m) {
    char b[400];
    snprintf(b, sizeof b, "[%.17Lg %.17Lg %.17Lg; %.17Lg %.17Lg %.17Lg; %.17Lg %.17Lg %.17Lg]", m.a[0][0], m.a[0][1], m.a[0][2], m.a[1][0], m.a[1][1], m.a[1][2], m.a[2][0], m.a[2][1], m.a[2][2]);
    return b;
}
inline std::string str(const V3& v) { char b[160]; snprintf(b, sizeof b, "(%.17Lg, %.17Lg, %.17Lg)", v[0], v[1], v[2]); return b; }

// ---------------------------------------------------------------- 6x6 (spatial) arithmetic
struct M6 { LD a[6][6]; };
struct V6 { LD v[6]; LD& operator[](int i) { return v[i]; } const LD& operator[](int i) const { return v[i]; } };
inline M6 zero6() { M6 m; for (int i = 0; i < 6; ++i) for (int j = 0; j < 6; ++j) m.a[i][j] = 0; return m; }
inline M6 mul(const M6& x, const M6& y) {
    M6 m = zero6();
    for (int i = 0; i < 6; ++i) for (int j = 0; j < 6; ++j) for (int k = 0; k < 6; ++k) m.a[i][j] += x.a[i][k] * y.a[k][j];
    return m;
}
inline V6 mul(const M6& x, const V6& v) { V6 r; for (int i = 0; i < 6; ++i) { r[i] = 0; for (int k = 0; k < 6; ++k) r[i] += x.a[i][k] * v[k]; } return r; }
inline M6 transp(const M6& x) { M6 m; for (int i = 0; i < 6; ++i) for (int j = 0; j < 6; ++j) m.a[i][j] = x.a[j][i]; return m; }
inline LD maxAbs(const M6& x) { LD r = 0; for (int i = 0; i < 6; ++i) for (int j = 0; j < 6; ++j) { LD d = fabsl(x.a[i][j]); if (!(d <= r)) r = d; } return r; }
inline LD maxAbsDiff(const M6& x, const M6& y) { LD r = 0; for (int i = 0; i < 6; ++i) for (int j = 0; j < 6; ++j) { LD d = fabsl(x.a[i][j] - y.a[i][j]); if (!(d <= r)) r = d; } return r; }
inline LD dot(const V6& a, const V6& b) { LD r = 0; for (int i = 0; i < 6; ++i) r += a[i] * b[i]; return r; }
inline void setBlock(M6& m, int bi, int bj, const M3& b) { for (int i = 0; i < 3; ++i) for (int j = 0; j < 3; ++j) m.a[3 * bi + i][3 * bj + j] = b.a[i][j]; }
inline M3 getBlock(const M6& m, int bi, int bj) { M3 b; for (int i = 0; i < 3; ++i) for (int j = 0; j < 3; ++j) b.a[i][j] = m.a[3 * bi + i][3 * bj + j]; return b; }
inline V6 vec6(const V3& a, const V3& b) { V6 r; for (int i = 0; i < 3; ++i) { r[i] = a[i]; r[3 + i] = b[i]; } return r; }

// symmetric 3x3 eigenvalues (ascending) by cyclic Jacobi in long double
inline void symEig3(const M3& S, LD ev[3]) {
    M3 A = S;
    for (int sweep = 0; sweep < 60; ++sweep) {
        LD off = fabsl(A.a[0][1]) + fabsl(A.a[0][2]) + fabsl(A.a[1][2]);
        if (off == 0) break;
        for (int p = 0; p < 2; ++p) for (int q = p + 1; q < 3; ++q) {
            if (A.a[p][q] == 0) continue;
            LD th = (A.a[q][q] - A.a[p][p]) / (2 * A.a[p][q]);
            LD t = (th >= 0 ? 1 : -1) / (fabsl(th) + sqrtl(th * th + 1));
            LD c = 1 / sqrtl(t * t + 1), s = t * c;
            M3 J = ident3(); J.a[p][p] = c; J.a[q][q] = c; J.a[p][q] = s; J.a[q][p] = -s;
            A = mul(mul(transp(J), A), J);
        }
    }
    ev[0] = A.a[0][0]; ev[1] = A.a[1][1]; ev[2] = A.a[2][2];
    for (int i = 0; i < 3; ++i) for (int j = i + 1; j < 3; ++j) if (ev[j] < ev[i]) { LD t = ev[i]; ev[i] = ev[j]; ev[j] = t; }
}

}  // namespace ref
#endif
