// forcemodels.h -- shared, table-driven force-element alphabet (DESIGN.md §2.3) for C12, C13, C38
// (and usable by C11 / C16 / C37 style checks).
//
// Everything here is a finite TABLE; nothing is random.  Dimensions:
//   HOST     small host trees of 3 bodies built with mb::build (models.h):
//              0  Free -> Ball -> Pin chain, quaternion coordinates
//              1  the same tree with Euler-angle coordinates
//              2  Cylinder -> {Gimbal, Slider} fork (every coordinate has qdot == u)
//            thorough tier only (NHOST_ALL):
//              3  Ball -> Free(reversed) and Pin(reversed) on Ground, quaternions
//              4  Slider -> Universal -> Bushing-mobilizer chain (qdot == u, 6-dof tip)
//   ELEM     every built-in non-contact force element of Simbody/include/simbody/internal/Force*.h
//            plus three Force::Custom mirrors written from the Custom documentation
//   PSET     2-4 parameter sets per element (incl. zero-damping / zero-stiffness / zero-magnitude sets)
//   ATTACH   where the element is attached:
//              two-body elements  : all 16 ordered pairs over {Ground, b0, b1, b2} (incl. same body
//                                   and Ground-Ground) x 2 station (frame) sets
//              one-body elements  : {Ground, b0, b1, b2} x 2 stations
//              q-indexed mobility : every (body, q) whose documentation-required condition
//                                   "qdot_i == u_i with the same index" holds on that host
//              u-indexed mobility : every (body, u)
//              global elements    : one attachment
//   STATE    mb::makeState(stateKind 0..3, valueSet 0..2) of models.h
//
// The header only CONSTRUCTS elements and records the parameter values that were passed to the
// constructors / setters (struct Params).  It contains no force law: the laws are transcribed from the
// documentation inside the harnesses that need them (C38), so that a wrong law here cannot hide a bug.
#ifndef VERIF_FORCEMODELS_H_
#define VERIF_FORCEMODELS_H_

#include "models.h"
#include <functional>
#include <memory>
#include <string>
#include <vector>

namespace fm {
using namespace SimTK;

// ---------------------------------------------------------------- hosts
enum { HostFBPq = 0, HostFBPe = 1, HostCGS = 2, NHOST = 3,          // the quick alphabet
       HostBFPrev = 3, HostSUB = 4, NHOST_ALL = 5 };                  // two more trees for the thorough tier
inline const char* hostName(int h) { static const char* n[] = {"Free>Ball>Pin/quat", "Free>Ball>Pin/euler", "Cylinder>{Gimbal,Slider}", "Ball>Free(rev),Pin(rev)/quat", "Slider>Universal>Bushing"}; return (h >= 0 && h < NHOST_ALL) ? n[h] : "?"; }
inline bool hostEuler(int h) { return h == HostFBPe; }
inline std::vector<mb::BodySpec> hostSpecs(int h) {
    mb::BodySpec a, b, c;
    if (h == HostCGS) {
        a.kind = mb::KCylinder; a.frames = 3; a.mass = 0; a.parent = -1;
        b.kind = mb::KGimbal;   b.frames = 1; b.mass = 1; b.parent = 0;
        c.kind = mb::KSlider;   c.frames = 3; c.mass = 2; c.parent = 0;
    } else if (h == HostBFPrev) {     // fork; reversed mobilizers
        a.kind = mb::KBall; a.frames = 1; a.mass = 2; a.parent = -1;
        b.kind = mb::KFree; b.frames = 3; b.mass = 0; b.parent = 0; b.dir = 1;
        c.kind = mb::KPin;  c.frames = 3; c.mass = 1; c.parent = -1; c.dir = 1;
    } else if (h == HostSUB) {        // chain; every coordinate has qdot == u; a 6-dof tip
        a.kind = mb::KSlider;    a.frames = 2; a.mass = 1; a.parent = -1;
        b.kind = mb::KUniversal; b.frames = 3; b.mass = 2; b.parent = 0;
        c.kind = mb::KBushing;   c.frames = 1; c.mass = 0; c.parent = 1;
    } else {
        a.kind = mb::KFree; a.frames = 3; a.mass = 0; a.parent = -1;
        b.kind = mb::KBall; b.frames = 3; b.mass = 1; b.parent = 0;
        c.kind = mb::KPin;  c.frames = 2; c.mass = 2; c.parent = 1;
    }
    return {a, b, c};
}
inline std::unique_ptr<mb::Model> buildHost(int h) { return mb::build(hostSpecs(h), hostEuler(h)); }
// b = -1 is Ground
inline const MobilizedBody& bodyOf(const mb::Model& M, int b) { return b < 0 ? (const MobilizedBody&)M.matter.getGround() : M.bodies[b]; }
inline std::string bodyStr(int b) { return b < 0 ? std::string("G") : "b" + std::to_string(b); }

// number of q's / u's of host body b (from the mobilizer definitions; checked against the State by checkHostTables)
inline int hostNQ(int h, int b) {
    static const int cgs[] = {2, 3, 1}, fq[] = {7, 4, 1}, fe[] = {6, 3, 1}, bfp[] = {4, 7, 1}, sub[] = {1, 2, 6};
    return h == HostCGS ? cgs[b] : h == HostBFPrev ? bfp[b] : h == HostSUB ? sub[b] : hostEuler(h) ? fe[b] : fq[b];
}
inline int hostNU(int h, int b) {
    static const int cgs[] = {2, 3, 1}, f[] = {6, 3, 1}, bfp[] = {3, 6, 1}, sub[] = {1, 2, 6};
    return h == HostCGS ? cgs[b] : h == HostBFPrev ? bfp[b] : h == HostSUB ? sub[b] : f[b];
}
// (body, q) pairs for which qdot_i == u_i with the SAME mobilizer-local index: the documented precondition of
// MobilityLinearSpring / MobilityLinearStop ("works only for coordinates q whose time derivatives are just the
// corresponding generalized speed u").
inline std::vector<std::pair<int, int> > coordsQdotIsU(int h) {
    if (h == HostCGS) return {{0, 0}, {0, 1}, {1, 0}, {1, 1}, {1, 2}, {2, 0}};
    if (h == HostSUB) return {{0, 0}, {1, 0}, {1, 1}, {2, 0}, {2, 1}, {2, 2}, {2, 3}, {2, 4}, {2, 5}};
    if (h == HostFBPe) return {{0, 3}, {0, 4}, {0, 5}, {2, 0}};     // Free/Euler: translations q3..5 <-> u3..5 ; Pin
    return {{2, 0}};                                                 // quaternion Free has q4..6 <-> u3..5 (index shift): illegal; Pin only
}
inline std::vector<std::pair<int, int> > coordsU(int h) { std::vector<std::pair<int, int> > v; for (int b = 0; b < 3; ++b) for (int i = 0; i < hostNU(h, b); ++i) v.push_back({b, i}); return v; }

// ---------------------------------------------------------------- elements
enum Elem {
    // two-body ("interaction") elements
    ETwoPointLinearSpring, ETwoPointLinearDamper, ETwoPointConstantForce, ELinearBushing, ECustomTwoPointSpring, ECustomTorquePair,
    // one-body elements
    EConstantForce, EConstantTorque, ECustomOriginSpring,
    // mobility elements addressed by a generalized coordinate
    EMobilityLinearSpring, EMobilityLinearStop,
    // mobility elements addressed by a generalized speed
    EMobilityLinearDamper, EMobilityConstantForce, EMobilityDiscreteForce,
    // elements acting on the whole matter subsystem
    EGlobalDamper, EUniformGravity, EGravity, EDiscreteForces, EThermostat,
    NELEM
};
enum ElemClass { CTwoBody, COneBody, CMobilityQ, CMobilityU, CGlobal };
inline const char* elemName(int e) {
    static const char* n[] = {"TwoPointLinearSpring", "TwoPointLinearDamper", "TwoPointConstantForce", "LinearBushing", "CustomTwoPointSpring", "CustomTorquePair",
        "ConstantForce", "ConstantTorque", "CustomOriginSpring", "MobilityLinearSpring", "MobilityLinearStop",
        "MobilityLinearDamper", "MobilityConstantForce", "MobilityDiscreteForce", "GlobalDamper", "UniformGravity", "Gravity", "DiscreteForces", "Thermostat"};
    return (e >= 0 && e < NELEM) ? n[e] : "?";
}
inline int elemClass(int e) {
    if (e <= ECustomTorquePair) return CTwoBody;
    if (e <= ECustomOriginSpring) return COneBody;
    if (e <= EMobilityLinearStop) return CMobilityQ;
    if (e <= EMobilityDiscreteForce) return CMobilityU;
    return CGlobal;
}
inline bool elemIsCustom(int e) { return e == ECustomTwoPointSpring || e == ECustomTorquePair || e == ECustomOriginSpring; }
inline int numParamSets(int e) {
    switch (e) {
        case ETwoPointLinearDamper: case ELinearBushing: case EMobilityLinearDamper: case EGlobalDamper: return 3;
        case EGravity: case EMobilityLinearStop: return 4;
        default: return 2;
    }
}

// ---------------------------------------------------------------- value tables
// two different generic stations per body (row 0 = Ground), in the body frame
inline Vec3 stationTable(int b, int which) {
    static const Real t[4][2][3] = {
        {{0.5, 1.0, -0.3}, {-0.7, 0.4, 0.9}},
        {{0.2, -0.1, 0.3}, {-0.15, 0.25, 0.1}},
        {{-0.3, 0.2, 0.1}, {0.1, 0.35, -0.2}},
        {{0.25, 0.15, -0.2}, {-0.1, -0.3, 0.2}}};
    const Real* p = t[b + 1][which & 1];
    return Vec3(p[0], p[1], p[2]);
}
// bushing frames: modest rotations so that the inferred Euler angles of a same-body bushing are far from the
// documented singularity (middle angle near 90 degrees)
inline Transform bushingFrame(int b, int which) {
    static const Real a[4][3] = {{0.2, -0.3, 0.25}, {-0.25, 0.15, 0.3}, {0.3, 0.2, -0.15}, {-0.1, -0.35, 0.2}};
    const Real* r = a[(b + 1 + 2 * which) & 3];
    return Transform(Rotation(BodyRotationSequence, r[0], XAxis, r[1], YAxis, r[2], ZAxis), stationTable(b, which));
}

// ---------------------------------------------------------------- the record of what was constructed
struct Attach {
    int b1 = -2, b2 = -2;            // body indices in the host (-1 Ground, -2 unused)
    Vec3 s1 = Vec3(0), s2 = Vec3(0); // stations (two-point / one-body elements)
    Transform X_B1F, X_B2M;          // bushing frames
    int coord = -1;                  // mobilizer-local q (CMobilityQ) or u (CMobilityU) index on body b1
    int variant = 0;                 // station / frame set
    std::string str;
};
struct Params {
    Real k = 0, x0 = 0;              // springs: stiffness, rest length / q0
    Real c = 0;                      // dampers
    Real f = 0;                      // constant / discrete scalar force, custom torque magnitude
    Real qLow = 0, qHigh = 0, d = 0; // stop bounds, dissipation
    Vec6 K6 = Vec6(0), C6 = Vec6(0); // bushing
    Vec3 vec = Vec3(0);              // constant force / torque vector, UniformGravity vector
    UnitVec3 down = UnitVec3(0, -1, 0); Real g = 0, zeroHeight = 0; bool excluded[3] = {false, false, false};   // Gravity
    int gravityCtor = 0;             // 0: (down,g,zeroHeight)  1: (gravity vector)  2: (magnitude only; down = -system up = -Y)
    Vector_<SpatialVec> bodyF; Vector mobF;   // DiscreteForces: what the state was told (incl. Ground entry), filled by init
    Real kB = 0, Tb = 0, tRelax = 0; int nExcludedDofs = 0; Vector chain;    // Thermostat (chain = [c0..cm-1, s0..sm-1])
};
struct Instance {
    int host = 0, elem = 0, pset = 0, attachIndex = 0;
    Attach at; Params p; Force force;
    std::string str() const { return std::string(elemName(elem)) + "/p" + std::to_string(pset) + "/" + at.str; }
};

// ---------------------------------------------------------------- Force::Custom mirrors (written from Force_Custom.h)
// 1. the documented example "MySpring": origin of a body tied to the Ground origin, force -k*pos, pe = k x^2/2
class CustomOriginSpringImpl : public Force::Custom::Implementation {
public:
    CustomOriginSpringImpl(MobilizedBody mobod, Real k) : m_mobod(mobod), m_k(k) {}
    void calcForce(const State& state, Vector_<SpatialVec>& bodyForcesInG, Vector_<Vec3>&, Vector&) const override {
        Vec3 bodyPointInB(0, 0, 0);
        Vec3 pos = m_mobod.getBodyOriginLocation(state);
        m_mobod.applyForceToBodyPoint(state, bodyPointInB, -m_k * pos, bodyForcesInG);
    }
    Real calcPotentialEnergy(const State& state) const override { Vec3 pos = m_mobod.getBodyOriginLocation(state); Real x = pos.norm(); return m_k * x * x / 2; }
private:
    MobilizedBody m_mobod; Real m_k;
};
// 2. a two-point spring written only with the documented helper applyForceToBodyPoint; position-only (exercises
//    the subsystem's cache for dependsOnlyOnPositions() elements through the Custom forwarding)
class CustomTwoPointSpringImpl : public Force::Custom::Implementation {
public:
    CustomTwoPointSpringImpl(MobilizedBody b1, Vec3 s1, MobilizedBody b2, Vec3 s2, Real k, Real x0) : m_b1(b1), m_b2(b2), m_s1(s1), m_s2(s2), m_k(k), m_x0(x0) {}
    void calcForce(const State& state, Vector_<SpatialVec>& bodyForcesInG, Vector_<Vec3>&, Vector&) const override {
        const Vec3 p1 = m_b1.findStationLocationInGround(state, m_s1), p2 = m_b2.findStationLocationInGround(state, m_s2);
        const Vec3 r = p2 - p1; const Real x = r.norm();
        const Vec3 f1 = (m_k * (x - m_x0) / x) * r;                 // pulls station 1 towards station 2 when stretched
        m_b1.applyForceToBodyPoint(state, m_s1, f1, bodyForcesInG);
        m_b2.applyForceToBodyPoint(state, m_s2, -f1, bodyForcesInG);
    }
    Real calcPotentialEnergy(const State& state) const override {
        const Real x = (m_b2.findStationLocationInGround(state, m_s2) - m_b1.findStationLocationInGround(state, m_s1)).norm();
        return m_k * (x - m_x0) * (x - m_x0) / 2;
    }
    bool dependsOnlyOnPositions() const override { return true; }
private:
    MobilizedBody m_b1, m_b2; Vec3 m_s1, m_s2; Real m_k, m_x0;
};
// 3. an equal and opposite pure torque pair (applyBodyTorque), magnitude tau about the axis fixed in body 1
class CustomTorquePairImpl : public Force::Custom::Implementation {
public:
    CustomTorquePairImpl(MobilizedBody b1, MobilizedBody b2, Vec3 axisInB1, Real tau) : m_b1(b1), m_b2(b2), m_axis(axisInB1), m_tau(tau) {}
    void calcForce(const State& state, Vector_<SpatialVec>& bodyForcesInG, Vector_<Vec3>&, Vector&) const override {
        const Vec3 t = m_tau * (m_b1.getBodyRotation(state) * m_axis);
        m_b1.applyBodyTorque(state, t, bodyForcesInG);
        m_b2.applyBodyTorque(state, -t, bodyForcesInG);
    }
    Real calcPotentialEnergy(const State&) const override { return 0; }
private:
    MobilizedBody m_b1, m_b2; Vec3 m_axis; Real m_tau;
};

// ---------------------------------------------------------------- attachments
inline std::vector<Attach> attachments(int host, int elem) {
    std::vector<Attach> v;
    switch (elemClass(elem)) {
        case CTwoBody:
            for (int b1 = -1; b1 < 3; ++b1) for (int b2 = -1; b2 < 3; ++b2) for (int var = 0; var < 2; ++var) {
                Attach a; a.b1 = b1; a.b2 = b2; a.variant = var;
                a.s1 = var == 0 ? Vec3(0) : stationTable(b1, 0);          // variant 0: station 1 is the body origin
                a.s2 = stationTable(b2, 1);
                a.X_B1F = var == 0 ? Transform() : bushingFrame(b1, 0);   // variant 0: F is the body frame of body 1
                a.X_B2M = bushingFrame(b2, 1);
                a.str = bodyStr(b1) + "-" + bodyStr(b2) + "/s" + std::to_string(var);
                v.push_back(a);
            }
            break;
        case COneBody:
            for (int b = (elem == ECustomOriginSpring ? 0 : -1); b < 3; ++b) for (int var = 0; var < (elem == EConstantForce ? 2 : 1); ++var) {
                Attach a; a.b1 = b; a.variant = var; a.s1 = var == 0 ? stationTable(b, 0) : Vec3(0);
                a.str = bodyStr(b) + "/s" + std::to_string(var);
                v.push_back(a);
            }
            break;
        case CMobilityQ:
            for (auto& bc : coordsQdotIsU(host)) { Attach a; a.b1 = bc.first; a.coord = bc.second; a.str = bodyStr(bc.first) + ".q" + std::to_string(bc.second); v.push_back(a); }
            break;
        case CMobilityU:
            for (auto& bc : coordsU(host)) { Attach a; a.b1 = bc.first; a.coord = bc.second; a.str = bodyStr(bc.first) + ".u" + std::to_string(bc.second); v.push_back(a); }
            break;
        default: { Attach a; a.str = "system"; v.push_back(a); }
    }
    return v;
}
inline int numAttachments(int host, int elem) { return (int)attachments(host, elem).size(); }

// ---------------------------------------------------------------- construction
// Adds element (elem, pset) with attachment `attachIndex` to the model (before realizeTopology).
inline Instance add(mb::Model& M, int host, int elem, int pset, int attachIndex) {
    Instance I; I.host = host; I.elem = elem; I.pset = pset; I.attachIndex = attachIndex;
    I.at = attachments(host, elem).at(attachIndex);
    const Attach& a = I.at; Params& p = I.p;
    GeneralForceSubsystem& F = M.forces;
    const MobilizedBody& B1 = bodyOf(M, a.b1 == -2 ? -1 : a.b1);
    const MobilizedBody& B2 = bodyOf(M, a.b2 == -2 ? -1 : a.b2);
    switch (elem) {
        case ETwoPointLinearSpring: case ECustomTwoPointSpring:
            p.k = pset == 0 ? 30.0 : 7.5; p.x0 = pset == 0 ? 0.8 : 0.0;         // pset 1: zero rest length
            if (elem == ETwoPointLinearSpring) I.force = Force::TwoPointLinearSpring(F, B1, a.s1, B2, a.s2, p.k, p.x0);
            else I.force = Force::Custom(F, new CustomTwoPointSpringImpl(B1, a.s1, B2, a.s2, p.k, p.x0));
            break;
        case ETwoPointLinearDamper:
            p.c = pset == 0 ? 2.5 : pset == 1 ? 0.4 : 0.0;                      // pset 2: no damping
            I.force = Force::TwoPointLinearDamper(F, B1, a.s1, B2, a.s2, p.c);
            break;
        case ETwoPointConstantForce:
            p.f = pset == 0 ? 1.5 : -3.0;                                        // positive separates, negative attracts
            I.force = Force::TwoPointConstantForce(F, B1, a.s1, B2, a.s2, p.f);
            break;
        case ELinearBushing:
            p.K6 = pset == 2 ? Vec6(0) : pset == 0 ? Vec6(5, 6, 7, 50, 60, 70) : Vec6(1.5, 0, 2.5, 12, 0, 9);
            p.C6 = pset == 1 ? Vec6(0) : pset == 0 ? Vec6(0.5, 0.6, 0.7, 1, 2, 3) : Vec6(0.3, 0.2, 0, 1.5, 0, 2.5);   // pset 1: no damping, pset 2: no stiffness
            I.force = Force::LinearBushing(F, B1, a.X_B1F, B2, a.X_B2M, p.K6, p.C6);
            break;
        case ECustomTorquePair:
            p.f = pset == 0 ? 1.7 : -0.6; p.vec = pset == 0 ? Vec3(0, 0, 1) : Vec3(0.6, -0.8, 0);
            I.force = Force::Custom(F, new CustomTorquePairImpl(B1, B2, p.vec, p.f));
            break;
        case EConstantForce:
            p.vec = pset == 0 ? Vec3(1.5, -2.0, 0.5) : Vec3(0, 0, -4.0);
            I.force = Force::ConstantForce(F, B1, a.s1, p.vec);
            break;
        case EConstantTorque:
            p.vec = pset == 0 ? Vec3(0.3, 0.9, -1.1) : Vec3(-2.0, 0, 0);
            I.force = Force::ConstantTorque(F, B1, p.vec);
            break;
        case ECustomOriginSpring:
            p.k = pset == 0 ? 100.0 : 3.5;
            I.force = Force::Custom(F, new CustomOriginSpringImpl(B1, p.k));
            break;
        case EMobilityLinearSpring:
            p.k = pset == 0 ? 10.0 : 250.0; p.x0 = pset == 0 ? 0.1 : -0.45;
            I.force = Force::MobilityLinearSpring(F, B1, MobilizerQIndex(a.coord), p.k, p.x0);
            break;
        case EMobilityLinearStop:
            // the q tables of models.h contain values inside, above and below these bounds; d = 1.2 makes the
            // documented "no sticking" clamp (1 + d*qdot < 0) reachable with the u table
            // (pset 3: d = 3 so that both clamps are reached: needs |qdot| > 1/3 with the right sign while out of bounds)
            p.k = pset == 2 ? 0.0 : pset == 0 ? 100.0 : pset == 1 ? 40.0 : 60.0; p.d = pset == 1 ? 0.0 : pset == 3 ? 3.0 : 1.2;
            p.qLow = pset == 0 ? -0.25 : pset == 3 ? -0.22 : -0.4; p.qHigh = pset == 0 ? 0.22 : pset == 3 ? 0.2 : 0.28;
            I.force = Force::MobilityLinearStop(F, B1, MobilizerQIndex(a.coord), p.k, p.d, p.qLow, p.qHigh);
            break;
        case EMobilityLinearDamper:
            p.c = pset == 0 ? 2.0 : pset == 1 ? 0.35 : 0.0;
            I.force = Force::MobilityLinearDamper(F, B1, MobilizerUIndex(a.coord), p.c);
            break;
        case EMobilityConstantForce:
            p.f = pset == 0 ? 1.5 : -4.0;
            I.force = Force::MobilityConstantForce(F, B1, MobilizerUIndex(a.coord), p.f);
            break;
        case EMobilityDiscreteForce:
            p.f = pset == 0 ? 0.25 : -2.0;
            I.force = Force::MobilityDiscreteForce(F, B1, MobilizerUIndex(a.coord), p.f);
            break;
        case EGlobalDamper:
            p.c = pset == 0 ? 1.3 : pset == 1 ? 0.2 : 0.0;
            I.force = Force::GlobalDamper(F, M.matter, p.c);
            break;
        case EUniformGravity:
            p.vec = pset == 0 ? Vec3(0, -9.80665, 0) : Vec3(1.2, -9.1, 2.3); p.zeroHeight = pset == 0 ? 0.0 : 0.75;
            I.force = Force::UniformGravity(F, M.matter, p.vec, p.zeroHeight);
            break;
        case EGravity:
            if (pset == 0) { p.down = UnitVec3(0, -1, 0); p.g = 9.80665; p.zeroHeight = 0; p.gravityCtor = 0; I.force = Force::Gravity(F, M.matter, p.down, p.g); }
            else if (pset == 1) {
                p.down = UnitVec3(0.36, -0.48, 0.8); p.g = 3.7; p.zeroHeight = 1.3; p.gravityCtor = 0; p.excluded[1] = true;
                Force::Gravity G(F, M.matter, p.down, p.g, p.zeroHeight); G.setDefaultBodyIsExcluded(M.bodies[1].getMobilizedBodyIndex(), true); I.force = G;
            } else if (pset == 2) {
                const Vec3 gv(1.2, -9.1, 2.3); p.g = gv.norm(); p.down = UnitVec3(gv); p.zeroHeight = 0; p.gravityCtor = 1;
                I.force = Force::Gravity(F, M.matter, gv);
            } else { p.down = UnitVec3(0, -1, 0); p.g = 0; p.zeroHeight = 0.5; p.gravityCtor = 0; I.force = Force::Gravity(F, M.matter, p.down, p.g, p.zeroHeight); }   // zero magnitude
            break;
        case EDiscreteForces:
            I.force = Force::DiscreteForces(F, M.matter);     // all parameters are state-resident: see initStateParams()
            break;
        case EThermostat:
            p.kB = 0.0083; p.Tb = pset == 0 ? 300.0 : 40.0; p.tRelax = pset == 0 ? 0.5 : 2.0; p.nExcludedDofs = pset == 0 ? 0 : 3;
            I.force = Force::Thermostat(F, M.matter, p.kB, p.Tb, p.tRelax, p.nExcludedDofs);
            break;
    }
    return I;
}

// State-resident parameters that have no constructor default.  Call after the State has its q,u
// (DiscreteForces::addForceToBodyPoint needs Stage::Position, which is realized here).  Records what was
// told to the state in I.p (bodyF incl. the Ground entry, mobF; Thermostat chain state).
inline void initStateParams(const mb::Model& M, Instance& I, State& s) {
    if (I.elem == EDiscreteForces) {
        Force::DiscreteForces D = Force::DiscreteForces::downcast(I.force);
        const int nb = M.matter.getNumBodies(), nu = s.getNU();
        I.p.bodyF.resize(nb); I.p.bodyF.setToZero(); I.p.mobF.resize(nu); I.p.mobF.setToZero();
        if (I.pset == 0) {
            const SpatialVec F1(Vec3(1, 2, 3), Vec3(-1, 0, 2));
            D.setOneBodyForce(s, M.bodies[1], F1); I.p.bodyF[M.bodies[1].getMobilizedBodyIndex()] = F1;
            D.setOneMobilityForce(s, M.bodies[0], MobilizerUIndex(hostNU(I.host, 0) - 1), 2.5);
            I.p.mobF[(int)M.bodies[0].getFirstUIndex(s) + hostNU(I.host, 0) - 1] = 2.5;
        } else {
            Vector_<SpatialVec> all(nb); Vector mf(nu);
            for (int b = 0; b < nb; ++b) all[b] = SpatialVec(Vec3(0.3 * b - 0.2, 0.5, -0.1 * b), Vec3(1.0 - b, 0.25 * b, -0.75));   // Ground entry non-zero
            for (int i = 0; i < nu; ++i) mf[i] = mb::uv(1, i) * 1.5;
            D.setAllBodyForces(s, all); D.setAllMobilityForces(s, mf);
            I.p.bodyF = all; I.p.mobF = mf;
            M.system.realize(s, Stage::Position);
            const Vec3 st = stationTable(2, 0), fG(0.4, -1.1, 0.6);
            D.addForceToBodyPoint(s, M.bodies[2], st, fG);
            const Vec3 stG = M.bodies[2].getBodyRotation(s) * st;
            // the documented meaning: force fG at station st == (stG x fG, fG) at the body origin (harness arithmetic)
            I.p.bodyF[M.bodies[2].getMobilizedBodyIndex()] += SpatialVec(Vec3(stG[1] * fG[2] - stG[2] * fG[1], stG[2] * fG[0] - stG[0] * fG[2], stG[0] * fG[1] - stG[1] * fG[0]), fG);
        }
    } else if (I.elem == EThermostat) {
        Force::Thermostat T = Force::Thermostat::downcast(I.force);
        const int m = T.getNumChains(s);
        Vector z(2 * m);
        for (int i = 0; i < m; ++i) { z[i] = (I.pset == 0 ? 0.6 : -0.35) + 0.15 * i; z[m + i] = 0.1 * (i + 1); }
        T.setChainState(s, z); I.p.chain = z;
    }
}
inline bool needsStateInit(int elem) { return elem == EDiscreteForces || elem == EThermostat; }

// One complete case: host + one element + a State.  The State is realized to Stage::Model by makeState and has
// q,u from the tables; state parameters are applied.
struct Case {
    std::unique_ptr<mb::Model> M; Instance I; State s;
};
inline std::unique_ptr<Case> buildCase(int host, int elem, int pset, int attachIndex, int stateKind, int valueSet,
                                       const std::function<void(mb::Model&)>& extra = nullptr) {
    std::unique_ptr<Case> C(new Case());
    C->M = buildHost(host);
    C->I = add(*C->M, host, elem, pset, attachIndex);
    if (extra) extra(*C->M);
    C->s = mb::makeState(*C->M, stateKind, valueSet);
    if (needsStateInit(elem)) initStateParams(*C->M, C->I, C->s);
    return C;
}

// ---------------------------------------------------------------- documented energy class (for C12)
//   Conservative : reports a potential energy and has no damping parameter (or all damping parameters zero)
//   Dissipative  : has a non-zero damping / dissipation parameter
//   Source       : documented as "does not contribute to the potential energy ... energy not conserved"
enum EnergyClass { Conservative, Dissipative, Source };
inline int energyClass(const Instance& I) {
    switch (I.elem) {
        case ETwoPointLinearSpring: case ECustomTwoPointSpring: case ECustomOriginSpring: case EMobilityLinearSpring: case EUniformGravity: case EGravity: return Conservative;
        case ETwoPointLinearDamper: case EMobilityLinearDamper: case EGlobalDamper: return I.p.c != 0 ? Dissipative : Conservative;
        case ELinearBushing: { bool any = false; for (int i = 0; i < 6; ++i) any |= I.p.C6[i] != 0; return any ? Dissipative : Conservative; }
        case EMobilityLinearStop: return (I.p.d != 0 && I.p.k != 0) ? Dissipative : Conservative;
        default: return Source;
    }
}
inline const char* energyClassName(int c) { return c == Conservative ? "conservative" : c == Dissipative ? "dissipative" : "source"; }

// consistency of the host tables with the real State (harnesses call it once per host and report a harness error otherwise)
inline bool checkHostTables(int h, std::string* why = nullptr) {
    auto M = buildHost(h); State s = mb::makeState(*M, 0, 0);
    for (int b = 0; b < 3; ++b) if (M->bodies[b].getNumQ(s) != hostNQ(h, b) || M->bodies[b].getNumU(s) != hostNU(h, b)) { if (why) *why = "host " + std::to_string(h) + " body " + std::to_string(b) + " nq/nu table mismatch"; return false; }
    return true;
}

}  // namespace fm
#endif
