// mbref.h -- independent dense references for multibody quantities (C01, C02, C08, C14, C15).
//   J_ref : body spatial velocities read back from the state realized with u = e_i
//           (velocity-kinematics route; disjoint from the M*v, M^-1*v and ABI recursions)
//   S_b   : 6x6 spatial inertia of body b about its origin, in Ground, assembled here from the
//           harness's own copy of the mass table with the harness's own parallel-axis code
//   M_ref = sum_b J_b^T S_b J_b
#ifndef VERIF_MBREF_H_
#define VERIF_MBREF_H_

#include "models.h"
#include "refkit.h"

namespace mbref {
using namespace SimTK;
using ref::LD; using ref::DMat; using ref::V3;

struct MassRef { LD m; V3 com; DMat Ic; };   // central inertia, in B
// Harness-side definition of the mass table (must describe the same physical bodies as mb::massTable).
inline MassRef massRef(int i) {
    MassRef r; r.Ic = DMat(3, 3);
    auto sym = [&](LD xx, LD yy, LD zz, LD xy, LD xz, LD yz) { r.Ic(0, 0) = xx; r.Ic(1, 1) = yy; r.Ic(2, 2) = zz; r.Ic(0, 1) = r.Ic(1, 0) = xy; r.Ic(0, 2) = r.Ic(2, 0) = xz; r.Ic(1, 2) = r.Ic(2, 1) = yz; };
    switch (i) {
        case 1: r.m = 2.0; r.com = {{0, 0, 0}}; sym(0.8, 1.1, 1.5, 0, 0, 0); break;
        case 2: r.m = 1.5; r.com = {{0.05, -0.02, 0.03}}; sym(1.5 * 1e-4, 1.5 * 1.2e-4, 1.5 * 0.9e-4, 0, 0, 0); break;
        default: r.m = 1.3; r.com = {{0.1, -0.15, 0.2}}; sym(0.9, 1.2, 1.4, 0.1, -0.07, 0.05); break;
    }
    return r;
}
inline DMat toMat(const Rotation& R) { DMat m(3, 3); for (int i = 0; i < 3; ++i) for (int j = 0; j < 3; ++j) m(i, j) = R[i][j]; return m; }
inline V3 toV3(const Vec3& v) { return {{(LD)v[0], (LD)v[1], (LD)v[2]}}; }

// inertia about the body origin, in B, by the parallel-axis theorem (harness code)
inline DMat inertiaAboutOriginB(const MassRef& mr) {
    DMat I = mr.Ic; LD c2 = ref::dot(mr.com, mr.com);
    for (int i = 0; i < 3; ++i) for (int j = 0; j < 3; ++j) I(i, j) += mr.m * ((i == j ? c2 : 0) - mr.com[i] * mr.com[j]);
    return I;
}
// 6x6 spatial inertia about the body origin expressed in G, (omega, v) ordering:
//   KE = 1/2 [w;v]^T [[I_o, m c^x],[m c^x^T, m 1]] [w;v],  c = R_GB * com
inline DMat spatialInertiaG(const mb::Model& M, const State& s, int bi) {
    MassRef mr = massRef(M.specs[bi].mass);
    DMat R = toMat(M.bodies[bi].getBodyTransform(s).R());
    DMat Io = ref::mul(ref::mul(R, inertiaAboutOriginB(mr)), ref::transpose(R));
    DMat cB(3, 1); for (int i = 0; i < 3; ++i) cB(i, 0) = mr.com[i];
    DMat cG = ref::mul(R, cB); V3 c = {{cG(0, 0), cG(1, 0), cG(2, 0)}};
    DMat cx = ref::crossMat(c);
    DMat S(6, 6);
    for (int i = 0; i < 3; ++i) for (int j = 0; j < 3; ++j) {
        S(i, j) = Io(i, j);
        S(i, 3 + j) = mr.m * cx(i, j);
        S(3 + i, j) = mr.m * cx(j, i);
        S(3 + i, 3 + j) = i == j ? mr.m : 0;
    }
    return S;
}
// J_ref: (6*nb) x nu; block b = [omega_b; v_b(origin)] in G per unit speed
inline DMat jacobianRef(const mb::Model& M, const State& s) {
    const int nb = (int)M.bodies.size(), nu = s.getNU();
    DMat J(6 * nb, nu);
    State t = s;
    for (int i = 0; i < nu; ++i) {
        t.updU() = 0; t.updU()[i] = 1;
        M.system.realize(t, Stage::Velocity);
        for (int b = 0; b < nb; ++b) {
            const SpatialVec& V = M.bodies[b].getBodyVelocity(t);
            for (int k = 0; k < 3; ++k) { J(6 * b + k, i) = V[0][k]; J(6 * b + 3 + k, i) = V[1][k]; }
        }
    }
    return J;
}
inline DMat massMatrixRef(const mb::Model& M, const State& s, const DMat& J) {
    const int nb = (int)M.bodies.size(), nu = J.c;
    DMat Mr(nu, nu);
    for (int b = 0; b < nb; ++b) {
        DMat Jb(6, nu); for (int k = 0; k < 6; ++k) for (int i = 0; i < nu; ++i) Jb(k, i) = J(6 * b + k, i);
        DMat S = spatialInertiaG(M, s, b);
        Mr = ref::add(Mr, ref::mul(ref::mul(ref::transpose(Jb), S), Jb));
    }
    return Mr;
}
inline DMat fromMatrix(const Matrix& A) { DMat m(A.nrow(), A.ncol()); for (int i = 0; i < A.nrow(); ++i) for (int j = 0; j < A.ncol(); ++j) m(i, j) = A(i, j); return m; }
inline DMat fromVector(const Vector& v) { DMat m(v.size(), 1); for (int i = 0; i < v.size(); ++i) m(i, 0) = v[i]; return m; }

}  // namespace mbref
#endif
