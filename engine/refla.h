// refla.h -- tiny dense reference linear algebra in long double / complex<long double>
// for the harness oracles (C24).  Deliberately boring: column-major DMat, products,
// norms, one-sided Jacobi RefSVD (Hestenes), exact Gaussian-integer determinants/ranks
// by cofactor expansion for tiny matrices.  No LAPACK, no simbody code.
#ifndef VERIF_REFLA_H_
#define VERIF_REFLA_H_

#include <algorithm>
#include <cmath>
#include <complex>
#include <cstdint>
#include <vector>

namespace refla {

typedef long double LD;
typedef std::complex<LD> CL;

struct DMat {
    int m = 0, n = 0;
    std::vector<CL> a;
    DMat() {}
    DMat(int m_, int n_) : m(m_), n(n_), a((size_t)m_ * n_, CL(0, 0)) {}
    CL& operator()(int i, int j) { return a[(size_t)j * m + i]; }
    const CL& operator()(int i, int j) const { return a[(size_t)j * m + i]; }
    static DMat identity(int n) { DMat I(n, n); for (int i = 0; i < n; ++i) I(i, i) = 1; return I; }
};

inline LD abs2(const CL& z) { return z.real() * z.real() + z.imag() * z.imag(); }

inline DMat mul(const DMat& A, const DMat& B) {
    DMat C(A.m, B.n);
    for (int j = 0; j < B.n; ++j)
        for (int k = 0; k < A.n; ++k) {
            CL b = B(k, j);
            if (b == CL(0, 0)) continue;
            for (int i = 0; i < A.m; ++i) C(i, j) += A(i, k) * b;
        }
    return C;
}
inline DMat herm(const DMat& A) {
    DMat H(A.n, A.m);
    for (int i = 0; i < A.m; ++i) for (int j = 0; j < A.n; ++j) H(j, i) = std::conj(A(i, j));
    return H;
}
inline DMat sub(const DMat& A, const DMat& B) { DMat C = A; for (size_t k = 0; k < C.a.size(); ++k) C.a[k] -= B.a[k]; return C; }
inline LD fro(const DMat& A) { LD s = 0; for (auto& z : A.a) s += abs2(z); return std::sqrt(s); }
inline LD maxabs(const DMat& A) { LD s = 0; for (auto& z : A.a) s = std::max(s, std::abs(z)); return s; }
inline bool finite(const DMat& A) { for (auto& z : A.a) if (!std::isfinite(z.real()) || !std::isfinite(z.imag())) return false; return true; }
inline DMat col(const DMat& A, int j) { DMat c(A.m, 1); for (int i = 0; i < A.m; ++i) c(i, 0) = A(i, j); return c; }
inline LD colnorm(const DMat& A, int j) { LD s = 0; for (int i = 0; i < A.m; ++i) s += abs2(A(i, j)); return std::sqrt(s); }

// One-sided Jacobi RefSVD of A (m x n): returns singular values (n of them, descending;
// the last n-min(m,n) are ~0) and V (n x n unitary) with A*V = U*diag(s).
struct RefSVD {
    int m = 0, n = 0;
    std::vector<LD> s;   // n values, descending
    DMat V;               // n x n
    DMat AV;              // m x n, columns = A*V (= u_j * s_j)
    LD s1() const { return s.empty() ? 0 : s[0]; }
    int sweeps = 0;
};
inline RefSVD jacobiSVD(const DMat& A) {
    RefSVD R; R.m = A.m; R.n = A.n;
    int m = A.m, n = A.n;
    DMat W = A; DMat V = DMat::identity(n);
    const LD eps = 1.1e-19L;
    for (int sweep = 0; sweep < 60; ++sweep) {
        bool rotated = false;
        for (int p = 0; p < n - 1; ++p) for (int q = p + 1; q < n; ++q) {
            LD alpha = 0, beta = 0; CL gamma(0, 0);
            for (int i = 0; i < m; ++i) { alpha += abs2(W(i, p)); beta += abs2(W(i, q)); gamma += std::conj(W(i, p)) * W(i, q); }
            LD g = std::abs(gamma);
            if (g == 0 || g <= 4 * eps * std::sqrt(alpha * beta)) continue;
            rotated = true;
            CL phc = std::conj(gamma / g);              // column q is multiplied by conj(phase): w_p^H w_q' = |gamma|
            LD zeta = (beta - alpha) / (2 * g);
            LD t = (zeta >= 0 ? 1 : -1) / (std::fabs(zeta) + std::sqrt(1 + zeta * zeta));
            LD c = 1 / std::sqrt(1 + t * t), s = c * t;
            for (int i = 0; i < m; ++i) { CL wp = W(i, p), wq = W(i, q) * phc; W(i, p) = c * wp - s * wq; W(i, q) = s * wp + c * wq; }
            for (int i = 0; i < n; ++i) { CL vp = V(i, p), vq = V(i, q) * phc; V(i, p) = c * vp - s * vq; V(i, q) = s * vp + c * vq; }
        }
        R.sweeps = sweep + 1;
        if (!rotated) break;
    }
    std::vector<int> ord(n); for (int j = 0; j < n; ++j) ord[j] = j;
    std::vector<LD> nr(n); for (int j = 0; j < n; ++j) nr[j] = colnorm(W, j);
    std::stable_sort(ord.begin(), ord.end(), [&](int a, int b) { return nr[a] > nr[b]; });
    R.s.resize(n); R.V = DMat(n, n); R.AV = DMat(m, n);
    for (int j = 0; j < n; ++j) {
        R.s[j] = nr[ord[j]];
        for (int i = 0; i < n; ++i) R.V(i, j) = V(i, ord[j]);
        for (int i = 0; i < m; ++i) R.AV(i, j) = W(i, ord[j]);
    }
    return R;
}

// ---------------------------------------------------------------- exact Gaussian integers
struct GI {
    long long re = 0, im = 0;
    GI() {}
    GI(long long r, long long i = 0) : re(r), im(i) {}
    GI operator+(const GI& o) const { return GI(re + o.re, im + o.im); }
    GI operator-(const GI& o) const { return GI(re - o.re, im - o.im); }
    GI operator*(const GI& o) const { return GI(re * o.re - im * o.im, re * o.im + im * o.re); }
    bool zero() const { return re == 0 && im == 0; }
};
// determinant of the k x k submatrix (rows r[], cols c[]) of an integer matrix M (m x n, row-major) by cofactor expansion
inline GI detSub(const std::vector<GI>& M, int n, const int* r, const int* c, int k) {
    if (k == 0) return GI(1);
    if (k == 1) return M[r[0] * n + c[0]];
    if (k == 2) return M[r[0] * n + c[0]] * M[r[1] * n + c[1]] - M[r[0] * n + c[1]] * M[r[1] * n + c[0]];
    GI d(0);
    int cc[8];
    for (int j = 0; j < k; ++j) {
        int t = 0; for (int q = 0; q < k; ++q) if (q != j) cc[t++] = c[q];
        GI term = M[r[0] * n + c[j]] * detSub(M, n, r + 1, cc, k - 1);
        d = (j % 2 == 0) ? d + term : d - term;
    }
    return d;
}
// exact rank = size of the largest non-vanishing minor (brute force; m,n <= 4)
inline int exactRank(const std::vector<GI>& M, int m, int n) {
    int best = 0;
    int mn = std::min(m, n);
    for (int k = 1; k <= mn; ++k) {
        bool found = false;
        std::vector<int> rs(k), cs(k);
        // enumerate k-subsets of rows and columns via bitmasks
        for (int rm = 0; rm < (1 << m) && !found; ++rm) {
            if (__builtin_popcount(rm) != k) continue;
            int t = 0; for (int i = 0; i < m; ++i) if (rm >> i & 1) rs[t++] = i;
            for (int cm = 0; cm < (1 << n) && !found; ++cm) {
                if (__builtin_popcount(cm) != k) continue;
                t = 0; for (int j = 0; j < n; ++j) if (cm >> j & 1) cs[t++] = j;
                if (!detSub(M, n, rs.data(), cs.data(), k).zero()) found = true;
            }
        }
        if (found) best = k; else break;
    }
    return best;
}
inline GI exactDet(const std::vector<GI>& M, int n) {
    int idx[8]; for (int i = 0; i < n; ++i) idx[i] = i;
    return detSub(M, n, idx, idx, n);
}
// Hermitian positive definite <=> all leading principal minors are real and > 0
inline bool exactHPD(const std::vector<GI>& M, int n) {
    int idx[8]; for (int i = 0; i < n; ++i) idx[i] = i;
    for (int k = 1; k <= n; ++k) { GI d = detSub(M, n, idx, idx, k); if (d.im != 0 || d.re <= 0) return false; }
    return true;
}

}  // namespace refla
#endif
