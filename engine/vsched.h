// sched.h -- engine E1: preemption-bounded stateless exploration of real threads.
//
// The harness executable interposes the pthread entry points (sched.cpp).  While
// an execution is active, exactly one registered thread runs at a time (baton
// hand-off over raw futexes); mutexes and condition variables are modelled, so
// blocking is visible and every interleaving of the visible operations can be
// enumerated.  Scheduling points: every interposed call, every
// SimTK_VERIF_POINT in the library, every sched::yield() in harness bodies.
#ifndef VERIF_VSCHED_H_
#define VERIF_VSCHED_H_

#include <cstdint>
#include <functional>
#include <string>
#include <vector>

namespace sched {

constexpr int MAXT = 40;

struct Point {          // one choice point of an execution
    int nalt;           // number of alternatives (>=2; points with 1 alternative are not recorded)
    int chosen;         // alternative taken (0 = default)
    bool isSched;       // thread choice (true) or notify_one waiter choice (false)
    bool runningEnabled;// for thread choices: default alternative continues the running thread
    uint64_t stateHash; // hash of the modelled state at this point (for pruning)
};

struct Trace {
    std::vector<Point> points;
    std::vector<std::string> log;     // harness observation log (sched::log)
    std::string outcome;              // "ok", "deadlock", "horizon", "diverged"
    std::string detail;
    int threads = 0;                  // threads that existed
    int64_t steps = 0;                // scheduling points passed (including forced ones)
    std::vector<int> choices() const { std::vector<int> c; for (auto& p : points) c.push_back(p.chosen); return c; }
};

struct Options {
    int horizon = 20000;              // max scheduling steps per execution
    std::function<uint64_t()> userState;  // extra harness-visible shared state to hash (optional)
};

// Run body() on the calling thread under the controlled scheduler following `prefix`
// (choice 0 afterwards).  All threads created inside must have been joined when
// body returns.  On deadlock / horizon the *process* cannot continue: the trace is
// handed to onFatal (which must not return normally: it should record and _exit).
Trace run(const std::vector<int>& prefix, const std::function<void()>& body, const Options& opt,
          const std::function<void(const Trace&)>& onFatal);

// --- services for harness bodies (valid inside run(); no-ops outside)
void yield(const char* tag);                 // explicit scheduling point
void log(const std::string& s);              // append to the observation log
int self();                                  // id of calling thread (0 = main), -1 if unregistered
std::vector<uint32_t> clock();               // vector clock of the calling thread
bool active();
// Restrict exploration to a region of interest: while exploring is false, choice points are not
// recorded (the default alternative is taken), so they are neither branched on nor part of a prefix.
void setExploring(bool on);

struct Stats { int64_t locks = 0, unlocks = 0, waits = 0, signals = 0, broadcasts = 0, creates = 0, joins = 0, yields = 0, hookPoints = 0; };
Stats& stats();

// --- explorer: iterative preemption bounding (bounds 0..maxBound), optional state-hash pruning
struct ExploreResult {
    int64_t executions = 0, points = 0, pruned = 0;
    std::vector<int64_t> executionsPerBound;
    int64_t maxSteps = 0; int maxThreads = 0;
    int64_t distinctStates = 0;
    bool complete = true;
};
struct Explorer {
    int maxBound = 2;
    bool hashPrune = false;
    Options opt;
    std::function<void()> body;                                    // one execution
    std::function<void()> reset;                                   // before each execution (clear harness shared data)
    std::function<void(const Trace&, int bound)> onExecution;      // oracle, called after every complete execution
    std::function<void(const Trace&)> onFatal;                     // deadlock/horizon: record and _exit
    std::function<bool()> stop;                                    // deadline
    ExploreResult explore();
    Trace replay(const std::vector<int>& choices);                 // run one schedule (for --replay and confirmation)
};

std::string choicesToString(const std::vector<int>& c);
std::vector<int> choicesFromString(const std::string& s);

}  // namespace sched
#endif
