// consmodels.h -- shared constraint alphabet (DESIGN.md §2.2) for C07, C08, C09, C21, C43.
//
//   CONS (20)  x  ATTACH (6)  x  SWAP (2)  x  LAT (3: station/axis/frame/coordinate lattice)  x  VAR (<=3, type specific)
// on HOST trees (3) built with mb::build():
//
//        Ground --- R0 --+-- R1 --- R3          R0,R1,R2,R3,R4 = indices 0..4 in Model::bodies
//           |            +-- R2
//           +------ R4
//
//   host 0: R0 Free   R1 Ball   R2 Pin   R3 Slider  R4 Pin
//   host 1: R0 Pin    R1 Free   R2 Ball  R3 Pin/rev R4 Slider
//   host 2: R0 Ball   R1 Slider/rev R2 Free R3 Ball R4 Pin
// so every role sees a Free, a Ball and a 1-dof mobilizer, every constraint type is attachable in every host,
// and every two-body attachment spans >= 2 mobilizers.
//
// Everything here is a fixed table; nothing is random.  Usage:
//     auto Mp = mb::build(cons::hostSpecs(host), euler);
//     cons::ConsSpec cs{type, attach, swap, lat, var};
//     cons::Added a = cons::addConstraint(*Mp, cs);          // a.legal says whether the combination exists
//     State s = cons::makeState(*Mp, stateId, valueSet, &ok); // includes *violated* and projected (satisfied) states
#ifndef VERIF_CONSMODELS_H_
#define VERIF_CONSMODELS_H_

#include "models.h"
#include <functional>
#include <string>
#include <vector>

namespace cons {
using namespace SimTK;

// ---------------------------------------------------------------- alphabet
enum Cons {
    CRod, CBall, CWeld, CPointInPlane, CPointOnLine, CConstantAngle, CConstantOrientation, CNoSlip1D,
    CConstantCoordinate, CConstantSpeed, CConstantAcceleration, CCoordinateCoupler, CSpeedCoupler, CPrescribedMotion,
    CPointOnPlaneContact, CSphereOnPlaneContact, CSphereOnSphereContact, CLineOnLineContact,
    CCustomRod, CCustomConstantSpeed, NCONS
};
inline const char* consName(int c) {
    static const char* n[] = {"Rod", "Ball", "Weld", "PointInPlane", "PointOnLine", "ConstantAngle", "ConstantOrientation", "NoSlip1D",
        "ConstantCoordinate", "ConstantSpeed", "ConstantAcceleration", "CoordinateCoupler", "SpeedCoupler", "PrescribedMotion",
        "PointOnPlaneContact", "SphereOnPlaneContact", "SphereOnSphereContact", "LineOnLineContact", "CustomRod", "CustomConstantSpeed"};
    return (c >= 0 && c < NCONS) ? n[c] : "?";
}
enum Attach { AGroundBody, AParentChild, ASiblings, AAncDesc2, ASameBody, AViaGround, NATTACH };
inline const char* attachName(int a) {
    static const char* n[] = {"Ground-body", "parent-child", "siblings", "ancestor-descendant2", "same-body", "cousins-via-Ground"};
    return (a >= 0 && a < NATTACH) ? n[a] : "?";
}
enum { NSWAP = 2, NLAT = 3, NVARMAX = 3, NHOST = 3, NBODY = 5 };

// shape of a constraint type
enum Shape { ShapeTwoBody, ShapeOneMobilizer, ShapeCoupler, ShapeNoSlip };
inline Shape shapeOf(int c) {
    switch (c) {
        case CConstantCoordinate: case CConstantSpeed: case CConstantAcceleration: case CPrescribedMotion: case CCustomConstantSpeed: return ShapeOneMobilizer;
        case CCoordinateCoupler: case CSpeedCoupler: return ShapeCoupler;
        case CNoSlip1D: return ShapeNoSlip;
        default: return ShapeTwoBody;
    }
}
// number of type-specific variants:
//   ConstantAngle {pi/2, 1.0 rad}; NoSlip1D case body {Ground, moving body 0, a third body};
//   CoordinateCoupler {linear, quadratic}; SpeedCoupler {linear homogeneous, quadratic in u, quadratic in (u,q)};
//   PrescribedMotion {linear in t, sinusoid}; Sphere/Line contacts {slipping, rolling}
inline int numVar(int c) {
    switch (c) {
        case CConstantAngle: return 2; case CNoSlip1D: return 3; case CCoordinateCoupler: return 2; case CSpeedCoupler: return 3;
        case CPrescribedMotion: return 2; case CSphereOnPlaneContact: case CSphereOnSphereContact: case CLineOnLineContact: return 2;
        default: return 1;
    }
}
// expected numbers of holonomic / nonholonomic / acceleration-only equations (from the class documentation)
inline void expectedEquations(int c, int var, int& mp, int& mv, int& ma) {
    mp = mv = ma = 0;
    switch (c) {
        case CRod: case CCustomRod: case CPointInPlane: case CConstantAngle: case CConstantCoordinate: case CCoordinateCoupler: case CPrescribedMotion: mp = 1; break;
        case CBall: case CConstantOrientation: mp = 3; break;
        case CWeld: mp = 6; break;
        case CPointOnLine: mp = 2; break;
        case CNoSlip1D: case CConstantSpeed: case CCustomConstantSpeed: case CSpeedCoupler: mv = 1; break;
        case CConstantAcceleration: ma = 1; break;
        case CPointOnPlaneContact: mp = 1; mv = 2; break;
        case CSphereOnPlaneContact: case CSphereOnSphereContact: case CLineOnLineContact: mp = 1; mv = var ? 2 : 0; break;
    }
}
inline bool timeDependent(int c) { return c == CPrescribedMotion; }

struct ConsSpec {
    int type = CRod, attach = AParentChild, swap = 0, lat = 0, var = 0;
    std::string str() const {
        return std::string(consName(type)) + "/" + attachName(attach) + (swap ? "/swapped" : "") + "/lat" + std::to_string(lat) + "/var" + std::to_string(var);
    }
};
// A constraint does no work (power == 0 whenever its velocity errors are zero) iff its velocity-level equations are
// homogeneous in u:  all scleronomic holonomic ones, NoSlip1D, the rolling rows of the contacts, the homogeneous linear
// SpeedCoupler.  Not workless: PrescribedMotion (rheonomic), ConstantSpeed (speed != 0), ConstantAcceleration, nonlinear SpeedCouplers.
inline bool isWorkless(const ConsSpec& cs) {
    switch (cs.type) {
        case CPrescribedMotion: case CConstantSpeed: case CCustomConstantSpeed: case CConstantAcceleration: return false;
        case CSpeedCoupler: return cs.var == 0;
        default: return true;
    }
}

// ---------------------------------------------------------------- host trees
inline int hostKind(int host, int role) {
    static const int k[NHOST][NBODY] = {
        {mb::KFree, mb::KBall, mb::KPin, mb::KSlider, mb::KPin},
        {mb::KPin, mb::KFree, mb::KBall, mb::KPin, mb::KSlider},
        {mb::KBall, mb::KSlider, mb::KFree, mb::KBall, mb::KPin}};
    return k[((host % NHOST) + NHOST) % NHOST][role];
}
inline std::vector<mb::BodySpec> hostSpecs(int host) {
    host = ((host % NHOST) + NHOST) % NHOST;
    static const int parent[NBODY] = {-1, 0, 0, 1, -1};
    static const int frames[NBODY] = {3, 1, 2, 3, 0};
    std::vector<mb::BodySpec> v(NBODY);
    for (int r = 0; r < NBODY; ++r) {
        v[r].kind = hostKind(host, r); v[r].parent = parent[r]; v[r].frames = frames[r]; v[r].mass = (r + host) % 3; v[r].dir = 0;
    }
    if (host == 1) v[3].dir = 1;
    if (host == 2) v[1].dir = 1;
    return v;
}
inline int kindNQ(int kind, bool euler) {
    switch (kind) { case mb::KFree: return euler ? 6 : 7; case mb::KBall: return euler ? 3 : 4; default: return 1; }
}
inline int kindNU(int kind) { switch (kind) { case mb::KFree: return 6; case mb::KBall: return 3; default: return 1; } }
// true if coordinate qi of a mobilizer of this kind is a quaternion component
inline bool isQuaternionCoordinate(int kind, bool euler, int qi) { return !euler && (kind == mb::KFree || kind == mb::KBall) && qi < 4; }

// ---------------------------------------------------------------- lattices
inline Vec3 station1(int l) { static const Vec3 t[3] = {Vec3(0), Vec3(0.3, 0, 0), Vec3(0.2, -0.35, 0.15)}; return t[l % 3]; }
inline Vec3 station2(int l) { static const Vec3 t[3] = {Vec3(-0.25, 0.1, 0.3), Vec3(0), Vec3(0, -0.4, 0.1)}; return t[l % 3]; }
inline UnitVec3 axis1(int l) { switch (l % 3) { case 0: return UnitVec3(XAxis); case 1: return UnitVec3(ZAxis); default: return UnitVec3(0.5, -0.6, 0.62); } }
inline UnitVec3 axis2(int l) { switch (l % 3) { case 0: return UnitVec3(YAxis); case 1: return UnitVec3(0.3, 0.8, -0.5); default: return UnitVec3(XAxis); } }
inline Transform frame1(int l) {
    switch (l % 3) { case 0: return Transform(); case 1: return Transform(Rotation(0.6, UnitVec3(1, 2, -1)), Vec3(0.1, 0, -0.2)); default: return mb::frameTable(3); }
}
inline Transform frame2(int l) {
    switch (l % 3) { case 0: return Transform(Rotation(-0.8, YAxis), Vec3(0, 0.15, 0)); case 1: return mb::frameTableB(1); default: return Transform(Vec3(-0.1, 0.2, 0.3)); }
}
// index lattice {first, second, last}; legal only if it names a new index
inline bool latticeIndex(int l, int n, int& idx) {
    if (n <= 0) return false;
    if (l == 0) { idx = 0; return true; }
    if (l == 1) { idx = 1; return n >= 2; }
    idx = n - 1; return n >= 3;
}
// fixed parameters
inline Real rodLength() { return 0.7; }
inline Real planeHeight() { return 0.15; }
inline Real constantPosition() { return 0.25; }
inline Real constantSpeedValue() { return -0.4; }
inline Real constantAccelerationValue() { return 0.9; }
inline Real sphereRadiusF() { return 0.25; }
inline Real sphereRadiusB() { return 0.2; }

// ---------------------------------------------------------------- functions used by the couplers
// f(x) = c + sum a_i x_i + 1/2 sum_ij B_ij x_i x_j (B symmetric); exact derivatives of every order
class QuadFunction : public Function {
public:
    QuadFunction(Real c, const Vector& a, const Matrix& B) : c(c), a(a), B(B) {}
    Real calcValue(const Vector& x) const override {
        Real v = c;
        for (int i = 0; i < a.size(); ++i) { v += a[i] * x[i]; for (int j = 0; j < a.size(); ++j) v += 0.5 * B(i, j) * x[i] * x[j]; }
        return v;
    }
    Real calcDerivative(const Array_<int>& d, const Vector& x) const override {
        if (d.size() == 1) { Real v = a[d[0]]; for (int j = 0; j < a.size(); ++j) v += B(d[0], j) * x[j]; return v; }
        if (d.size() == 2) return B(d[0], d[1]);
        return 0;
    }
    int getArgumentSize() const override { return a.size(); }
    int getMaxDerivativeOrder() const override { return std::numeric_limits<int>::max(); }
    QuadFunction* clone() const override { return new QuadFunction(*this); }
private:
    Real c; Vector a; Matrix B;
};
// coefficient tables: n arguments, homogeneous linear / affine / quadratic
inline Function* makeCouplerFunction(int n, int nonlinear, bool homogeneous) {
    static const Real at[4] = {1.0, -0.7, 0.45, 1.3};
    static const Real bt[4][4] = {{0.6, -0.25, 0.15, 0.3}, {-0.25, -0.4, 0.35, -0.2}, {0.15, 0.35, 0.5, 0.1}, {0.3, -0.2, 0.1, -0.45}};
    Vector a(n); Matrix B(n, n); B = 0;
    for (int i = 0; i < n; ++i) { a[i] = at[i % 4]; if (nonlinear) for (int j = 0; j < n; ++j) B(i, j) = bt[i % 4][j % 4]; }
    return new QuadFunction(homogeneous ? 0.0 : -0.2, a, B);
}

// ---------------------------------------------------------------- Custom mirrors (written from the documented Custom API)
class CustomRodImpl : public Constraint::Custom::Implementation {
public:
    CustomRodImpl(SimbodyMatterSubsystem& m, const MobilizedBody& b1, const Vec3& p1, const MobilizedBody& b2, const Vec3& p2, Real d)
        : Implementation(m, 1, 0, 0), p1(p1), p2(p2), d(d) { B1 = addConstrainedBody(b1); B2 = addConstrainedBody(b2); }
    Implementation* clone() const override { return new CustomRodImpl(*this); }
    void calcPositionErrors(const State&, const Array_<Transform, ConstrainedBodyIndex>& X_AB, const Array_<Real, ConstrainedQIndex>&, Array_<Real>& perr) const override {
        const Vec3 r = findStationLocation(X_AB, B2, p2) - findStationLocation(X_AB, B1, p1);
        perr[0] = r.norm() - d;
    }
    void calcPositionDotErrors(const State& s, const Array_<SpatialVec, ConstrainedBodyIndex>& V_AB, const Array_<Real, ConstrainedQIndex>&, Array_<Real>& pverr) const override {
        const Vec3 r = findStationLocationFromState(s, B2, p2) - findStationLocationFromState(s, B1, p1);
        const Vec3 v = findStationVelocity(s, V_AB, B2, p2) - findStationVelocity(s, V_AB, B1, p1);
        pverr[0] = dot(v, r) / r.norm();
    }
    void calcPositionDotDotErrors(const State& s, const Array_<SpatialVec, ConstrainedBodyIndex>& A_AB, const Array_<Real, ConstrainedQIndex>&, Array_<Real>& paerr) const override {
        const Vec3 r = findStationLocationFromState(s, B2, p2) - findStationLocationFromState(s, B1, p1);
        const Vec3 v = findStationVelocityFromState(s, B2, p2) - findStationVelocityFromState(s, B1, p1);
        const Vec3 a = findStationAcceleration(s, A_AB, B2, p2) - findStationAcceleration(s, A_AB, B1, p1);
        const Real rn = r.norm(); const Real verr = dot(v, r) / rn;
        paerr[0] = dot(a, r) / rn + (dot(v, v) - verr * verr) / rn;
    }
    void addInPositionConstraintForces(const State& s, const Array_<Real>& mult, Array_<SpatialVec, ConstrainedBodyIndex>& F, Array_<Real, ConstrainedQIndex>&) const override {
        const Vec3 r = findStationLocationFromState(s, B2, p2) - findStationLocationFromState(s, B1, p1);
        const Vec3 f = (mult[0] / r.norm()) * r;
        addInStationForce(s, B2, p2, f, F);
        addInStationForce(s, B1, p1, -f, F);
    }
private:
    ConstrainedBodyIndex B1, B2; Vec3 p1, p2; Real d;
};
class CustomConstantSpeedImpl : public Constraint::Custom::Implementation {
public:
    CustomConstantSpeedImpl(SimbodyMatterSubsystem& m, const MobilizedBody& b, MobilizerUIndex which, Real speed)
        : Implementation(m, 0, 1, 0), which(which), speed(speed) { M = addConstrainedMobilizer(b); }
    Implementation* clone() const override { return new CustomConstantSpeedImpl(*this); }
    void calcVelocityErrors(const State& s, const Array_<SpatialVec, ConstrainedBodyIndex>&, const Array_<Real, ConstrainedUIndex>& u, Array_<Real>& verr) const override {
        verr[0] = getOneU(s, u, M, which) - speed;
    }
    void calcVelocityDotErrors(const State& s, const Array_<SpatialVec, ConstrainedBodyIndex>&, const Array_<Real, ConstrainedUIndex>& udot, Array_<Real>& vaerr) const override {
        vaerr[0] = getOneUDot(s, udot, M, which);
    }
    void addInVelocityConstraintForces(const State& s, const Array_<Real>& mult, Array_<SpatialVec, ConstrainedBodyIndex>&, Array_<Real, ConstrainedUIndex>& f) const override {
        addInOneMobilityForce(s, M, which, mult[0], f);
    }
private:
    ConstrainedMobilizerIndex M; MobilizerUIndex which; Real speed;
};

// ---------------------------------------------------------------- attachments
// body index convention: -1 = Ground, 0..4 = roles R0..R4
inline void attachPair(int attach, int swap, int& x, int& y) {
    switch (attach) {
        case AGroundBody: x = -1; y = 1; break;    // Ground and R1: path Ground-R0-R1
        case AParentChild: x = 0; y = 1; break;    // ancestor R0 is a constrained body
        case ASiblings: x = 1; y = 2; break;       // ancestor R0 is not a constrained body
        case AAncDesc2: x = 0; y = 3; break;       // R0-R1-R3
        case ASameBody: x = 1; y = 1; break;
        default: x = 1; y = 4; break;              // ancestor Ground, neither body is Ground
    }
    if (swap) std::swap(x, y);
}
// the mobilizer a one-mobilizer constraint acts on
inline int attachMobilizer(int attach) {
    switch (attach) { case AGroundBody: return 0; case AParentChild: return 1; case ASiblings: return 2; case AAncDesc2: return 3; case AViaGround: return 4; default: return -1; }
}
inline MobilizedBody& bodyRef(mb::Model& M, int i) { return i < 0 ? (MobilizedBody&)M.matter.updGround() : M.bodies[i]; }

struct Added {
    bool legal = false;
    std::string why;                 // reason when illegal
    Constraint c;                    // handle (valid if legal)
    ConsSpec spec;
    int mp = 0, mv = 0, ma = 0;      // documented numbers of equations
    int bodyX = -2, bodyY = -2;      // the two attached bodies (-1 Ground), -2 if not applicable
    int caseBody = -2;               // NoSlip1D
    std::vector<int> mobilizers;     // constrained mobilizers (roles)
    std::vector<int> coords;         // coordinate / speed index within each constrained mobilizer
    bool touchesQuaternionCoordinate = false;   // a q-level coordinate constraint acts directly on a quaternion component
};

// Is the combination legal (exists, and is not a duplicate of another combination)?  Pure function of the indices.
inline bool legalCombination(const ConsSpec& cs, int host, bool euler, std::string* why = nullptr) {
    auto no = [&](const char* w) { if (why) *why = w; return false; };
    if (cs.type < 0 || cs.type >= NCONS || cs.attach < 0 || cs.attach >= NATTACH || cs.swap < 0 || cs.swap >= NSWAP || cs.lat < 0 || cs.lat >= NLAT) return no("index out of range");
    if (cs.var < 0 || cs.var >= numVar(cs.type)) return no("no such variant");
    const Shape sh = shapeOf(cs.type);
    if (sh == ShapeOneMobilizer) {
        if (cs.swap) return no("one-mobilizer constraint has no order");
        int r = attachMobilizer(cs.attach); if (r < 0) return no("one-mobilizer constraint cannot use this attachment");
        const int kind = hostKind(host, r);
        const bool onQ = cs.type == CConstantCoordinate || cs.type == CPrescribedMotion;
        int idx; if (!latticeIndex(cs.lat, onQ ? kindNQ(kind, euler) : kindNU(kind), idx)) return no("lattice index does not exist for this mobilizer");
        return true;
    }
    int x, y; attachPair(cs.attach, cs.swap, x, y);
    if (cs.attach == ASameBody && cs.swap) return no("same body twice has no order");
    if (sh == ShapeCoupler) {
        const bool onQ = cs.type == CCoordinateCoupler;
        if (cs.attach == AGroundBody) {   // Ground has no coordinates: one-argument function of a coordinate of R0
            if (cs.swap) return no("single-argument coupler has no order");
            int idx; return latticeIndex(cs.lat, onQ ? kindNQ(hostKind(host, 0), euler) : kindNU(hostKind(host, 0)), idx) ? true : no("lattice index does not exist");
        }
        const int nx = onQ ? kindNQ(hostKind(host, x), euler) : kindNU(hostKind(host, x));
        const int ny = onQ ? kindNQ(hostKind(host, y), euler) : kindNU(hostKind(host, y));
        int ix, iy;
        if (!latticeIndex(cs.lat, nx, ix)) return no("lattice index does not exist");
        if (cs.attach == ASameBody) { if (nx < 2) return no("need two coordinates on the same mobilizer"); return true; }
        (void)ny; (void)iy;
        return true;
    }
    return true;   // two-body and NoSlip1D shapes: every attachment is accepted by the constructors
}

// Adds constraint `cs` to M (built from hostSpecs(host)).  Returns legal=false (and adds nothing) for non-existing combinations.
inline Added addConstraint(mb::Model& M, const ConsSpec& cs, int host) {
    Added A; A.spec = cs;
    if (!legalCombination(cs, host, M.euler, &A.why)) return A;
    A.legal = true;
    expectedEquations(cs.type, cs.var, A.mp, A.mv, A.ma);
    const Shape sh = shapeOf(cs.type);
    const int l = cs.lat;
    if (sh == ShapeOneMobilizer) {
        const int r = attachMobilizer(cs.attach); const int kind = M.specs[r].kind;
        const bool onQ = cs.type == CConstantCoordinate || cs.type == CPrescribedMotion;
        int idx; latticeIndex(l, onQ ? kindNQ(kind, M.euler) : kindNU(kind), idx);
        A.mobilizers = {r}; A.coords = {idx};
        A.touchesQuaternionCoordinate = onQ && isQuaternionCoordinate(kind, M.euler, idx);
        MobilizedBody& b = M.bodies[r];
        switch (cs.type) {
            case CConstantCoordinate: A.c = Constraint::ConstantCoordinate(b, MobilizerQIndex(idx), constantPosition()); break;
            case CConstantSpeed: A.c = Constraint::ConstantSpeed(b, MobilizerUIndex(idx), constantSpeedValue()); break;
            case CConstantAcceleration: A.c = Constraint::ConstantAcceleration(b, MobilizerUIndex(idx), constantAccelerationValue()); break;
            case CCustomConstantSpeed: A.c = Constraint::Custom(new CustomConstantSpeedImpl(M.matter, b, MobilizerUIndex(idx), constantSpeedValue())); break;
            default: {   // PrescribedMotion
                Function* f;
                if (cs.var == 0) { Vector c(2); c[0] = 0.35; c[1] = -0.1; f = new Function::Linear(c); }
                else f = new Function::Sinusoid(0.4, 1.7, 0.3);
                A.c = Constraint::PrescribedMotion(M.matter, f, b.getMobilizedBodyIndex(), MobilizerQIndex(idx));
            }
        }
        return A;
    }
    int x, y; attachPair(cs.attach, cs.swap, x, y);
    if (sh == ShapeCoupler) {
        const bool onQ = cs.type == CCoordinateCoupler;
        auto nOf = [&](int r) { return onQ ? kindNQ(M.specs[r].kind, M.euler) : kindNU(M.specs[r].kind); };
        if (cs.attach == AGroundBody) { int i0; latticeIndex(l, nOf(0), i0); A.mobilizers = {0}; A.coords = {i0}; }
        else if (cs.attach == ASameBody) {
            int i0; latticeIndex(l, nOf(x), i0); int i1 = (i0 + 1) % nOf(x);
            A.mobilizers = {x, x}; A.coords = {i0, i1};
        } else {
            int ix; latticeIndex(l, nOf(x), ix); const int ny = nOf(y);
            const int iy = l == 0 ? 0 : ny - 1;      // second argument: first or last coordinate of the other mobilizer
            A.mobilizers = {x, y}; A.coords = {ix, iy};
        }
        const int n = (int)A.mobilizers.size();
        if (onQ) {
            Array_<MobilizedBodyIndex> bodies; Array_<MobilizerQIndex> qi;
            for (int k = 0; k < n; ++k) { bodies.push_back(M.bodies[A.mobilizers[k]].getMobilizedBodyIndex()); qi.push_back(MobilizerQIndex(A.coords[k])); A.touchesQuaternionCoordinate = A.touchesQuaternionCoordinate || isQuaternionCoordinate(M.specs[A.mobilizers[k]].kind, M.euler, A.coords[k]); }
            A.c = Constraint::CoordinateCoupler(M.matter, makeCouplerFunction(n, cs.var, false), bodies, qi);
        } else {
            Array_<MobilizedBodyIndex> bodies; Array_<MobilizerUIndex> ui;
            for (int k = 0; k < n; ++k) { bodies.push_back(M.bodies[A.mobilizers[k]].getMobilizedBodyIndex()); ui.push_back(MobilizerUIndex(A.coords[k])); }
            if (cs.var < 2) A.c = Constraint::SpeedCoupler(M.matter, makeCouplerFunction(n, cs.var, cs.var == 0), bodies, ui);
            else {   // also depends on one coordinate: the first coordinate of the last mobilizer (a translation or angle or quaternion/Euler component)
                Array_<MobilizedBodyIndex> cb; Array_<MobilizerQIndex> cq;
                cb.push_back(M.bodies[A.mobilizers[n - 1]].getMobilizedBodyIndex()); cq.push_back(MobilizerQIndex(0));
                A.c = Constraint::SpeedCoupler(M.matter, makeCouplerFunction(n + 1, 1, false), bodies, ui, cb, cq);
            }
        }
        return A;
    }
    A.bodyX = x; A.bodyY = y;
    MobilizedBody& X = bodyRef(M, x); MobilizedBody& Y = bodyRef(M, y);
    switch (cs.type) {
        case CRod: A.c = Constraint::Rod(X, station1(l), Y, station2(l), rodLength()); break;
        case CCustomRod: A.c = Constraint::Custom(new CustomRodImpl(M.matter, X, station1(l), Y, station2(l), rodLength())); break;
        case CBall: A.c = Constraint::Ball(X, station1(l), Y, station2(l)); break;
        case CWeld: A.c = Constraint::Weld(X, frame1(l), Y, frame2(l)); break;
        case CPointInPlane: A.c = Constraint::PointInPlane(X, axis1(l), planeHeight(), Y, station2(l)); break;
        case CPointOnLine: A.c = Constraint::PointOnLine(X, axis1(l), station1(l), Y, station2(l)); break;
        case CConstantAngle: A.c = Constraint::ConstantAngle(X, axis1(l), Y, axis2(l), cs.var ? 1.0 : Pi / 2); break;
        case CConstantOrientation: A.c = Constraint::ConstantOrientation(X, frame1(l).R(), Y, frame2(l).R()); break;
        case CNoSlip1D: {
            int cb = cs.var == 0 ? -1 : cs.var == 1 ? x : ((x != 2 && y != 2) ? 2 : 3);
            A.caseBody = cb;
            A.c = Constraint::NoSlip1D(bodyRef(M, cb), station1(l), axis1(l), X, Y);
            break;
        }
        case CPointOnPlaneContact: A.c = Constraint::PointOnPlaneContact(X, frame1(l), Y, station2(l)); break;
        case CSphereOnPlaneContact: A.c = Constraint::SphereOnPlaneContact(X, frame1(l), Y, station2(l), sphereRadiusB(), cs.var != 0); break;
        case CSphereOnSphereContact: A.c = Constraint::SphereOnSphereContact(X, station1(l), sphereRadiusF(), Y, station2(l), sphereRadiusB(), cs.var != 0); break;
        case CLineOnLineContact: A.c = Constraint::LineOnLineContact(X, frame1(l), 0.5, Y, frame2(l), 0.4, cs.var != 0); break;
        default: A.legal = false; A.why = "unknown type"; break;
    }
    return A;
}

// ---------------------------------------------------------------- distance from the singular configurations the documentation names
// Rod / CustomRod: end points must not coincide.  SphereOnSphere: centres must not coincide.  LineOnLine: edges must not be
// parallel, and the sign choice of the contact normal must be locally constant.  Others: none (returns a large number).
inline Real singularityMargin(const mb::Model& M, const State& s, const Added& A) {
    if (A.bodyX < -1) return Infinity;
    auto X_G = [&](int b) { return b < 0 ? Transform() : M.bodies[b].getBodyTransform(s); };
    const Transform X = X_G(A.bodyX), Y = X_G(A.bodyY); const int l = A.spec.lat;
    switch (A.spec.type) {
        case CRod: case CCustomRod: case CSphereOnSphereContact: return (Y * station2(l) - X * station1(l)).norm();
        case CLineOnLineContact: {
            const Transform Ef = X * frame1(l), Eb = Y * frame2(l);
            const Vec3 w = Ef.x() % Eb.x();
            const Real wsf = ~w * Ef.z(), wsb = ~w * Eb.z();
            Real m = std::min(w.norm(), std::max(std::abs(wsf), std::abs(wsb)));
            const int sf = wsf >= 0 ? 1 : -1, sb = wsb >= 0 ? -1 : 1;
            if (sf != sb) m = std::min(m, std::abs(std::abs(wsf) - std::abs(wsb)));   // the two criteria disagree: stay away from the switch
            return m;
        }
        default: return Infinity;
    }
}

// ---------------------------------------------------------------- states
// stateId: 0 zero state, t=0           (violates most constraints)
//          1 generic q,u, t=0          (violated at every level)
//          2 large-angle q, generic u, t=0.7
//          3 generic q, u=0, t=0.7
//          4 generic state projected onto the position AND velocity manifolds, t=0.3   (satisfied)
//          5 generic state with q projected only (velocity level still violated), t=0.3
enum { NSTATE = 6 };
inline const char* stateName(int id) { static const char* n[] = {"zero", "generic", "large-angle", "zero-velocity", "projected-qu", "projected-q"}; return (id >= 0 && id < NSTATE) ? n[id] : "?"; }
// Project s onto the constraint manifolds with the library's projection.  Returns false if the library reports failure.
inline bool projectState(mb::Model& M, State& s, Real tol, bool doQ, bool doU, std::string* err = nullptr) {
    const Vector qBefore = s.getQ(), uBefore = s.getU();
    try {
        M.system.realize(s, Stage::Time);
        if (doQ) M.system.projectQ(s, tol);
        if (doU) M.system.projectU(s, tol);
    } catch (const std::exception& e) { if (err) *err = e.what(); return false; }
    // Do not trust the return alone: (a) the state must be finite, (b) the requested manifold must have been reached.
    // (On the unchanged tree projectQ() of a system whose position Jacobian is identically zero uses an uninitialised
    //  update vector -- FactorQTZ::solve() with rank 0 -- and may return NaN coordinates or throw, depending on heap history.)
    for (int i = 0; i < s.getNQ(); ++i) if (!std::isfinite(s.getQ()[i])) { if (err) *err = "non-finite q after projection"; return false; }
    for (int i = 0; i < s.getNU(); ++i) if (!std::isfinite(s.getU()[i])) { if (err) *err = "non-finite u after projection"; return false; }
    // (c) the projected state must be near the start (|dq| <= 3, |du| <= 10): a numerically rank-deficient Jacobian (entries ~1e-16
    //     where the exact value is 0) makes the library take steps of 1e14 and still report success.
    if (!((s.getQ() - qBefore).normInf() <= 3)) { if (err) *err = "projection moved q unreasonably far"; return false; }
    if (!((s.getU() - uBefore).normInf() <= 10)) { if (err) *err = "projection moved u unreasonably far"; return false; }
    try {
        M.system.realize(s, doU ? Stage::Velocity : Stage::Position);
        if (doQ && !(s.getQErr().normInf() <= 1e3 * tol)) { if (err) *err = "position manifold not reached"; return false; }
        if (doU && !(s.getUErr().normInf() <= 1e3 * tol)) { if (err) *err = "velocity manifold not reached"; return false; }
    } catch (const std::exception& e) { if (err) *err = e.what(); return false; }
    return true;
}
// *ok (if given) is false when a projected state was requested and projection failed (the unprojected state is returned).
// `prepare` (optional) is applied to the Model-stage state before any projection, e.g. to disable some constraints.
inline State makeState(mb::Model& M, int stateId, int valueSet, bool* ok = nullptr, std::string* err = nullptr,
                       const std::function<void(State&)>& prepare = nullptr) {
    static const int kind[NSTATE] = {0, 1, 2, 3, 1, 1};
    static const Real time[NSTATE] = {0, 0, 0.7, 0.7, 0.3, 0.3};
    State s = mb::makeState(M, kind[stateId], valueSet);
    s.setTime(time[stateId]);
    if (prepare) prepare(s);
    bool good = true;
    if (stateId == 4) good = projectState(M, s, 1e-10, true, true, err);
    else if (stateId == 5) good = projectState(M, s, 1e-10, true, false, err);
    if (ok) *ok = good;
    return s;
}

// ---------------------------------------------------------------- a fixed context of other constraints (to give the constraint
// under test non-zero offsets in every per-constraint segment: holonomic, nonholonomic, acceleration-only, constrained bodies,
// constrained mobilizers, ancestor pool).  One of them is disabled by default.
inline void addPrefixConstraints(mb::Model& M) {
    Constraint::ConstantSpeed(M.bodies[4], 0.3);
    Constraint::Weld w(M.bodies[0], Transform(Vec3(0.1, 0.2, 0)), M.bodies[2], Transform()); w.setDisabledByDefault(true);
    Constraint::PointInPlane(M.matter.updGround(), UnitVec3(0.2, 1, -0.3), 0.4, M.bodies[2], Vec3(0.1, 0.1, -0.2));
    Constraint::Rod(M.bodies[1], Vec3(0.2, 0, 0.1), M.bodies[3], Vec3(-0.1, 0.3, 0), 0.8);   // ancestor R1 != Ground: occupies an ancestor-pool slot
    Constraint::ConstantAcceleration(M.bodies[4], -0.6);
}

}  // namespace cons
#endif
