// sched.cpp -- see sched.h.  Must be compiled into the harness *executable* so that
// its pthread_* definitions precede libc's in symbol lookup order for every DSO.
#ifndef _GNU_SOURCE
#define _GNU_SOURCE
#endif
#include "vsched.h"

#include <dlfcn.h>
#include <errno.h>
#include <linux/futex.h>
#include <pthread.h>
#include <stdio.h>
#include <stdlib.h>
#include <string.h>
#include <sys/syscall.h>
#include <unistd.h>

#include <algorithm>
#include <map>
#include <sstream>

namespace sched {

// ------------------------------------------------------------------ real entry points
typedef int (*create_t)(pthread_t*, const pthread_attr_t*, void* (*)(void*), void*);
typedef int (*join_t)(pthread_t, void**);
typedef int (*mtx_t)(pthread_mutex_t*);
typedef int (*cwait_t)(pthread_cond_t*, pthread_mutex_t*);
typedef int (*ctwait_t)(pthread_cond_t*, pthread_mutex_t*, const struct timespec*);
typedef int (*ccwait_t)(pthread_cond_t*, pthread_mutex_t*, clockid_t, const struct timespec*);
typedef int (*cnd_t)(pthread_cond_t*);

static create_t real_create;
static join_t real_join;
static mtx_t real_lock, real_trylock, real_unlock;
static cwait_t real_cwait;
static ctwait_t real_ctwait;
static ccwait_t real_ccwait;
static cnd_t real_signal, real_broadcast;

static void* sym(const char* name, const char* ver) {
    void* p = ver ? dlvsym(RTLD_NEXT, name, ver) : nullptr;
    if (!p) p = dlsym(RTLD_NEXT, name);
    if (!p) { fprintf(stderr, "sched: cannot resolve %s\n", name); abort(); }
    return p;
}
static void resolveAll() {
    static bool done = false;
    if (done) return;
    real_create = (create_t)sym("pthread_create", nullptr);
    real_join = (join_t)sym("pthread_join", nullptr);
    real_lock = (mtx_t)sym("pthread_mutex_lock", nullptr);
    real_trylock = (mtx_t)sym("pthread_mutex_trylock", nullptr);
    real_unlock = (mtx_t)sym("pthread_mutex_unlock", nullptr);
    real_cwait = (cwait_t)sym("pthread_cond_wait", "GLIBC_2.3.2");
    real_ctwait = (ctwait_t)sym("pthread_cond_timedwait", "GLIBC_2.3.2");
    real_ccwait = (ccwait_t)sym("pthread_cond_clockwait", nullptr);
    real_signal = (cnd_t)sym("pthread_cond_signal", "GLIBC_2.3.2");
    real_broadcast = (cnd_t)sym("pthread_cond_broadcast", "GLIBC_2.3.2");
    done = true;
}
__attribute__((constructor(101))) static void initReal() { resolveAll(); }

// ------------------------------------------------------------------ model state
enum Op { OP_RUNNING, OP_START, OP_POINT, OP_LOCK, OP_CONDWAITING, OP_JOIN, OP_FINISHED };

struct Thr {
    int id = -1;
    pthread_t real;
    int go = 0;               // futex word
    Op pend = OP_RUNNING;
    int obj = -1;             // mutex id (LOCK), cond id (CONDWAITING), thread id (JOIN)
    int condMutex = -1;       // mutex to reacquire after a condition wait
    bool finished = false;
    uint64_t hist = 0;
    uint32_t vc[MAXT];
    void* (*fn)(void*) = nullptr;
    void* arg = nullptr;
    void* ret = nullptr;
};
struct Mtx { int owner = -1; uint32_t vc[MAXT]; };
struct Cnd { std::vector<int> waiters; };

static Thr thr[MAXT];
static int nThr = 0;
static std::map<const void*, int> mtxId, cndId;
static std::vector<Mtx> mtx;
static std::vector<Cnd> cnd;
static bool g_active = false;
static Trace* g_trace = nullptr;
static const std::vector<int>* g_prefix = nullptr;
static const Options* g_opt = nullptr;
static const std::function<void(const Trace&)>* g_onFatal = nullptr;
static Stats g_stats;
static bool g_exploring = true;
static __thread Thr* tls_me = nullptr;

static inline uint64_t mix(uint64_t h, uint64_t v) {
    h ^= v + 0x9e3779b97f4a7c15ULL + (h << 6) + (h >> 2);
    h *= 0xff51afd7ed558ccdULL; h ^= h >> 33;
    return h;
}
static uint64_t strHash(const char* s) { uint64_t h = 1469598103934665603ULL; for (; s && *s; ++s) { h ^= (unsigned char)*s; h *= 1099511628211ULL; } return h; }

static void futexWait(int* w) {
    while (__atomic_load_n(w, __ATOMIC_SEQ_CST) == 0)
        syscall(SYS_futex, w, FUTEX_WAIT_PRIVATE, 0, nullptr, nullptr, 0);
    __atomic_store_n(w, 0, __ATOMIC_SEQ_CST);
}
static void futexWake(int* w) {
    __atomic_store_n(w, 1, __ATOMIC_SEQ_CST);
    syscall(SYS_futex, w, FUTEX_WAKE_PRIVATE, 1, nullptr, nullptr, 0);
}

[[noreturn]] static void fatal(const char* outcome, const std::string& detail) {
    g_trace->outcome = outcome;
    g_trace->detail = detail;
    g_trace->threads = nThr;
    if (g_onFatal && *g_onFatal) (*g_onFatal)(*g_trace);
    fprintf(stderr, "sched: fatal outcome %s (%s) and onFatal returned\n", outcome, detail.c_str());
    _exit(2);
}

static int getMtx(const void* p) {
    auto it = mtxId.find(p);
    if (it != mtxId.end()) return it->second;
    int id = (int)mtx.size();
    mtx.emplace_back(); memset(mtx.back().vc, 0, sizeof mtx.back().vc);
    mtxId[p] = id; return id;
}
static int getCnd(const void* p) {
    auto it = cndId.find(p);
    if (it != cndId.end()) return it->second;
    int id = (int)cnd.size();
    cnd.emplace_back(); cndId[p] = id; return id;
}

static uint64_t stateHash() {
    uint64_t h = 0x1234;
    for (int i = 0; i < nThr; ++i) {
        h = mix(h, thr[i].finished); h = mix(h, thr[i].pend); h = mix(h, (uint64_t)(thr[i].obj + 1));
        h = mix(h, thr[i].hist);
    }
    for (auto& m : mtx) h = mix(h, (uint64_t)(m.owner + 1));
    for (auto& c : cnd) { h = mix(h, 0xc0); for (int w : c.waiters) h = mix(h, (uint64_t)w); }
    if (g_opt && g_opt->userState) h = mix(h, g_opt->userState());
    return h;
}

static int nextChoice(int n, bool isSched, bool runningEnabled) {
    if (!g_exploring) return 0;
    size_t idx = g_trace->points.size();
    int c = 0;
    if (g_prefix && idx < g_prefix->size()) {
        c = (*g_prefix)[idx];
        if (c < 0 || c >= n) {
            std::ostringstream o; o << "choice " << c << " out of range " << n << " at point " << idx;
            fatal("diverged", o.str());
        }
    }
    g_trace->points.push_back(Point{n, c, isSched, runningEnabled, stateHash()});
    return c;
}

static bool enabled(const Thr& t) {
    if (t.finished) return false;
    switch (t.pend) {
        case OP_START: case OP_POINT: return true;
        case OP_LOCK: return mtx[t.obj].owner < 0;
        case OP_JOIN: return thr[t.obj].finished;
        default: return false;
    }
}
static void vcJoin(uint32_t* a, const uint32_t* b) { for (int i = 0; i < MAXT; ++i) if (b[i] > a[i]) a[i] = b[i]; }

static void grant(Thr& t) {
    switch (t.pend) {
        case OP_LOCK: mtx[t.obj].owner = t.id; vcJoin(t.vc, mtx[t.obj].vc); break;
        case OP_JOIN: vcJoin(t.vc, thr[t.obj].vc); break;
        default: break;
    }
    t.pend = OP_RUNNING;
}

// Called by the baton holder `me` after it declared its pending operation.
static void reschedule(Thr* me) {
    g_trace->steps++;
    if (g_trace->steps > g_opt->horizon) fatal("horizon", "step horizon exceeded (livelock?)");
    int list[MAXT]; int n = 0;
    bool meEnabled = enabled(*me);
    if (meEnabled) list[n++] = me->id;
    for (int i = 0; i < nThr; ++i) if (i != me->id && enabled(thr[i])) list[n++] = i;
    if (n == 0) {
        std::ostringstream o;
        for (int i = 0; i < nThr; ++i) {
            o << "T" << i << ":" << (thr[i].finished ? "finished" : thr[i].pend == OP_LOCK ? "lock(m" + std::to_string(thr[i].obj) + ")"
                 : thr[i].pend == OP_CONDWAITING ? "wait(c" + std::to_string(thr[i].obj) + ")" : thr[i].pend == OP_JOIN ? "join(T" + std::to_string(thr[i].obj) + ")" : "?") << " ";
        }
        fatal("deadlock", o.str());
    }
    int c = n > 1 ? nextChoice(n, true, meEnabled) : 0;
    Thr* next = &thr[list[c]];
    grant(*next);
    if (next != me) {
        futexWake(&next->go);
        if (!me->finished) futexWait(&me->go);
    }
}

static void point(Thr* me, uint64_t tagHash) {
    me->hist = mix(me->hist, tagHash);
    me->pend = OP_POINT;
    reschedule(me);
}

static void doUnlock(Thr* me, int m) {
    if (mtx[m].owner != me->id) fatal("diverged", "unlock of a mutex not owned by the caller");
    mtx[m].owner = -1;
    memcpy(mtx[m].vc, me->vc, sizeof me->vc);
    me->vc[me->id]++;
    me->hist = mix(me->hist, 0x75 + m);
}

static void* trampoline(void* p) {
    Thr* me = (Thr*)p;
    tls_me = me;
    futexWait(&me->go);          // granted START
    me->ret = me->fn(me->arg);
    me->finished = true;
    me->pend = OP_FINISHED;
    me->vc[me->id]++;
    tls_me = nullptr;
    reschedule(me);
    return me->ret;
}

// ------------------------------------------------------------------ public services
bool active() { return g_active && tls_me; }
void setExploring(bool on) { g_exploring = on; }
int self() { return tls_me ? tls_me->id : -1; }
void yield(const char* tag) { if (!active()) return; g_stats.yields++; point(tls_me, strHash(tag)); }
void log(const std::string& s) { if (g_trace) g_trace->log.push_back(s); }
std::vector<uint32_t> clock() {
    std::vector<uint32_t> v;
    if (!tls_me) return v;
    v.assign(tls_me->vc, tls_me->vc + nThr);
    return v;
}
Stats& stats() { return g_stats; }

Trace run(const std::vector<int>& prefix, const std::function<void()>& body, const Options& opt,
          const std::function<void(const Trace&)>& onFatal) {
    resolveAll();
    Trace tr;
    nThr = 0; mtxId.clear(); cndId.clear(); mtx.clear(); cnd.clear();
    g_trace = &tr; g_prefix = &prefix; g_opt = &opt; g_onFatal = &onFatal;
    Thr& m = thr[0];
    m = Thr(); m.id = 0; memset(m.vc, 0, sizeof m.vc); m.vc[0] = 1; m.real = pthread_self();
    nThr = 1; tls_me = &m; g_active = true; g_exploring = true;
    body();
    g_active = false; tls_me = nullptr;
    for (int i = 1; i < nThr; ++i)
        if (!thr[i].finished) { tr.outcome = "leak"; tr.detail = "thread still alive after body"; }
    for (auto& mm : mtx) if (mm.owner >= 0 && tr.outcome.empty()) { tr.outcome = "leak"; tr.detail = "mutex still held after body"; }
    if (tr.outcome.empty()) tr.outcome = "ok";
    tr.threads = nThr;
    g_trace = nullptr; g_prefix = nullptr;
    return tr;
}

std::string choicesToString(const std::vector<int>& c) {
    std::string s; for (size_t i = 0; i < c.size(); ++i) { if (i) s += ","; s += std::to_string(c[i]); } return s;
}
std::vector<int> choicesFromString(const std::string& s) {
    std::vector<int> c; std::stringstream ss(s); std::string t;
    while (std::getline(ss, t, ',')) if (!t.empty()) c.push_back(atoi(t.c_str()));
    return c;
}

// ------------------------------------------------------------------ explorer
static int preemptionCost(const Point& p, int alt) { return (p.isSched && p.runningEnabled && alt != 0) ? 1 : 0; }

Trace Explorer::replay(const std::vector<int>& choices) {
    if (reset) reset();
    return run(choices, body, opt, onFatal);
}

ExploreResult Explorer::explore() {
    ExploreResult R;
    R.executionsPerBound.assign(std::max(maxBound, 0) + 1, 0);   // maxBound = -1: default schedule only
    std::map<uint64_t, int> visited;   // state hash -> largest remaining budget expanded
    std::vector<uint64_t> allStates;
    std::vector<std::vector<int>> stack;
    stack.push_back({});
    // determinism obligation: the default schedule, run twice, gives identical observations
    {
        Trace a = replay({}), b = replay({});
        if (a.log != b.log || a.choices() != b.choices() || a.points.size() != b.points.size()) {
            Trace d; d.outcome = "diverged"; d.detail = "default schedule not reproducible (observation logs differ)";
            if (onFatal) onFatal(d);
            _exit(2);
        }
    }
    while (!stack.empty()) {
        if (stop && stop()) { R.complete = false; break; }
        std::vector<int> prefix = std::move(stack.back());
        stack.pop_back();
        Trace x = replay(prefix);
        R.executions++;
        R.points += (int64_t)x.points.size();
        R.maxSteps = std::max(R.maxSteps, x.steps);
        R.maxThreads = std::max(R.maxThreads, x.threads);
        int used = 0;
        std::vector<int> costBefore(x.points.size() + 1, 0);
        for (size_t i = 0; i < x.points.size(); ++i) {
            costBefore[i] = used;
            used += preemptionCost(x.points[i], x.points[i].chosen);
        }
        if (used <= maxBound) R.executionsPerBound[used]++;
        if (onExecution) onExecution(x, used);
        if (maxBound < 0) { for (auto& p : x.points) allStates.push_back(p.stateHash); break; }
        bool prunedTail = false;
        for (size_t i = prefix.size(); i < x.points.size(); ++i) {
            const Point& p = x.points[i];
            allStates.push_back(p.stateHash);
            int remaining = maxBound - costBefore[i];
            if (hashPrune) {
                auto it = visited.find(p.stateHash);
                if (it != visited.end() && it->second >= remaining) { R.pruned++; prunedTail = true; break; }
                visited[p.stateHash] = remaining;
            }
            for (int alt = p.nalt - 1; alt >= 1; --alt) {
                if (costBefore[i] + preemptionCost(p, alt) > maxBound) continue;
                std::vector<int> np(x.points.size() > i ? i + 1 : 0);
                for (size_t k = 0; k < i; ++k) np[k] = x.points[k].chosen;
                np[i] = alt;
                stack.push_back(std::move(np));
            }
        }
        (void)prunedTail;
        if (allStates.size() > 4000000) { std::sort(allStates.begin(), allStates.end()); allStates.erase(std::unique(allStates.begin(), allStates.end()), allStates.end()); }
    }
    std::sort(allStates.begin(), allStates.end());
    allStates.erase(std::unique(allStates.begin(), allStates.end()), allStates.end());
    R.distinctStates = (int64_t)allStates.size();
    return R;
}

}  // namespace sched

// ------------------------------------------------------------------ interposition
using namespace sched;

extern "C" {

void simtk_verif_point(const char* tag) {
    if (!sched::active()) return;
    g_stats.hookPoints++;
    point(tls_me, strHash(tag));
}

int pthread_create(pthread_t* t, const pthread_attr_t* a, void* (*fn)(void*), void* arg) {
    resolveAll();
    if (!sched::active()) return real_create(t, a, fn, arg);
    Thr* me = tls_me;
    g_stats.creates++;
    point(me, 0xc1);
    if (nThr >= MAXT) fatal("diverged", "too many threads");
    Thr& n = thr[nThr];
    n = Thr(); n.id = nThr; n.fn = fn; n.arg = arg; n.pend = OP_START;
    memcpy(n.vc, me->vc, sizeof me->vc); n.vc[n.id] = 1;
    me->vc[me->id]++;
    nThr++;
    int rc = real_create(&n.real, a, trampoline, &n);
    if (rc != 0) fatal("diverged", "real pthread_create failed");
    *t = n.real;
    me->hist = mix(me->hist, 0xc1);
    return 0;
}

int pthread_join(pthread_t t, void** ret) {
    resolveAll();
    if (!sched::active()) return real_join(t, ret);
    Thr* me = tls_me;
    g_stats.joins++;
    int target = -1;
    for (int i = 1; i < nThr; ++i) if (pthread_equal(thr[i].real, t)) target = i;
    if (target < 0) return real_join(t, ret);
    me->hist = mix(me->hist, 0x10 + target);
    me->pend = OP_JOIN; me->obj = target;
    reschedule(me);
    return real_join(t, ret);
}

int pthread_mutex_lock(pthread_mutex_t* m) {
    if (!sched::active()) { resolveAll(); return real_lock(m); }
    Thr* me = tls_me;
    g_stats.locks++;
    int id = getMtx(m);
    if (mtx[id].owner == me->id) fatal("deadlock", "relock of a non-recursive mutex by its owner");
    me->hist = mix(me->hist, 0x20 + id);
    me->pend = OP_LOCK; me->obj = id;
    reschedule(me);
    return 0;
}

int pthread_mutex_trylock(pthread_mutex_t* m) {
    if (!sched::active()) { resolveAll(); return real_trylock(m); }
    Thr* me = tls_me;
    int id = getMtx(m);
    point(me, 0x30 + id);
    if (mtx[id].owner >= 0) { me->hist = mix(me->hist, 0xb5); return EBUSY; }
    mtx[id].owner = me->id; vcJoin(me->vc, mtx[id].vc);
    return 0;
}

int pthread_mutex_unlock(pthread_mutex_t* m) {
    if (!sched::active()) { resolveAll(); return real_unlock(m); }
    g_stats.unlocks++;
    doUnlock(tls_me, getMtx(m));
    return 0;
}

int pthread_cond_wait(pthread_cond_t* c, pthread_mutex_t* m) {
    if (!sched::active()) { resolveAll(); return real_cwait(c, m); }
    Thr* me = tls_me;
    g_stats.waits++;
    int ci = getCnd(c), mi = getMtx(m);
    point(me, 0x40 + ci);
    doUnlock(me, mi);
    auto& w = cnd[ci].waiters;
    w.insert(std::upper_bound(w.begin(), w.end(), me->id), me->id);
    me->pend = OP_CONDWAITING; me->obj = ci; me->condMutex = mi;
    reschedule(me);
    return 0;
}

int pthread_cond_timedwait(pthread_cond_t* c, pthread_mutex_t* m, const struct timespec* ts) {
    if (!sched::active()) { resolveAll(); return real_ctwait(c, m, ts); }
    fatal("diverged", "pthread_cond_timedwait reached under the scheduler but is not modelled");
}
int pthread_cond_clockwait(pthread_cond_t* c, pthread_mutex_t* m, clockid_t ck, const struct timespec* ts) {
    if (!sched::active()) { resolveAll(); return real_ccwait(c, m, ck, ts); }
    fatal("diverged", "pthread_cond_clockwait reached under the scheduler but is not modelled");
}

static void wakeWaiter(int w, Thr* me) {
    (void)me;
    thr[w].pend = OP_LOCK; thr[w].obj = thr[w].condMutex;
}

int pthread_cond_signal(pthread_cond_t* c) {
    if (!sched::active()) { resolveAll(); return real_signal(c); }
    Thr* me = tls_me;
    g_stats.signals++;
    int ci = getCnd(c);
    point(me, 0x50 + ci);
    auto& w = cnd[ci].waiters;
    if (!w.empty()) {
        int k = (int)w.size();
        int idx = k > 1 ? nextChoice(k, false, false) : 0;
        int who = w[idx];
        w.erase(w.begin() + idx);
        wakeWaiter(who, me);
        me->hist = mix(me->hist, 0x500 + who);
    }
    return 0;
}

int pthread_cond_broadcast(pthread_cond_t* c) {
    if (!sched::active()) { resolveAll(); return real_broadcast(c); }
    Thr* me = tls_me;
    g_stats.broadcasts++;
    int ci = getCnd(c);
    point(me, 0x60 + ci);
    for (int who : cnd[ci].waiters) wakeWaiter(who, me);
    cnd[ci].waiters.clear();
    return 0;
}

}  // extern "C"
