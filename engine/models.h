// models.h -- shared multibody model alphabet (DESIGN.md §2.1) for C01-C10, C14, C15, C21, C43.
//
// Discrete dimensions the O(n) code branches on, enumerated completely:
//   KIND (mobilizer type incl. Custom / FunctionBased mirrors) x DIR (forward/reversed)
//   x FRAMES (the four <noX_MB,noR_PF> template specialisations) x COORD (quaternion/Euler)
//   x MASS x TOPOLOGY (chains and forks of <= 3 mobilized bodies, a few larger templates)
// Continuous values (q, u, frames, mass properties) come from fixed finite tables.
#ifndef VERIF_MODELS_H_
#define VERIF_MODELS_H_

#include "Simbody.h"
#include <memory>
#include <string>
#include <typeinfo>
#include <vector>

namespace mb {
using namespace SimTK;

enum Kind {
    KPin, KSlider, KUniversal, KCylinder, KBendStretch, KPlanar, KGimbal, KBushing, KBall, KFree,
    KLineOrientation, KFreeLine, KTranslation, KScrew, KSphericalDefault, KSphericalCustom,
    KEllipsoid, KCantilever, KWeld, KCustomPin, KCustomBall, KCustomTranslation, KFBPin, KFBPlanar,
    NKIND
};
inline const char* kindName(int k) {
    static const char* n[] = {"Pin", "Slider", "Universal", "Cylinder", "BendStretch", "Planar", "Gimbal", "Bushing", "Ball", "Free",
        "LineOrientation", "FreeLine", "Translation", "Screw", "SphericalDefault", "SphericalCustom",
        "Ellipsoid", "CantileverFreeBeam", "Weld", "CustomPin", "CustomBall", "CustomTranslation", "FBPin", "FBPlanar"};
    return (k >= 0 && k < NKIND) ? n[k] : "?";
}
inline bool kindHasQuaternion(int k) { return k == KBall || k == KFree || k == KLineOrientation || k == KFreeLine || k == KEllipsoid || k == KCustomBall; }
inline bool kindIsBuiltIn(int k) { return k < KCustomPin; }
// kinds for which Direction=Reverse is accepted by the constructor
inline bool kindReversible(int k) { return k != KWeld && k != KCustomPin && k != KCustomBall && k != KCustomTranslation; }

// ---------------------------------------------------------------- Custom mirrors (copied in spirit from the documented Custom API)
class CustomPinImpl : public MobilizedBody::Custom::Implementation {
public:
    explicit CustomPinImpl(SimbodyMatterSubsystem& m) : Implementation(m, 1, 1, 0) {}
    Implementation* clone() const override { return new CustomPinImpl(*this); }
    Transform calcMobilizerTransformFromQ(const State&, int, const Real* q) const override {
        return Transform(Rotation(q[0], ZAxis), Vec3(0));
    }
    SpatialVec multiplyByHMatrix(const State&, int, const Real* u) const override { return SpatialVec(Vec3(0, 0, u[0]), Vec3(0)); }
    void multiplyByHTranspose(const State&, const SpatialVec& F, int, Real* f) const override { f[0] = F[0][2]; }
    SpatialVec multiplyByHDotMatrix(const State&, int, const Real*) const override { return SpatialVec(Vec3(0), Vec3(0)); }
    void multiplyByHDotTranspose(const State&, const SpatialVec&, int, Real* f) const override { f[0] = 0; }
};
class CustomTranslationImpl : public MobilizedBody::Custom::Implementation {
public:
    explicit CustomTranslationImpl(SimbodyMatterSubsystem& m) : Implementation(m, 3, 3, 0) {}
    Implementation* clone() const override { return new CustomTranslationImpl(*this); }
    Transform calcMobilizerTransformFromQ(const State&, int, const Real* q) const override { return Transform(Vec3(q[0], q[1], q[2])); }
    SpatialVec multiplyByHMatrix(const State&, int, const Real* u) const override { return SpatialVec(Vec3(0), Vec3(u[0], u[1], u[2])); }
    void multiplyByHTranspose(const State&, const SpatialVec& F, int, Real* f) const override { Vec3::updAs(f) = F[1]; }
    SpatialVec multiplyByHDotMatrix(const State&, int, const Real*) const override { return SpatialVec(Vec3(0), Vec3(0)); }
    void multiplyByHDotTranspose(const State&, const SpatialVec&, int, Real* f) const override { Vec3::updAs(f) = Vec3(0); }
};
class CustomBallImpl : public MobilizedBody::Custom::Implementation {
public:
    explicit CustomBallImpl(SimbodyMatterSubsystem& m) : Implementation(m, 3, 4, 4) {}
    Implementation* clone() const override { return new CustomBallImpl(*this); }
    Transform calcMobilizerTransformFromQ(const State& s, int nq, const Real* q) const override {
        Transform t(Vec3(0));
        if (getUseEulerAngles(s)) t.updR().setRotationToBodyFixedXYZ(Vec3::getAs(q));
        else t.updR().setRotationFromQuaternion(Quaternion(Vec4::getAs(q)));
        return t;
    }
    SpatialVec multiplyByHMatrix(const State&, int, const Real* u) const override { return SpatialVec(Vec3(u[0], u[1], u[2]), Vec3(0)); }
    void multiplyByHTranspose(const State&, const SpatialVec& F, int, Real* f) const override { Vec3::updAs(f) = F[0]; }
    SpatialVec multiplyByHDotMatrix(const State&, int, const Real*) const override { return SpatialVec(Vec3(0), Vec3(0)); }
    void multiplyByHDotTranspose(const State&, const SpatialVec&, int, Real* f) const override { Vec3::updAs(f) = Vec3(0); }
    void multiplyByN(const State& s, bool transposeMatrix, int, const Real* in, int, Real* out) const override {
        const Vector q = getQ(s);
        if (getUseEulerAngles(s)) {
            Rotation R_FM; R_FM.setRotationToBodyFixedXYZ(Vec3::getAs(&q[0]));
            const Mat33 N = Rotation::calcNForBodyXYZInBodyFrame(Vec3::getAs(&q[0])) * ~R_FM;
            if (transposeMatrix) Row3::updAs(out) = Row3::getAs(in) * N; else Vec3::updAs(out) = N * Vec3::getAs(in);
        } else {
            const Mat43 N = Rotation::calcUnnormalizedNForQuaternion(Vec4::getAs(&q[0]));
            if (transposeMatrix) Row3::updAs(out) = Row4::getAs(in) * N; else Vec4::updAs(out) = N * Vec3::getAs(in);
        }
    }
    void multiplyByNInv(const State& s, bool transposeMatrix, int, const Real* in, int, Real* out) const override {
        const Vector q = getQ(s);
        if (getUseEulerAngles(s)) {
            Rotation R_FM; R_FM.setRotationToBodyFixedXYZ(Vec3::getAs(&q[0]));
            const Mat33 NInv = R_FM * Rotation::calcNInvForBodyXYZInBodyFrame(Vec3::getAs(&q[0]));
            if (transposeMatrix) Row3::updAs(out) = Row3::getAs(in) * NInv; else Vec3::updAs(out) = NInv * Vec3::getAs(in);
        } else {
            const Mat34 NInv = Rotation::calcUnnormalizedNInvForQuaternion(Vec4::getAs(&q[0]));
            if (transposeMatrix) Row4::updAs(out) = Row3::getAs(in) * NInv; else Vec3::updAs(out) = NInv * Vec4::getAs(in);
        }
    }
    void multiplyByNDot(const State& s, bool transposeMatrix, int, const Real* in, int, Real* out) const override {
        const Vector q = getQ(s);
        const Vector qdot = getQDot(s);
        if (getUseEulerAngles(s)) {
            // NDot * in = d/dt(N) * in where N = N_B(q) * ~R_FM ; computed from the library's rate helper with zero angular acceleration
            const Rotation& R_FM = getMobilizerTransform(s).R();
            SimTK_ASSERT_ALWAYS(!transposeMatrix, "CustomBall: NDot transpose not implemented");
            Vec3::updAs(out) = Rotation::convertAngVelDotInBodyFrameToBodyXYZDotDot(Vec3::getAs(&q[0]), ~R_FM * Vec3::getAs(in), Vec3(0));
        } else {
            SimTK_ASSERT_ALWAYS(!transposeMatrix, "CustomBall: NDot transpose not implemented");
            Vec4::updAs(out) = Rotation::convertAngVelDotToQuaternionDotDot(Vec4::getAs(&q[0]), Vec3::getAs(in), Vec3(0));
        }
    }
};

// ---------------------------------------------------------------- value tables
inline Transform frameTable(int i) {   // i: 0 identity, 1 rotated only, 2 translated only, 3 general
    switch (i) {
        case 1: return Transform(Rotation(BodyRotationSequence, 0.4, XAxis, -0.7, YAxis, 0.25, ZAxis), Vec3(0));
        case 2: return Transform(Vec3(0.3, -0.2, 0.5));
        case 3: return Transform(Rotation(BodyRotationSequence, -0.35, XAxis, 0.6, YAxis, -0.8, ZAxis), Vec3(-0.25, 0.4, 0.15));
        default: return Transform();
    }
}
inline Transform frameTableB(int i) {  // a second, different set (outboard frames)
    switch (i) {
        case 1: return Transform(Rotation(BodyRotationSequence, -0.5, XAxis, 0.3, YAxis, 0.9, ZAxis), Vec3(0));
        case 2: return Transform(Vec3(-0.15, 0.35, 0.2));
        case 3: return Transform(Rotation(BodyRotationSequence, 0.7, XAxis, 0.2, YAxis, -0.45, ZAxis), Vec3(0.2, -0.3, 0.1));
        default: return Transform();
    }
}
inline MassProperties massTable(int i) {
    switch (i) {
        case 1: return MassProperties(2.0, Vec3(0), Inertia(0.8, 1.1, 1.5));                       // central, diagonal
        case 2: return MassProperties(1.5, Vec3(0.05, -0.02, 0.03), UnitInertia(1e-4, 1.2e-4, 0.9e-4).shiftFromMassCenter(Vec3(0.05, -0.02, 0.03), 1) * 1.5);   // near point mass
        default: {  // generic: full inertia, offset mass centre
            const Real m = 1.3; const Vec3 com(0.1, -0.15, 0.2);
            Inertia central(0.9, 1.2, 1.4, 0.1, -0.07, 0.05);     // about COM, valid (diagonally dominant)
            return MassProperties(m, com, central.shiftFromMassCenter(com, m));
        }
    }
}

// ---------------------------------------------------------------- specification of one mobilized body
struct BodySpec {
    int kind = KPin;
    int dir = 0;        // 0 forward, 1 reversed
    int frames = 0;     // 0: X_BM=I,X_PF=I  1: X_BM=I,X_PF rotated  2: X_BM general, X_PF translated  3: general,general
    int mass = 0;
    int parent = -1;    // index of parent in the spec list, -1 = Ground
    std::string str() const {
        return std::string(kindName(kind)) + (dir ? "/rev" : "/fwd") + "/fr" + std::to_string(frames) + "/m" + std::to_string(mass) + "/p" + std::to_string(parent);
    }
};

struct Model {
    MultibodySystem system;
    SimbodyMatterSubsystem matter;
    GeneralForceSubsystem forces;
    std::vector<MobilizedBody> bodies;
    std::vector<BodySpec> specs;
    bool euler = false;
    Model() : matter(system), forces(system) {}
    std::string str() const { std::string s = euler ? "euler[" : "quat["; for (auto& b : specs) s += b.str() + " "; return s + "]"; }
};

inline void specFrames(const BodySpec& b, Transform& X_PF, Transform& X_BM) {
    switch (b.frames) {
        case 0: X_PF = Transform(); X_BM = Transform(); break;
        case 1: X_PF = frameTable(1); X_BM = Transform(); break;
        case 2: X_PF = frameTable(2); X_BM = frameTableB(3); break;
        default: X_PF = frameTable(3); X_BM = frameTableB(3); break;
    }
}

inline MobilizedBody addBody(Model& M, const BodySpec& b) {
    MobilizedBody& parent = b.parent < 0 ? (MobilizedBody&)M.matter.updGround() : M.bodies[b.parent];
    Body::Rigid body(massTable(b.mass));
    Transform X_PF, X_BM; specFrames(b, X_PF, X_BM);
    MobilizedBody::Direction d = b.dir ? MobilizedBody::Reverse : MobilizedBody::Forward;
    switch (b.kind) {
        case KPin: return MobilizedBody::Pin(parent, X_PF, body, X_BM, d);
        case KSlider: return MobilizedBody::Slider(parent, X_PF, body, X_BM, d);
        case KUniversal: return MobilizedBody::Universal(parent, X_PF, body, X_BM, d);
        case KCylinder: return MobilizedBody::Cylinder(parent, X_PF, body, X_BM, d);
        case KBendStretch: return MobilizedBody::BendStretch(parent, X_PF, body, X_BM, d);
        case KPlanar: return MobilizedBody::Planar(parent, X_PF, body, X_BM, d);
        case KGimbal: return MobilizedBody::Gimbal(parent, X_PF, body, X_BM, d);
        case KBushing: return MobilizedBody::Bushing(parent, X_PF, body, X_BM, d);
        case KBall: return MobilizedBody::Ball(parent, X_PF, body, X_BM, d);
        case KFree: return MobilizedBody::Free(parent, X_PF, body, X_BM, d);
        case KLineOrientation: return MobilizedBody::LineOrientation(parent, X_PF, body, X_BM, d);
        case KFreeLine: return MobilizedBody::FreeLine(parent, X_PF, body, X_BM, d);
        case KTranslation: return MobilizedBody::Translation(parent, X_PF, body, X_BM, d);
        case KScrew: return MobilizedBody::Screw(parent, X_PF, body, X_BM, 0.3, d);
        case KSphericalDefault: return MobilizedBody::SphericalCoords(parent, X_PF, body, X_BM, d);
        case KSphericalCustom: return MobilizedBody::SphericalCoords(parent, X_PF, body, X_BM, 0.2, true, -0.3, false, XAxis, true, d);
        case KEllipsoid: return MobilizedBody::Ellipsoid(parent, X_PF, body, X_BM, Vec3(0.5, 0.7, 0.9), d);
        case KCantilever: return MobilizedBody::CantileverFreeBeam(parent, X_PF, body, X_BM, 1.3, d);
        case KWeld: return MobilizedBody::Weld(parent, X_PF, body, X_BM);
        case KCustomPin: return MobilizedBody::Custom(parent, new CustomPinImpl(M.matter), X_PF, body, X_BM);
        case KCustomBall: return MobilizedBody::Custom(parent, new CustomBallImpl(M.matter), X_PF, body, X_BM);
        case KCustomTranslation: return MobilizedBody::Custom(parent, new CustomTranslationImpl(M.matter), X_PF, body, X_BM);
        case KFBPin: case KFBPlanar: {
            std::vector<const Function*> f; std::vector<std::vector<int> > ci;
            // order: x rot, y rot, z rot, x trans, y trans, z trans
            auto lin = [](int) { Vector c(2); c[0] = 1; c[1] = 0; return new Function::Linear(c); };
            auto zero = []() { return new Function::Constant(0, 0); };
            if (b.kind == KFBPin) {   // rotation about z by q0
                for (int i = 0; i < 6; ++i) { if (i == 2) { f.push_back(lin(0)); ci.push_back({0}); } else { f.push_back(zero()); ci.push_back({}); } }
                return MobilizedBody::FunctionBased(parent, X_PF, body, X_BM, 1, f, ci, d);
            } else {                  // planar: q0 = z rotation, q1 = x translation, q2 = y translation (translations in F)
                for (int i = 0; i < 6; ++i) {
                    if (i == 2) { f.push_back(lin(0)); ci.push_back({0}); }
                    else if (i == 3) { f.push_back(lin(0)); ci.push_back({1}); }
                    else if (i == 4) { f.push_back(lin(0)); ci.push_back({2}); }
                    else { f.push_back(zero()); ci.push_back({}); }
                }
                return MobilizedBody::FunctionBased(parent, X_PF, body, X_BM, 3, f, ci, d);
            }
        }
    }
    return MobilizedBody();
}

inline std::unique_ptr<Model> build(const std::vector<BodySpec>& specs, bool euler) {
    std::unique_ptr<Model> M(new Model());
    M->specs = specs; M->euler = euler;
    for (auto& b : specs) M->bodies.push_back(addBody(*M, b));
    return M;
}

// ---------------------------------------------------------------- states
// stateKind: 0 "zero" (default q with singular defaults moved off the singularity, u=0)
//            1 generic q,u   2 large-angle q, generic u   3 generic q, u=0
// valueSet in {0,1,2} selects one of three fixed generic value tables.
inline Real qv(int valueSet, int i) {
    static const Real t[3][8] = {
        {0.30, -0.50, 0.70, -0.20, 0.40, 0.60, -0.35, 0.25},
        {-0.45, 0.35, -0.25, 0.55, -0.65, 0.20, 0.50, -0.30},
        {0.62, 0.18, -0.58, -0.42, 0.27, -0.33, 0.48, 0.71}};
    return t[valueSet % 3][i % 8];
}
inline Real uv(int valueSet, int i) {
    static const Real t[3][8] = {
        {0.50, -0.80, 1.10, -0.40, 0.90, -1.30, 0.70, -0.60},
        {-0.70, 0.45, -0.95, 1.20, 0.35, -0.55, -1.05, 0.80},
        {1.15, 0.65, -0.30, -0.85, -1.25, 0.40, 0.95, -0.50}};
    return t[valueSet % 3][i % 8];
}
inline Vec4 quatTable(int valueSet, bool large) {
    static const Vec4 g[3] = {Vec4(0.8, 0.3, -0.4, 0.33), Vec4(0.7, -0.45, 0.25, -0.5), Vec4(0.85, 0.2, 0.35, -0.3)};
    static const Vec4 l[3] = {Vec4(0.3, 0.8, -0.4, 0.33), Vec4(-0.25, 0.45, 0.7, -0.5), Vec4(0.2, -0.85, 0.35, 0.3)};   // rotation angle > 2.4 rad
    Vec4 q = large ? l[valueSet % 3] : g[valueSet % 3];
    return q / q.norm();
}

// Fill the q's of one mobilizer.  Angles are kept >= 0.3 rad from the singularities the docs name.
inline void setBodyQ(const Model& M, State& s, int bi, int stateKind, int valueSet) {
    const MobilizedBody& mobod = M.bodies[bi];
    const int kind = M.specs[bi].kind;
    const int nq = mobod.getNumQ(s);
    if (nq == 0) return;
    const bool large = stateKind == 2;
    const bool zero = stateKind == 0;
    Vector q(nq);
    for (int i = 0; i < nq; ++i) q[i] = zero ? 0 : (large && i == 0 ? 2.5 : qv(valueSet, i + 2 * bi));
    const bool quat = kindHasQuaternion(kind) && !M.euler;
    auto putQuat = [&](int at) { Vec4 v = zero ? Vec4(1, 0, 0, 0) : quatTable(valueSet + bi, large); for (int i = 0; i < 4; ++i) q[at + i] = v[i]; };
    switch (kind) {
        case KBall: case KEllipsoid: case KLineOrientation: case KCustomBall:
            if (quat) putQuat(0);
            else if (!zero) { q[1] = large ? 0.9 : q[1]; }   // Euler option: middle angle stays away from +-pi/2
            break;
        case KFree: case KFreeLine:
            if (quat) { putQuat(0); if (!zero) for (int i = 4; i < nq; ++i) q[i] = qv(valueSet, i + bi); }
            else if (!zero) { q[1] = large ? 0.9 : q[1]; }
            break;
        case KGimbal: case KBushing:
            if (!zero) q[1] = large ? 0.9 : q[1];              // |q1| < pi/2 - 0.3
            break;
        case KBendStretch:
            q[1] = zero ? 0.8 : 0.6 + std::abs(q[1]);          // stretch must be nonzero (polar singularity)
            break;
        case KSphericalDefault: case KSphericalCustom:
            q[1] = zero ? 0.7 : 0.5 + std::abs(qv(valueSet, 1 + bi)) * 0.8;    // zenith away from 0 and pi
            if (kind == KSphericalCustom) q[1] += 0.3;          // compensate the -0.3 zenith offset
            q[2] = zero ? 0.9 : 0.6 + std::abs(q[2]);          // radius nonzero
            break;
        case KUniversal:
            if (large) { q[0] = 2.5; q[1] = 0.9; }
            break;
        default: break;
    }
    mobod.setQFromVector(s, q);
}
inline void setBodyU(const Model& M, State& s, int bi, int stateKind, int valueSet) {
    const MobilizedBody& mobod = M.bodies[bi];
    const int nu = mobod.getNumU(s);
    if (nu == 0) return;
    Vector u(nu);
    for (int i = 0; i < nu; ++i) u[i] = (stateKind == 0 || stateKind == 3) ? 0 : uv(valueSet, i + 3 * bi);
    mobod.setUFromVector(s, u);
}
// returns a realized-to-Model state with the requested coordinate option and values
inline State makeState(Model& M, int stateKind, int valueSet) {
    M.system.realizeTopology();
    State s = M.system.getDefaultState();
    M.matter.setUseEulerAngles(s, M.euler);
    M.system.realizeModel(s);
    for (int b = 0; b < (int)M.bodies.size(); ++b) { setBodyQ(M, s, b, stateKind, valueSet); setBodyU(M, s, b, stateKind, valueSet); }
    return s;
}

// ---------------------------------------------------------------- enumeration levels
// companions used as neighbours in level A
inline BodySpec companion(int c) {
    BodySpec b;
    switch (c) { case 0: b.kind = KPin; b.frames = 3; break; case 1: b.kind = KBall; b.frames = 3; break; default: b.kind = KFree; b.frames = 0; break; }
    b.mass = c % 3;
    return b;
}
// all (kind,dir) variants that exist
inline std::vector<std::pair<int, int> > kindDirs() {
    std::vector<std::pair<int, int> > v;
    for (int k = 0; k < NKIND; ++k) { v.push_back({k, 0}); if (kindReversible(k)) v.push_back({k, 1}); }
    return v;
}
// Level A: variant (kind,dir,frames) placed as base / middle / tip of a 3-chain with companions (c1,c2) in {Pin,Ball,Free}^2,
// or (role 3) as a branch of a fork.  index space: variant x frames(4) x role(4) x c1(3) x c2(3)
struct LevelA {
    std::vector<std::pair<int, int> > kd = kindDirs();
    int64_t size() const { return (int64_t)kd.size() * 4 * 4 * 3 * 3; }
    std::vector<BodySpec> specs(int64_t idx, int massSel = 0) const {
        int c2 = idx % 3; idx /= 3; int c1 = idx % 3; idx /= 3; int role = idx % 4; idx /= 4; int fr = idx % 4; idx /= 4;
        BodySpec v; v.kind = kd[idx].first; v.dir = kd[idx].second; v.frames = fr; v.mass = massSel;
        BodySpec a = companion(c1), b = companion(c2);
        std::vector<BodySpec> s;
        if (role == 0) { v.parent = -1; a.parent = 0; b.parent = 1; s = {v, a, b}; }
        else if (role == 1) { a.parent = -1; v.parent = 0; b.parent = 1; s = {a, v, b}; }
        else if (role == 2) { a.parent = -1; b.parent = 0; v.parent = 1; s = {a, b, v}; }
        else { a.parent = -1; v.parent = 0; b.parent = 0; s = {a, v, b}; }     // fork: a has children v and b
        return s;
    }
};
// Level B: all ordered parent->child pairs kind^2 x dir^2 x frames in {0,3}^2
struct LevelB {
    std::vector<std::pair<int, int> > kd = kindDirs();
    int64_t size() const { return (int64_t)kd.size() * kd.size() * 4; }
    std::vector<BodySpec> specs(int64_t idx, int massSel = 0) const {
        int f2 = idx % 2; idx /= 2; int f1 = idx % 2; idx /= 2; int k2 = idx % kd.size(); idx /= kd.size(); int k1 = (int)idx;
        BodySpec a, b; a.kind = kd[k1].first; a.dir = kd[k1].second; a.frames = f1 ? 3 : 0; a.mass = massSel; a.parent = -1;
        b.kind = kd[k2].first; b.dir = kd[k2].second; b.frames = f2 ? 3 : 0; b.mass = (massSel + 1) % 3; b.parent = 0;
        return {a, b};
    }
};
// Level C: all triples over 8 code families in chain and fork x dir^3
struct LevelC {
    int fam[8] = {KPin, KSlider, KBall, KFree, KUniversal, KPlanar, KEllipsoid, KWeld};
    int64_t size() const { return 8 * 8 * 8 * 2 * 8; }
    std::vector<BodySpec> specs(int64_t idx, int massSel = 0) const {
        int dirs = idx % 8; idx /= 8; int fork = idx % 2; idx /= 2; int k3 = idx % 8; idx /= 8; int k2 = idx % 8; idx /= 8; int k1 = (int)idx;
        BodySpec a, b, c; a.kind = fam[k1]; b.kind = fam[k2]; c.kind = fam[k3];
        a.dir = (dirs & 1) && kindReversible(a.kind); b.dir = ((dirs >> 1) & 1) && kindReversible(b.kind); c.dir = ((dirs >> 2) & 1) && kindReversible(c.kind);
        a.frames = 3; b.frames = 1; c.frames = 2; a.mass = massSel; b.mass = (massSel + 1) % 3; c.mass = (massSel + 2) % 3;
        a.parent = -1; b.parent = 0; c.parent = fork ? 0 : 1;
        return {a, b, c};
    }
};

// Level G: forests -- the variant and a companion BOTH attached to Ground (in either creation order), plus a child of
// the companion.  Needed for code that special-cases Ground-attached terminal bodies (the lone-particle fast path of
// Translation) and for index arithmetic that differs when an earlier mobilizer has nq != nu.
// index space: variant x frames(4) x c1(3) x order(2) x c2(3)
struct LevelG {
    std::vector<std::pair<int, int> > kd = kindDirs();
    int64_t size() const { return (int64_t)kd.size() * 4 * 3 * 2 * 3; }
    std::vector<BodySpec> specs(int64_t idx, int massSel = 0) const {
        int c2 = idx % 3; idx /= 3; int order = idx % 2; idx /= 2; int c1 = idx % 3; idx /= 3; int fr = idx % 4; idx /= 4;
        BodySpec v; v.kind = kd[idx].first; v.dir = kd[idx].second; v.frames = fr; v.mass = massSel; v.parent = -1;
        BodySpec a = companion(c1), b = companion(c2); a.parent = -1;
        if (order == 0) { b.parent = 0; return {a, v, b}; }      // companion first, then the variant on Ground, then a child of the companion
        b.parent = 1; return {v, a, b};                          // variant first
    }
};

// name of the RigidBodyNode instantiation behind a mobilized body (vacuity guard: which code variants were reached)
std::string nodeTypeName(const Model& M, int bi);

}  // namespace mb
#endif
