// models.h -- shared multibody model alphabet (DESIGN.md §2.1) for C01-C10, C14, C15, C21, C43.
//
// Discrete dimensions the O(n) code branches on, enumerated completely:
//   KIND (mobilizer type incl. Custom / FunctionBased mirrors of built-ins with a CONSTANT hinge matrix, FunctionBased
//   mobilizers with NONLINEAR coordinate functions for every mobility count 1..6 and a Custom mobilizer whose hinge
//   matrix depends on q -- H(q), HDot != 0) x DIR (forward/reversed)
//   x FRAMES (the four <noX_MB,noR_PF> template specialisations; sections of single Ground-attached bodies also take
//   the four "one part only" frame pairs that distinguish the conjuncts of the flag tests) x COORD (quaternion/Euler)
//   x MASS x TOPOLOGY (chains and forks of <= 3 mobilized bodies, a few larger templates)
// Continuous values (q, u, frames, mass properties) come from fixed finite tables.
#ifndef VERIF_MODELS_H_
#define VERIF_MODELS_H_

#include "Simbody.h"
#include <cmath>
#include <limits>
#include <memory>
#include <string>
#include <typeinfo>
#include <vector>

namespace mb {
using namespace SimTK;

enum Kind {
    KPin, KSlider, KUniversal, KCylinder, KBendStretch, KPlanar, KGimbal, KBushing, KBall, KFree,
    KLineOrientation, KFreeLine, KTranslation, KScrew, KSphericalDefault, KSphericalCustom,
    KEllipsoid, KCantilever, KWeld, KCustomPin, KCustomBall, KCustomTranslation, KFBPin, KFBPlanar,
    // user-defined mobilizers whose hinge matrix depends on q (HDot != 0): FunctionBased with nonlinear coordinate functions
    // and 1..6 mobilities (rotation functions of one coordinate each, translation functions of several), Custom "helix slider"
    KFBN1, KFBN2, KFBN3, KFBN4, KFBN5, KFBN6, KCustomHelix,
    NKIND,
    // user-defined mobilizers that the documentation allows / recommends but the unchanged library gets wrong (notes/C02.md, notes/C03.md);
    // NOT part of kindDirs(): enumerated only by the harness whose property they violate (defectKindDirs())
    KFBCoupled3 = NKIND,   // every rotation function depends on two coordinates
    KFBConstRot2,          // a non-zero CONSTANT x-rotation function in front of two coordinate-driven rotations
    KCustomHelixPrecalc,   // the helix slider with H / HDot precalculated in realizePosition() / realizeVelocity(), as MobilizedBody_Custom.h suggests
    NKIND_ALL
};
inline const char* kindName(int k) {
    static const char* n[] = {"Pin", "Slider", "Universal", "Cylinder", "BendStretch", "Planar", "Gimbal", "Bushing", "Ball", "Free",
        "LineOrientation", "FreeLine", "Translation", "Screw", "SphericalDefault", "SphericalCustom",
        "Ellipsoid", "CantileverFreeBeam", "Weld", "CustomPin", "CustomBall", "CustomTranslation", "FBPin", "FBPlanar",
        "FBN1", "FBN2", "FBN3", "FBN4", "FBN5", "FBN6", "CustomHelix", "FBCoupled3", "FBConstRot2", "CustomHelixPrecalc"};
    return (k >= 0 && k < NKIND_ALL) ? n[k] : "?";
}
inline bool kindHasQuaternion(int k) { return k == KBall || k == KFree || k == KLineOrientation || k == KFreeLine || k == KEllipsoid || k == KCustomBall; }
inline bool kindIsBuiltIn(int k) { return k < KCustomPin; }
// kinds for which Direction=Reverse is accepted by the constructor
// (the three Custom mirrors are kept forward-only; the newer user-defined kinds are built in both directions)
inline bool kindReversible(int k) { return k != KWeld && k != KCustomPin && k != KCustomBall && k != KCustomTranslation; }
// user-defined kinds with a q-dependent hinge matrix (added after the mirrors)
inline bool kindIsNonlinearUserDefined(int k) { return k >= KFBN1 && k < NKIND_ALL; }
inline bool kindIsFunctionBasedNonlinear(int k) { return (k >= KFBN1 && k <= KFBN6) || k == KFBCoupled3 || k == KFBConstRot2; }
inline bool kindIsDefectExposing(int k) { return k == KFBCoupled3 || k == KFBConstRot2 || k == KCustomHelixPrecalc; }

// ---------------------------------------------------------------- Custom mirrors (copied in spirit from the documented Custom API)
class CustomPinImpl : public MobilizedBody::Custom::Implementation {
public:
    explicit CustomPinImpl(SimbodyMatterSubsystem& m) : Implementation(m, 1, 1, 0) {}
    Implementation* clone() const override { return new CustomPinImpl(*this); }
    Transform calcMobilizerTransformFromQ(const State&, int, const Real* q) const override {
        return Transform(Rotation(q[0], ZAxis), Vec3(0));
    }
    SpatialVec multiplyByHMatrix(const State&, int, const Real* u) const override { return SpatialVec(Vec3(0, 0, u[0]), Vec3(0)); }
    void multiplyByHTranspose(const State&, const SpatialVec& F, int, Real* f) const override { f[0] = F[0][2]; }
    SpatialVec multiplyByHDotMatrix(const State&, int, const Real*) const override { return SpatialVec(Vec3(0), Vec3(0)); }
    void multiplyByHDotTranspose(const State&, const SpatialVec&, int, Real* f) const override { f[0] = 0; }
};
class CustomTranslationImpl : public MobilizedBody::Custom::Implementation {
public:
    explicit CustomTranslationImpl(SimbodyMatterSubsystem& m) : Implementation(m, 3, 3, 0) {}
    Implementation* clone() const override { return new CustomTranslationImpl(*this); }
    Transform calcMobilizerTransformFromQ(const State&, int, const Real* q) const override { return Transform(Vec3(q[0], q[1], q[2])); }
    SpatialVec multiplyByHMatrix(const State&, int, const Real* u) const override { return SpatialVec(Vec3(0), Vec3(u[0], u[1], u[2])); }
    void multiplyByHTranspose(const State&, const SpatialVec& F, int, Real* f) const override { Vec3::updAs(f) = F[1]; }
    SpatialVec multiplyByHDotMatrix(const State&, int, const Real*) const override { return SpatialVec(Vec3(0), Vec3(0)); }
    void multiplyByHDotTranspose(const State&, const SpatialVec&, int, Real* f) const override { Vec3::updAs(f) = Vec3(0); }
};
class CustomBallImpl : public MobilizedBody::Custom::Implementation {
public:
    explicit CustomBallImpl(SimbodyMatterSubsystem& m) : Implementation(m, 3, 4, 4) {}
    Implementation* clone() const override { return new CustomBallImpl(*this); }
    Transform calcMobilizerTransformFromQ(const State& s, int nq, const Real* q) const override {
        Transform t(Vec3(0));
        if (getUseEulerAngles(s)) t.updR().setRotationToBodyFixedXYZ(Vec3::getAs(q));
        else t.updR().setRotationFromQuaternion(Quaternion(Vec4::getAs(q)));
        return t;
    }
    SpatialVec multiplyByHMatrix(const State&, int, const Real* u) const override { return SpatialVec(Vec3(u[0], u[1], u[2]), Vec3(0)); }
    void multiplyByHTranspose(const State&, const SpatialVec& F, int, Real* f) const override { Vec3::updAs(f) = F[0]; }
    SpatialVec multiplyByHDotMatrix(const State&, int, const Real*) const override { return SpatialVec(Vec3(0), Vec3(0)); }
    void multiplyByHDotTranspose(const State&, const SpatialVec&, int, Real* f) const override { Vec3::updAs(f) = Vec3(0); }
    void multiplyByN(const State& s, bool transposeMatrix, int, const Real* in, int, Real* out) const override {
        const Vector q = getQ(s);
        if (getUseEulerAngles(s)) {
            Rotation R_FM; R_FM.setRotationToBodyFixedXYZ(Vec3::getAs(&q[0]));
            const Mat33 N = Rotation::calcNForBodyXYZInBodyFrame(Vec3::getAs(&q[0])) * ~R_FM;
            if (transposeMatrix) Row3::updAs(out) = Row3::getAs(in) * N; else Vec3::updAs(out) = N * Vec3::getAs(in);
        } else {
            const Mat43 N = Rotation::calcUnnormalizedNForQuaternion(Vec4::getAs(&q[0]));
            if (transposeMatrix) Row3::updAs(out) = Row4::getAs(in) * N; else Vec4::updAs(out) = N * Vec3::getAs(in);
        }
    }
    void multiplyByNInv(const State& s, bool transposeMatrix, int, const Real* in, int, Real* out) const override {
        const Vector q = getQ(s);
        if (getUseEulerAngles(s)) {
            Rotation R_FM; R_FM.setRotationToBodyFixedXYZ(Vec3::getAs(&q[0]));
            const Mat33 NInv = R_FM * Rotation::calcNInvForBodyXYZInBodyFrame(Vec3::getAs(&q[0]));
            if (transposeMatrix) Row3::updAs(out) = Row3::getAs(in) * NInv; else Vec3::updAs(out) = NInv * Vec3::getAs(in);
        } else {
            const Mat34 NInv = Rotation::calcUnnormalizedNInvForQuaternion(Vec4::getAs(&q[0]));
            if (transposeMatrix) Row4::updAs(out) = Row3::getAs(in) * NInv; else Vec3::updAs(out) = NInv * Vec4::getAs(in);
        }
    }
    void multiplyByNDot(const State& s, bool transposeMatrix, int, const Real* in, int, Real* out) const override {
        const Vector q = getQ(s);
        const Vector qdot = getQDot(s);
        if (getUseEulerAngles(s)) {
            // NDot * in = d/dt(N) * in where N = N_B(q) * ~R_FM ; computed from the library's rate helper with zero angular acceleration
            const Rotation& R_FM = getMobilizerTransform(s).R();
            SimTK_ASSERT_ALWAYS(!transposeMatrix, "CustomBall: NDot transpose not implemented");
            Vec3::updAs(out) = Rotation::convertAngVelDotInBodyFrameToBodyXYZDotDot(Vec3::getAs(&q[0]), ~R_FM * Vec3::getAs(in), Vec3(0));
        } else {
            SimTK_ASSERT_ALWAYS(!transposeMatrix, "CustomBall: NDot transpose not implemented");
            Vec4::updAs(out) = Rotation::convertAngVelDotToQuaternionDotDot(Vec4::getAs(&q[0]), Vec3::getAs(in), Vec3(0));
        }
    }
};

// ---------------------------------------------------------------- user-defined mobilizers with a q-dependent hinge matrix
// (1) Custom "helix slider", 2 mobilities.  Documented here (this comment is the mobilizer's documentation; C05 checks the
//     library-computed pose against refMobilizerTransform below, which is written separately from the Implementation):
//       q0 = angle phi about the common z axis, q1 = radial travel;  R_FM = Rz(phi),
//       p_FM = ( (R0+q1) cos phi, (R0+q1) sin phi, PITCH*phi )   i.e. M's origin runs on a helix of variable radius and M's
//       x axis stays radial;  qdot = u.
//     As the Custom API asks, H and HDot are computed from X_FM and V_FM (getMobilizerTransform / getMobilizerVelocity, which
//     must return the AS-DEFINED quantities when the mobilizer is reversed), never from q directly:
//       H    = [ z , 0 ; z x p + PITCH z , x_M ]          HDot = [ 0 , 0 ; z x v_FM , w_FM x x_M ]
class CustomHelixImpl : public MobilizedBody::Custom::Implementation {
public:
    static Real R0() { return 0.9; }
    static Real PITCH() { return 0.25; }
    explicit CustomHelixImpl(SimbodyMatterSubsystem& m) : Implementation(m, 2, 2, 1) {}
    Implementation* clone() const override { return new CustomHelixImpl(*this); }
    Transform calcMobilizerTransformFromQ(const State&, int, const Real* q) const override {
        const Real r = R0() + q[1];
        return Transform(Rotation(q[0], ZAxis), Vec3(r * std::cos(q[0]), r * std::sin(q[0]), PITCH() * q[0]));
    }
    SpatialVec multiplyByHMatrix(const State& s, int, const Real* u) const override {
        const Transform X = getMobilizerTransform(s); const Vec3 z(0, 0, 1);
        return SpatialVec(u[0] * z, u[0] * (z % X.p() + PITCH() * z) + u[1] * Vec3(X.x()));
    }
    void multiplyByHTranspose(const State& s, const SpatialVec& F, int, Real* f) const override {
        const Transform X = getMobilizerTransform(s); const Vec3 z(0, 0, 1);
        f[0] = ~z * F[0] + ~(z % X.p() + PITCH() * z) * F[1];
        f[1] = ~Vec3(X.x()) * F[1];
    }
    SpatialVec multiplyByHDotMatrix(const State& s, int, const Real* u) const override {
        const Transform X = getMobilizerTransform(s); const SpatialVec V = getMobilizerVelocity(s); const Vec3 z(0, 0, 1);
        return SpatialVec(Vec3(0), u[0] * (z % V[1]) + u[1] * (V[0] % Vec3(X.x())));
    }
    void multiplyByHDotTranspose(const State& s, const SpatialVec& F, int, Real* f) const override {
        const Transform X = getMobilizerTransform(s); const SpatialVec V = getMobilizerVelocity(s); const Vec3 z(0, 0, 1);
        f[0] = ~(z % V[1]) * F[1];
        f[1] = ~(V[0] % Vec3(X.x())) * F[1];
    }
    // closed-form fits (the default implementation runs an optimizer): nearest representable pose / velocity
    void setQToFitTransform(const State&, const Transform& X_FM, int, Real* q) const override {
        q[0] = std::atan2(X_FM.R()[1][0], X_FM.R()[0][0]);
        q[1] = X_FM.p()[0] * std::cos(q[0]) + X_FM.p()[1] * std::sin(q[0]) - R0();
    }
    void setUToFitVelocity(const State& s, const SpatialVec& V_FM, int, Real* u) const override {
        const Transform X = getMobilizerTransform(s);
        u[0] = V_FM[0][2]; u[1] = ~Vec3(X.x()) * V_FM[1];
    }
};

// (1b) The same mobilizer written the way MobilizedBody_Custom.h recommends ("the Position and Velocity realize methods will be called
//     before calling the matrix operator methods for this MobilizedBody. That way if you want to precalculate the H or HDot matrix, for
//     example, you can do so in realizePosition() or realizeVelocity() and then use it in multiplyByHMatrix(), etc."): H and HDot are
//     stored in two State cache entries by realizePosition() / realizeVelocity() and only read by the operators.  The entries start
//     with H(q=0), HDot=0 and are read without a stage check (a stage-checked read throws during the first realize(Position), because
//     the unchanged library runs the position kinematics -- and with them multiplyByHMatrix -- BEFORE Implementation::realizePosition()).
class CustomHelixPrecalcImpl : public CustomHelixImpl {
public:
    typedef Vec<2, SpatialVec> HM;
    explicit CustomHelixPrecalcImpl(SimbodyMatterSubsystem& m) : CustomHelixImpl(m), sub(m.getMySubsystemIndex()) {}
    Implementation* clone() const override { return new CustomHelixPrecalcImpl(*this); }
    void realizeTopology(State& s) const override {
        const HM h0(SpatialVec(Vec3(0, 0, 1), Vec3(0, R0(), PITCH())), SpatialVec(Vec3(0), Vec3(1, 0, 0)));     // H at q = 0
        hIx = s.allocateCacheEntry(sub, Stage::Position, new Value<HM>(h0));
        hdIx = s.allocateCacheEntry(sub, Stage::Velocity, new Value<HM>(HM(SpatialVec(Vec3(0), Vec3(0)))));
    }
    void realizePosition(const State& s) const override {
        HM& h = Value<HM>::updDowncast(s.updCacheEntry(sub, hIx)).upd();
        const Real e0[2] = {1, 0}, e1[2] = {0, 1};
        h[0] = CustomHelixImpl::multiplyByHMatrix(s, 2, e0); h[1] = CustomHelixImpl::multiplyByHMatrix(s, 2, e1);
        s.markCacheValueRealized(sub, hIx);
    }
    void realizeVelocity(const State& s) const override {
        HM& h = Value<HM>::updDowncast(s.updCacheEntry(sub, hdIx)).upd();
        const Real e0[2] = {1, 0}, e1[2] = {0, 1};
        h[0] = CustomHelixImpl::multiplyByHDotMatrix(s, 2, e0); h[1] = CustomHelixImpl::multiplyByHDotMatrix(s, 2, e1);
        s.markCacheValueRealized(sub, hdIx);
    }
    SpatialVec multiplyByHMatrix(const State& s, int, const Real* u) const override { const HM& h = H(s); return u[0] * h[0] + u[1] * h[1]; }
    void multiplyByHTranspose(const State& s, const SpatialVec& F, int, Real* f) const override { const HM& h = H(s); f[0] = ~h[0] * F; f[1] = ~h[1] * F; }
    SpatialVec multiplyByHDotMatrix(const State& s, int, const Real* u) const override { const HM& h = HD(s); return u[0] * h[0] + u[1] * h[1]; }
    void multiplyByHDotTranspose(const State& s, const SpatialVec& F, int, Real* f) const override { const HM& h = HD(s); f[0] = ~h[0] * F; f[1] = ~h[1] * F; }
private:
    const HM& H(const State& s) const { return Value<HM>::downcast(s.updCacheEntry(sub, hIx)).get(); }
    const HM& HD(const State& s) const { return Value<HM>::downcast(s.updCacheEntry(sub, hdIx)).get(); }
    SubsystemIndex sub; mutable CacheEntryIndex hIx, hdIx;
};

// (2) FunctionBased with nonlinear coordinate functions.  One table (FnSpec) describes each of the six functions; it is turned
//     into library Function objects (Function::Constant / Linear / Polynomial / Sinusoid, and SmoothFn below for several
//     arguments) by makeFunction(), and evaluated INDEPENDENTLY in long double by refFunction() for the reference pose.
struct FnSpec {
    char type = 'K';         // 'K' constant c | 'L' Function::Linear  c + sum a_k x_k | 'P' Function::Polynomial, a[0..np) in decreasing powers
                             // 'S' Function::Sinusoid a[0]*sin(a[1]*x + a[2]) | 'N' SmoothFn  c + sum_k (a_k x_k + s_k sin(x_k + p_k)) + d sum_{k<l} x_k x_l
    int nargs = 0; int args[3] = {0, 0, 0};       // which of the mobilizer's q's are the arguments, in order
    double c = 0, a[3] = {0, 0, 0}, s[3] = {0, 0, 0}, p[3] = {0, 0, 0}, d = 0; int np = 0;
};
inline FnSpec fnK(double c) { FnSpec f; f.type = 'K'; f.c = c; return f; }
inline FnSpec fnL(std::vector<int> args, std::vector<double> a, double c) { FnSpec f; f.type = 'L'; f.nargs = (int)args.size(); for (int i = 0; i < f.nargs; ++i) { f.args[i] = args[i]; f.a[i] = a[i]; } f.c = c; return f; }
inline FnSpec fnP(int arg, std::vector<double> coef) { FnSpec f; f.type = 'P'; f.nargs = 1; f.args[0] = arg; f.np = (int)coef.size(); for (int i = 0; i < f.np; ++i) f.a[i] = coef[i]; return f; }
inline FnSpec fnS(int arg, double amp, double w, double ph) { FnSpec f; f.type = 'S'; f.nargs = 1; f.args[0] = arg; f.a[0] = amp; f.a[1] = w; f.a[2] = ph; return f; }
inline FnSpec fnN(std::vector<int> args, double c, std::vector<double> a, std::vector<double> s, std::vector<double> p, double d) {
    FnSpec f; f.type = 'N'; f.nargs = (int)args.size(); f.c = c; f.d = d;
    for (int i = 0; i < f.nargs; ++i) { f.args[i] = args[i]; f.a[i] = a[i]; f.s[i] = s[i]; f.p[i] = p[i]; }
    return f;
}
// smooth multi-argument function with exact derivatives of every order
class SmoothFn : public Function {
public:
    explicit SmoothFn(const FnSpec& f) : f(f) {}
    Real calcValue(const Vector& x) const override {
        Real v = f.c;
        for (int k = 0; k < f.nargs; ++k) v += f.a[k] * x[k] + f.s[k] * std::sin(x[k] + f.p[k]);
        for (int k = 0; k < f.nargs; ++k) for (int l = k + 1; l < f.nargs; ++l) v += f.d * x[k] * x[l];
        return v;
    }
    Real calcDerivative(const Array_<int>& dc, const Vector& x) const override {
        const int n = (int)dc.size();
        if (n == 1) { const int k = dc[0]; Real v = f.a[k] + f.s[k] * std::cos(x[k] + f.p[k]); for (int l = 0; l < f.nargs; ++l) if (l != k) v += f.d * x[l]; return v; }
        bool same = true; for (int i = 1; i < n; ++i) if (dc[i] != dc[0]) same = false;
        if (n == 2 && !same) return f.d;
        if (!same) return 0;
        const int k = dc[0];
        return f.s[k] * std::sin(x[k] + f.p[k] + n * (Pi / 2));      // n-th derivative of sin
    }
    int getArgumentSize() const override { return f.nargs; }
    int getMaxDerivativeOrder() const override { return std::numeric_limits<int>::max(); }
    SmoothFn* clone() const override { return new SmoothFn(*this); }
private:
    FnSpec f;
};
inline Function* makeFunction(const FnSpec& f) {
    switch (f.type) {
        case 'L': { Vector c(f.nargs + 1); for (int i = 0; i < f.nargs; ++i) c[i] = f.a[i]; c[f.nargs] = f.c; return new Function::Linear(c); }
        case 'P': { Vector c(f.np); for (int i = 0; i < f.np; ++i) c[i] = f.a[i]; return new Function::Polynomial(c); }
        case 'S': return new Function::Sinusoid(f.a[0], f.a[1], f.a[2]);
        case 'N': return new SmoothFn(f);
        default: return new Function::Constant(f.c, 0);
    }
}
// independent evaluation (long double, written from the formulas in the FnSpec comment, not from the classes above)
inline long double refFunction(const FnSpec& f, const long double* q) {
    long double x[3] = {0, 0, 0}; for (int k = 0; k < f.nargs; ++k) x[k] = q[f.args[k]];
    switch (f.type) {
        case 'L': { long double v = f.c; for (int k = 0; k < f.nargs; ++k) v += (long double)f.a[k] * x[k]; return v; }
        case 'P': { long double v = 0; for (int i = 0; i < f.np; ++i) v += (long double)f.a[i] * powl(x[0], (long double)(f.np - 1 - i)); return v; }
        case 'S': return (long double)f.a[0] * sinl((long double)f.a[1] * x[0] + (long double)f.a[2]);
        case 'N': { long double v = f.c;
            for (int k = 0; k < f.nargs; ++k) v += (long double)f.a[k] * x[k] + (long double)f.s[k] * sinl(x[k] + (long double)f.p[k]);
            for (int k = 0; k < f.nargs; ++k) for (int l = k + 1; l < f.nargs; ++l) v += (long double)f.d * x[k] * x[l];
            return v; }
        default: return f.c;
    }
}
struct FBSpec {
    int nm = 0; FnSpec f[6];      // order (documented): x rotation, y rotation, z rotation, x translation, y translation, z translation
    bool customAxes = false; double axes[6][3] = {{1, 0, 0}, {0, 1, 0}, {0, 0, 1}, {1, 0, 0}, {0, 1, 0}, {0, 0, 1}};   // not normalised
};
inline void fbCustomAxes(FBSpec& S) {
    static const double A[6][3] = {{1, 0.2, 0}, {0, 1, 0.3}, {0.1, 0, 1}, {1, 0, 0.4}, {0.2, 1, 0}, {0, -0.3, 1}};
    S.customAxes = true; for (int i = 0; i < 6; ++i) for (int j = 0; j < 3; ++j) S.axes[i][j] = A[i][j];
}
// The rotation functions of FBN1..FBN6 take ONE coordinate each (x rotation <- q0, y rotation <- q1, z rotation <- q2 resp. the
// next free coordinate), which is the only arrangement whose HDot the unchanged library computes correctly; the translation
// functions couple several coordinates.  All functions are smooth with derivatives of size <= ~1.5 so that 4th-order
// differences with step 1e-3 are accurate to ~1e-12.
inline FBSpec fbSpec(int kind) {
    FBSpec S;
    const FnSpec rx = fnN({0}, 0.1, {1.0}, {0.3}, {0.2}, 0), ry = fnN({1}, -0.2, {0.8}, {0.25}, {-0.4}, 0), rz = fnN({2}, 0.0, {1.1}, {-0.2}, {0.5}, 0);
    const FnSpec rxA = fnN({0}, 0.0, {0.9}, {0.25}, {-0.3}, 0), ryA = fnN({1}, -0.1, {1.1}, {-0.2}, {0.4}, 0), rzA = fnN({2}, 0.05, {1.0}, {0.15}, {0.1}, 0);
    switch (kind) {
        case KFBN1: S.nm = 1;
            S.f[0] = fnK(0); S.f[1] = fnK(0); S.f[2] = fnN({0}, 0.1, {1.0}, {0.3}, {0.2}, 0);
            S.f[3] = fnP(0, {0.3, 0.5, 0.1}); S.f[4] = fnS(0, 0.4, 1.3, -0.2); S.f[5] = fnK(0.25); break;
        case KFBN2: S.nm = 2; fbCustomAxes(S);
            S.f[0] = rxA; S.f[1] = ryA; S.f[2] = fnK(0);
            S.f[3] = fnN({0, 1}, 0, {0.5, 0.2}, {0.3, 0.2}, {0, 0.3}, 0.4); S.f[4] = fnK(0); S.f[5] = fnL({1, 0}, {0.6, -0.3}, 0.05); break;
        case KFBN3: S.nm = 3;
            S.f[0] = rx; S.f[1] = fnK(0); S.f[2] = fnN({1}, 0.0, {1.1}, {-0.2}, {0.5}, 0);
            S.f[3] = fnL({0, 1}, {0.3, -0.2}, 0.1); S.f[4] = fnN({2, 0}, 0, {1.0, 0.2}, {0.2, 0.1}, {0.3, 0}, 0.3); S.f[5] = fnP(2, {0.25, 0.2, 0}); break;
        case KFBN4: S.nm = 4; fbCustomAxes(S);
            S.f[0] = rxA; S.f[1] = ryA; S.f[2] = rzA;
            S.f[3] = fnN({3, 0, 1}, 0, {1.0, 0.2, -0.1}, {0.2, 0.1, 0.1}, {0, 0.2, 0.4}, 0.15); S.f[4] = fnN({3, 2}, 0.1, {0.3, 0.4}, {0.1, -0.2}, {0.5, 0}, 0.2); S.f[5] = fnK(0.1); break;
        case KFBN5: S.nm = 5;
            S.f[0] = rx; S.f[1] = ry; S.f[2] = rz;
            S.f[3] = fnN({3, 4, 0}, 0, {1.0, 0.2, 0.1}, {0.2, 0.1, -0.1}, {0.1, 0, 0.3}, 0.2); S.f[4] = fnN({4, 1}, 0, {1.0, -0.3}, {-0.15, 0.2}, {0.2, 0.1}, 0.25);
            S.f[5] = fnN({3, 2}, 0.05, {0.3, 0.5}, {0.1, 0.1}, {0, 0.4}, -0.2); break;
        case KFBN6: S.nm = 6; fbCustomAxes(S);
            S.f[0] = rxA; S.f[1] = ryA; S.f[2] = rzA;
            S.f[3] = fnN({3, 4, 0}, 0, {1.0, 0.2, 0.1}, {0.2, 0.1, -0.1}, {0.1, 0, 0.3}, 0.2); S.f[4] = fnN({4, 5, 1}, 0, {1.0, -0.2, 0.15}, {-0.15, 0.1, 0.1}, {0.2, 0.3, 0}, 0.15);
            S.f[5] = fnN({5, 3, 2}, 0, {1.0, 0.25, -0.1}, {0.1, -0.1, 0.2}, {0, 0.4, 0.1}, -0.2); break;
        case KFBCoupled3: S.nm = 3;      // every rotation function takes two coordinates (the header's own example: coordIndices[2] = {0, 1})
            S.f[0] = fnN({0, 1}, 0.1, {1.0, 0.3}, {0.3, 0.1}, {0.2, 0.1}, 0.2); S.f[1] = fnN({1, 2}, -0.2, {0.8, -0.2}, {0.25, 0.1}, {-0.4, 0.3}, 0.1); S.f[2] = fnN({2, 0}, 0.0, {1.1, 0.4}, {-0.2, 0.2}, {0.5, 0}, -0.15);
            S.f[3] = fnN({0, 1}, 0, {0.5, 0.2}, {0.3, 0.2}, {0, 0.3}, 0.4); S.f[4] = fnN({1, 2}, 0, {-0.3, 0.6}, {0.2, -0.1}, {0.1, 0}, 0.3); S.f[5] = fnL({2, 0}, {0.7, 0.2}, 0); break;
        case KFBConstRot2: S.nm = 2;     // constant (zero-argument) x rotation of 0.4 rad, then y rotation by f(q0), z rotation by g(q1)
            S.f[0] = fnK(0.4); S.f[1] = fnN({0}, -0.2, {0.8}, {0.25}, {-0.4}, 0); S.f[2] = fnN({1}, 0.0, {1.1}, {-0.2}, {0.5}, 0);
            S.f[3] = fnK(0.3); S.f[4] = fnN({0, 1}, 0, {-0.3, 0.6}, {0.2, -0.1}, {0.1, 0}, 0.3); S.f[5] = fnK(0); break;
        default: break;
    }
    return S;
}
inline int kindNumMobilitiesUserDefined(int kind) { return (kind == KCustomHelix || kind == KCustomHelixPrecalc) ? 2 : fbSpec(kind).nm; }

// Reference pose X_FM(q) of the user-defined kinds above in the direction they are DEFINED (long double; closed form).
// FunctionBased (MobilizedBody_FunctionBased.h): the six functions give, in order, the x, y, z rotation and the x, y, z translation;
// the rotations are applied as a body-fixed sequence about the (normalised) axes 0..2, the translation is the sum of the
// translation values along the (normalised) axes 3..5:   R_FM = Rot(f0,a0) Rot(f1,a1) Rot(f2,a2),  p_FM = f3 a3 + f4 a4 + f5 a5.
struct RefX { long double R[3][3]; long double p[3]; };
inline void refAxisRotation(long double angle, const long double n[3], long double R[3][3]) {      // Rodrigues
    const long double c = cosl(angle), s = sinl(angle);
    const long double K[3][3] = {{0, -n[2], n[1]}, {n[2], 0, -n[0]}, {-n[1], n[0], 0}};
    for (int i = 0; i < 3; ++i) for (int j = 0; j < 3; ++j) R[i][j] = (i == j ? c : 0) + (1 - c) * n[i] * n[j] + s * K[i][j];
}
inline bool refMobilizerTransform(int kind, const std::vector<long double>& q, RefX& X) {
    if (kind == KCustomHelix || kind == KCustomHelixPrecalc) {
        if (q.size() != 2) return false;
        const long double c = cosl(q[0]), s = sinl(q[0]), r = (long double)CustomHelixImpl::R0() + q[1];
        const long double R[3][3] = {{c, -s, 0}, {s, c, 0}, {0, 0, 1}};
        for (int i = 0; i < 3; ++i) for (int j = 0; j < 3; ++j) X.R[i][j] = R[i][j];
        X.p[0] = r * c; X.p[1] = r * s; X.p[2] = (long double)CustomHelixImpl::PITCH() * q[0];
        return true;
    }
    if (!kindIsFunctionBasedNonlinear(kind)) return false;
    const FBSpec S = fbSpec(kind);
    if ((int)q.size() != S.nm) return false;
    long double v[6], ax[6][3];
    for (int i = 0; i < 6; ++i) {
        v[i] = refFunction(S.f[i], q.data());
        long double n = sqrtl((long double)S.axes[i][0] * S.axes[i][0] + (long double)S.axes[i][1] * S.axes[i][1] + (long double)S.axes[i][2] * S.axes[i][2]);
        for (int j = 0; j < 3; ++j) ax[i][j] = (long double)S.axes[i][j] / n;
    }
    long double R0[3][3], R1[3][3], R2[3][3], T[3][3];
    refAxisRotation(v[0], ax[0], R0); refAxisRotation(v[1], ax[1], R1); refAxisRotation(v[2], ax[2], R2);
    for (int i = 0; i < 3; ++i) for (int j = 0; j < 3; ++j) { T[i][j] = 0; for (int k = 0; k < 3; ++k) T[i][j] += R0[i][k] * R1[k][j]; }
    for (int i = 0; i < 3; ++i) for (int j = 0; j < 3; ++j) { X.R[i][j] = 0; for (int k = 0; k < 3; ++k) X.R[i][j] += T[i][k] * R2[k][j]; }
    for (int j = 0; j < 3; ++j) X.p[j] = v[3] * ax[3][j] + v[4] * ax[4][j] + v[5] * ax[5][j];
    return true;
}
inline MobilizedBody addFunctionBasedNonlinear(MobilizedBody& parent, const Transform& X_PF, const Body& body, const Transform& X_BM, int kind, MobilizedBody::Direction d) {
    const FBSpec S = fbSpec(kind);
    std::vector<const Function*> f; std::vector<std::vector<int> > ci; std::vector<Vec3> axes;
    for (int i = 0; i < 6; ++i) {
        f.push_back(makeFunction(S.f[i]));
        std::vector<int> a; for (int k = 0; k < S.f[i].nargs; ++k) a.push_back(S.f[i].args[k]); ci.push_back(a);
        axes.push_back(Vec3(S.axes[i][0], S.axes[i][1], S.axes[i][2]));
    }
    if (S.customAxes) return MobilizedBody::FunctionBased(parent, X_PF, body, X_BM, S.nm, f, ci, axes, d);
    return MobilizedBody::FunctionBased(parent, X_PF, body, X_BM, S.nm, f, ci, d);
}

// ---------------------------------------------------------------- value tables
inline Transform frameTable(int i) {   // i: 0 identity, 1 rotated only, 2 translated only, 3 general
    switch (i) {
        case 1: return Transform(Rotation(BodyRotationSequence, 0.4, XAxis, -0.7, YAxis, 0.25, ZAxis), Vec3(0));
        case 2: return Transform(Vec3(0.3, -0.2, 0.5));
        case 3: return Transform(Rotation(BodyRotationSequence, -0.35, XAxis, 0.6, YAxis, -0.8, ZAxis), Vec3(-0.25, 0.4, 0.15));
        default: return Transform();
    }
}
inline Transform frameTableB(int i) {  // a second, different set (outboard frames)
    switch (i) {
        case 1: return Transform(Rotation(BodyRotationSequence, -0.5, XAxis, 0.3, YAxis, 0.9, ZAxis), Vec3(0));
        case 2: return Transform(Vec3(-0.15, 0.35, 0.2));
        case 3: return Transform(Rotation(BodyRotationSequence, 0.7, XAxis, 0.2, YAxis, -0.45, ZAxis), Vec3(0.2, -0.3, 0.1));
        default: return Transform();
    }
}
inline MassProperties massTable(int i) {
    switch (i) {
        case 1: return MassProperties(2.0, Vec3(0), Inertia(0.8, 1.1, 1.5));                       // central, diagonal
        case 2: return MassProperties(1.5, Vec3(0.05, -0.02, 0.03), UnitInertia(1e-4, 1.2e-4, 0.9e-4).shiftFromMassCenter(Vec3(0.05, -0.02, 0.03), 1) * 1.5);   // near point mass
        default: {  // generic: full inertia, offset mass centre
            const Real m = 1.3; const Vec3 com(0.1, -0.15, 0.2);
            Inertia central(0.9, 1.2, 1.4, 0.1, -0.07, 0.05);     // about COM, valid (diagonally dominant)
            return MassProperties(m, com, central.shiftFromMassCenter(com, m));
        }
    }
}

// ---------------------------------------------------------------- specification of one mobilized body
struct BodySpec {
    int kind = KPin;
    int dir = 0;        // 0 forward, 1 reversed
    int frames = 0;     // 0: X_BM=I,X_PF=I  1: X_BM=I,X_PF rotated  2: X_BM general, X_PF translated  3: general,general
                        // "one part only" pairs (NFRAMES..NFRAMES_ALL-1), which tell the conjuncts of the frame-flag tests apart:
                        // 4: X_PF=I, X_BM pure rotation   5: X_PF pure translation, X_BM=I   6: X_PF=I, X_BM pure translation
                        // 7: X_PF pure rotation, X_BM pure rotation
    int mass = 0;
    int parent = -1;    // index of parent in the spec list, -1 = Ground
    std::string str() const {
        return std::string(kindName(kind)) + (dir ? "/rev" : "/fwd") + "/fr" + std::to_string(frames) + "/m" + std::to_string(mass) + "/p" + std::to_string(parent);
    }
};

struct Model {
    MultibodySystem system;
    SimbodyMatterSubsystem matter;
    GeneralForceSubsystem forces;
    std::vector<MobilizedBody> bodies;
    std::vector<BodySpec> specs;
    bool euler = false;
    Model() : matter(system), forces(system) {}
    std::string str() const { std::string s = euler ? "euler[" : "quat["; for (auto& b : specs) s += b.str() + " "; return s + "]"; }
};

enum { NFRAMES = 4, NFRAMES_ALL = 8 };
inline void specFrames(const BodySpec& b, Transform& X_PF, Transform& X_BM) {
    switch (b.frames) {
        case 0: X_PF = Transform(); X_BM = Transform(); break;
        case 1: X_PF = frameTable(1); X_BM = Transform(); break;
        case 2: X_PF = frameTable(2); X_BM = frameTableB(3); break;
        case 4: X_PF = Transform(); X_BM = frameTableB(1); break;
        case 5: X_PF = frameTable(2); X_BM = Transform(); break;
        case 6: X_PF = Transform(); X_BM = frameTableB(2); break;
        case 7: X_PF = frameTable(1); X_BM = frameTableB(1); break;
        default: X_PF = frameTable(3); X_BM = frameTableB(3); break;
    }
}

inline MobilizedBody addBody(Model& M, const BodySpec& b) {
    MobilizedBody& parent = b.parent < 0 ? (MobilizedBody&)M.matter.updGround() : M.bodies[b.parent];
    Body::Rigid body(massTable(b.mass));
    Transform X_PF, X_BM; specFrames(b, X_PF, X_BM);
    MobilizedBody::Direction d = b.dir ? MobilizedBody::Reverse : MobilizedBody::Forward;
    switch (b.kind) {
        case KPin: return MobilizedBody::Pin(parent, X_PF, body, X_BM, d);
        case KSlider: return MobilizedBody::Slider(parent, X_PF, body, X_BM, d);
        case KUniversal: return MobilizedBody::Universal(parent, X_PF, body, X_BM, d);
        case KCylinder: return MobilizedBody::Cylinder(parent, X_PF, body, X_BM, d);
        case KBendStretch: return MobilizedBody::BendStretch(parent, X_PF, body, X_BM, d);
        case KPlanar: return MobilizedBody::Planar(parent, X_PF, body, X_BM, d);
        case KGimbal: return MobilizedBody::Gimbal(parent, X_PF, body, X_BM, d);
        case KBushing: return MobilizedBody::Bushing(parent, X_PF, body, X_BM, d);
        case KBall: return MobilizedBody::Ball(parent, X_PF, body, X_BM, d);
        case KFree: return MobilizedBody::Free(parent, X_PF, body, X_BM, d);
        case KLineOrientation: return MobilizedBody::LineOrientation(parent, X_PF, body, X_BM, d);
        case KFreeLine: return MobilizedBody::FreeLine(parent, X_PF, body, X_BM, d);
        case KTranslation: return MobilizedBody::Translation(parent, X_PF, body, X_BM, d);
        case KScrew: return MobilizedBody::Screw(parent, X_PF, body, X_BM, 0.3, d);
        case KSphericalDefault: return MobilizedBody::SphericalCoords(parent, X_PF, body, X_BM, d);
        case KSphericalCustom: return MobilizedBody::SphericalCoords(parent, X_PF, body, X_BM, 0.2, true, -0.3, false, XAxis, true, d);
        case KEllipsoid: return MobilizedBody::Ellipsoid(parent, X_PF, body, X_BM, Vec3(0.5, 0.7, 0.9), d);
        case KCantilever: return MobilizedBody::CantileverFreeBeam(parent, X_PF, body, X_BM, 1.3, d);
        case KWeld: return MobilizedBody::Weld(parent, X_PF, body, X_BM);
        case KCustomPin: return MobilizedBody::Custom(parent, new CustomPinImpl(M.matter), X_PF, body, X_BM);
        case KCustomBall: return MobilizedBody::Custom(parent, new CustomBallImpl(M.matter), X_PF, body, X_BM);
        case KCustomTranslation: return MobilizedBody::Custom(parent, new CustomTranslationImpl(M.matter), X_PF, body, X_BM);
        case KCustomHelix: return MobilizedBody::Custom(parent, new CustomHelixImpl(M.matter), X_PF, body, X_BM, d);
        case KCustomHelixPrecalc: return MobilizedBody::Custom(parent, new CustomHelixPrecalcImpl(M.matter), X_PF, body, X_BM, d);
        case KFBN1: case KFBN2: case KFBN3: case KFBN4: case KFBN5: case KFBN6: case KFBCoupled3: case KFBConstRot2:
            return addFunctionBasedNonlinear(parent, X_PF, body, X_BM, b.kind, d);
        case KFBPin: case KFBPlanar: {
            std::vector<const Function*> f; std::vector<std::vector<int> > ci;
            // order: x rot, y rot, z rot, x trans, y trans, z trans
            auto lin = [](int) { Vector c(2); c[0] = 1; c[1] = 0; return new Function::Linear(c); };
            auto zero = []() { return new Function::Constant(0, 0); };
            if (b.kind == KFBPin) {   // rotation about z by q0
                for (int i = 0; i < 6; ++i) { if (i == 2) { f.push_back(lin(0)); ci.push_back({0}); } else { f.push_back(zero()); ci.push_back({}); } }
                return MobilizedBody::FunctionBased(parent, X_PF, body, X_BM, 1, f, ci, d);
            } else {                  // planar: q0 = z rotation, q1 = x translation, q2 = y translation (translations in F)
                for (int i = 0; i < 6; ++i) {
                    if (i == 2) { f.push_back(lin(0)); ci.push_back({0}); }
                    else if (i == 3) { f.push_back(lin(0)); ci.push_back({1}); }
                    else if (i == 4) { f.push_back(lin(0)); ci.push_back({2}); }
                    else { f.push_back(zero()); ci.push_back({}); }
                }
                return MobilizedBody::FunctionBased(parent, X_PF, body, X_BM, 3, f, ci, d);
            }
        }
    }
    return MobilizedBody();
}

inline std::unique_ptr<Model> build(const std::vector<BodySpec>& specs, bool euler) {
    std::unique_ptr<Model> M(new Model());
    M->specs = specs; M->euler = euler;
    for (auto& b : specs) M->bodies.push_back(addBody(*M, b));
    return M;
}

// ---------------------------------------------------------------- states
// stateKind: 0 "zero" (default q with singular defaults moved off the singularity, u=0)
//            1 generic q,u   2 large-angle q, generic u   3 generic q, u=0
// valueSet in {0,1,2} selects one of three fixed generic value tables.
inline Real qv(int valueSet, int i) {
    static const Real t[3][8] = {
        {0.30, -0.50, 0.70, -0.20, 0.40, 0.60, -0.35, 0.25},
        {-0.45, 0.35, -0.25, 0.55, -0.65, 0.20, 0.50, -0.30},
        {0.62, 0.18, -0.58, -0.42, 0.27, -0.33, 0.48, 0.71}};
    return t[valueSet % 3][i % 8];
}
inline Real uv(int valueSet, int i) {
    static const Real t[3][8] = {
        {0.50, -0.80, 1.10, -0.40, 0.90, -1.30, 0.70, -0.60},
        {-0.70, 0.45, -0.95, 1.20, 0.35, -0.55, -1.05, 0.80},
        {1.15, 0.65, -0.30, -0.85, -1.25, 0.40, 0.95, -0.50}};
    return t[valueSet % 3][i % 8];
}
inline Vec4 quatTable(int valueSet, bool large) {
    static const Vec4 g[3] = {Vec4(0.8, 0.3, -0.4, 0.33), Vec4(0.7, -0.45, 0.25, -0.5), Vec4(0.85, 0.2, 0.35, -0.3)};
    static const Vec4 l[3] = {Vec4(0.3, 0.8, -0.4, 0.33), Vec4(-0.25, 0.45, 0.7, -0.5), Vec4(0.2, -0.85, 0.35, 0.3)};   // rotation angle > 2.4 rad
    Vec4 q = large ? l[valueSet % 3] : g[valueSet % 3];
    return q / q.norm();
}

// Fill the q's of one mobilizer.  Angles are kept >= 0.3 rad from the singularities the docs name.
inline void setBodyQ(const Model& M, State& s, int bi, int stateKind, int valueSet) {
    const MobilizedBody& mobod = M.bodies[bi];
    const int kind = M.specs[bi].kind;
    const int nq = mobod.getNumQ(s);
    if (nq == 0) return;
    const bool large = stateKind == 2;
    const bool zero = stateKind == 0;
    Vector q(nq);
    for (int i = 0; i < nq; ++i) q[i] = zero ? 0 : (large && i == 0 ? 2.5 : qv(valueSet, i + 2 * bi));
    const bool quat = kindHasQuaternion(kind) && !M.euler;
    auto putQuat = [&](int at) { Vec4 v = zero ? Vec4(1, 0, 0, 0) : quatTable(valueSet + bi, large); for (int i = 0; i < 4; ++i) q[at + i] = v[i]; };
    switch (kind) {
        case KBall: case KEllipsoid: case KLineOrientation: case KCustomBall:
            if (quat) putQuat(0);
            else if (!zero) { q[1] = large ? 0.9 : q[1]; }   // Euler option: middle angle stays away from +-pi/2
            break;
        case KFree: case KFreeLine:
            if (quat) { putQuat(0); if (!zero) for (int i = 4; i < nq; ++i) q[i] = qv(valueSet, i + bi); }
            else if (!zero) { q[1] = large ? 0.9 : q[1]; }
            break;
        case KGimbal: case KBushing:
            if (!zero) q[1] = large ? 0.9 : q[1];              // |q1| < pi/2 - 0.3
            break;
        case KBendStretch:
            q[1] = zero ? 0.8 : 0.6 + std::abs(q[1]);          // stretch must be nonzero (polar singularity)
            break;
        case KSphericalDefault: case KSphericalCustom:
            q[1] = zero ? 0.7 : 0.5 + std::abs(qv(valueSet, 1 + bi)) * 0.8;    // zenith away from 0 and pi
            if (kind == KSphericalCustom) q[1] += 0.3;          // compensate the -0.3 zenith offset
            q[2] = zero ? 0.9 : 0.6 + std::abs(q[2]);          // radius nonzero
            break;
        case KUniversal:
            if (large) { q[0] = 2.5; q[1] = 0.9; }
            break;
        default: break;
    }
    mobod.setQFromVector(s, q);
}
inline void setBodyU(const Model& M, State& s, int bi, int stateKind, int valueSet) {
    const MobilizedBody& mobod = M.bodies[bi];
    const int nu = mobod.getNumU(s);
    if (nu == 0) return;
    Vector u(nu);
    for (int i = 0; i < nu; ++i) u[i] = (stateKind == 0 || stateKind == 3) ? 0 : uv(valueSet, i + 3 * bi);
    mobod.setUFromVector(s, u);
}
// returns a realized-to-Model state with the requested coordinate option and values
inline State makeState(Model& M, int stateKind, int valueSet) {
    M.system.realizeTopology();
    State s = M.system.getDefaultState();
    M.matter.setUseEulerAngles(s, M.euler);
    M.system.realizeModel(s);
    for (int b = 0; b < (int)M.bodies.size(); ++b) { setBodyQ(M, s, b, stateKind, valueSet); setBodyU(M, s, b, stateKind, valueSet); }
    return s;
}

// ---------------------------------------------------------------- enumeration levels
// companions used as neighbours in level A
inline BodySpec companion(int c) {
    BodySpec b;
    switch (c) { case 0: b.kind = KPin; b.frames = 3; break; case 1: b.kind = KBall; b.frames = 3; break; default: b.kind = KFree; b.frames = 0; break; }
    b.mass = c % 3;
    return b;
}
// all (kind,dir) variants that exist (the defect-exposing FunctionBased usages are listed separately)
inline std::vector<std::pair<int, int> > kindDirs() {
    std::vector<std::pair<int, int> > v;
    for (int k = 0; k < NKIND; ++k) { v.push_back({k, 0}); if (kindReversible(k)) v.push_back({k, 1}); }
    return v;
}
inline std::vector<std::pair<int, int> > defectKindDirs() {
    std::vector<std::pair<int, int> > v;
    for (int k = NKIND; k < NKIND_ALL; ++k) { v.push_back({k, 0}); v.push_back({k, 1}); }
    return v;
}
// Level S: every variant alone on Ground x ALL eight frame pairs (the only place where the "one part only" pairs 4..7 occur:
// the frame flags <noX_MB,noR_PF> and the lone-particle test are decided per body from its own two frames, a single
// Ground-attached leaf reaches all of them).  index space: variant x frames(8)
struct LevelS {
    std::vector<std::pair<int, int> > kd = kindDirs();
    int64_t size() const { return (int64_t)kd.size() * NFRAMES_ALL; }
    std::vector<BodySpec> specs(int64_t idx, int massSel = 0) const {
        BodySpec b; b.frames = (int)(idx % NFRAMES_ALL); idx /= NFRAMES_ALL; b.kind = kd[idx].first; b.dir = kd[idx].second; b.mass = massSel; b.parent = -1;
        return {b};
    }
};
// Level A: variant (kind,dir,frames) placed as base / middle / tip of a 3-chain with companions (c1,c2) in {Pin,Ball,Free}^2,
// or (role 3) as a branch of a fork.  index space: variant x frames(4) x role(4) x c1(3) x c2(3)
struct LevelA {
    std::vector<std::pair<int, int> > kd = kindDirs();
    int64_t size() const { return (int64_t)kd.size() * 4 * 4 * 3 * 3; }
    std::vector<BodySpec> specs(int64_t idx, int massSel = 0) const {
        int c2 = idx % 3; idx /= 3; int c1 = idx % 3; idx /= 3; int role = idx % 4; idx /= 4; int fr = idx % 4; idx /= 4;
        BodySpec v; v.kind = kd[idx].first; v.dir = kd[idx].second; v.frames = fr; v.mass = massSel;
        BodySpec a = companion(c1), b = companion(c2);
        std::vector<BodySpec> s;
        if (role == 0) { v.parent = -1; a.parent = 0; b.parent = 1; s = {v, a, b}; }
        else if (role == 1) { a.parent = -1; v.parent = 0; b.parent = 1; s = {a, v, b}; }
        else if (role == 2) { a.parent = -1; b.parent = 0; v.parent = 1; s = {a, b, v}; }
        else { a.parent = -1; v.parent = 0; b.parent = 0; s = {a, v, b}; }     // fork: a has children v and b
        return s;
    }
};
// Level B: all ordered parent->child pairs over the variants with a constant hinge matrix (built-ins and mirrors):
// kind^2 x dir^2 x frames in {0,3}^2; then, for every variant with a q-dependent hinge matrix (FBN1..6, CustomHelix; all of one
// node class RBNodeCustom<nu,..>), both orders with every partner of the 8 code families of level C x dir, frames {II,GG}
// (both bodies), and all ordered pairs among themselves with general frames.
struct LevelB {
    std::vector<std::pair<int, int> > kd = kindDirs();
    std::vector<int> base, ext, partners;
    LevelB() {
        const int fam[8] = {KPin, KSlider, KBall, KFree, KUniversal, KPlanar, KEllipsoid, KWeld};
        for (int i = 0; i < (int)kd.size(); ++i) {
            if (kindIsNonlinearUserDefined(kd[i].first)) ext.push_back(i); else base.push_back(i);
            for (int f : fam) if (kd[i].first == f) partners.push_back(i);
        }
    }
    int64_t nBase() const { return (int64_t)base.size() * base.size() * 4; }
    int64_t nMixed() const { return (int64_t)ext.size() * partners.size() * 2 * 2; }
    int64_t size() const { return nBase() + nMixed() + (int64_t)ext.size() * ext.size(); }
    std::vector<BodySpec> specs(int64_t idx, int massSel = 0) const {
        int k1, k2, fr1, fr2;
        if (idx < nBase()) {
            int f2 = idx % 2; idx /= 2; int f1 = idx % 2; idx /= 2; k2 = base[idx % base.size()]; idx /= base.size(); k1 = base[idx];
            fr1 = f1 ? 3 : 0; fr2 = f2 ? 3 : 0;
        } else if (idx < nBase() + nMixed()) {
            idx -= nBase();
            int f = idx % 2; idx /= 2; int order = idx % 2; idx /= 2; int p = partners[idx % partners.size()]; idx /= partners.size(); int e = ext[idx];
            k1 = order ? p : e; k2 = order ? e : p; fr1 = fr2 = f ? 3 : 0;
        } else {
            idx -= nBase() + nMixed();
            k2 = ext[idx % ext.size()]; k1 = ext[idx / ext.size()]; fr1 = fr2 = 3;
        }
        BodySpec a, b; a.kind = kd[k1].first; a.dir = kd[k1].second; a.frames = fr1; a.mass = massSel; a.parent = -1;
        b.kind = kd[k2].first; b.dir = kd[k2].second; b.frames = fr2; b.mass = (massSel + 1) % 3; b.parent = 0;
        return {a, b};
    }
};
// Level C: all triples over 8 code families in chain and fork x dir^3
struct LevelC {
    int fam[8] = {KPin, KSlider, KBall, KFree, KUniversal, KPlanar, KEllipsoid, KWeld};
    int64_t size() const { return 8 * 8 * 8 * 2 * 8; }
    std::vector<BodySpec> specs(int64_t idx, int massSel = 0) const {
        int dirs = idx % 8; idx /= 8; int fork = idx % 2; idx /= 2; int k3 = idx % 8; idx /= 8; int k2 = idx % 8; idx /= 8; int k1 = (int)idx;
        BodySpec a, b, c; a.kind = fam[k1]; b.kind = fam[k2]; c.kind = fam[k3];
        a.dir = (dirs & 1) && kindReversible(a.kind); b.dir = ((dirs >> 1) & 1) && kindReversible(b.kind); c.dir = ((dirs >> 2) & 1) && kindReversible(c.kind);
        a.frames = 3; b.frames = 1; c.frames = 2; a.mass = massSel; b.mass = (massSel + 1) % 3; c.mass = (massSel + 2) % 3;
        a.parent = -1; b.parent = 0; c.parent = fork ? 0 : 1;
        return {a, b, c};
    }
};

// Level G: forests -- the variant and a companion BOTH attached to Ground (in either creation order), plus a child of
// the companion.  Needed for code that special-cases Ground-attached terminal bodies (the lone-particle fast path of
// Translation) and for index arithmetic that differs when an earlier mobilizer has nq != nu.
// index space: variant x frames(4) x c1(3) x order(2) x c2(3)
struct LevelG {
    std::vector<std::pair<int, int> > kd = kindDirs();
    int64_t size() const { return (int64_t)kd.size() * 4 * 3 * 2 * 3; }
    std::vector<BodySpec> specs(int64_t idx, int massSel = 0) const {
        int c2 = idx % 3; idx /= 3; int order = idx % 2; idx /= 2; int c1 = idx % 3; idx /= 3; int fr = idx % 4; idx /= 4;
        BodySpec v; v.kind = kd[idx].first; v.dir = kd[idx].second; v.frames = fr; v.mass = massSel; v.parent = -1;
        BodySpec a = companion(c1), b = companion(c2); a.parent = -1;
        if (order == 0) { b.parent = 0; return {a, v, b}; }      // companion first, then the variant on Ground, then a child of the companion
        b.parent = 1; return {v, a, b};                          // variant first
    }
};

// name of the RigidBodyNode instantiation behind a mobilized body (vacuity guard: which code variants were reached)
std::string nodeTypeName(const Model& M, int bi);

}  // namespace mb
#endif
