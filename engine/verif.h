// verif.h -- common kit for all property harnesses.
//
// One `verif::Run` per harness process.  It parses the driver's arguments,
// shards an enumerated finite space over forked workers, accumulates coverage
// counters / worst residuals / distinct-case hashes / samples / violations,
// applies the known-findings file, writes replay artefacts and the evidence
// JSON, and produces the exit code (0 held, 1 violation, 2 harness error).
#ifndef VERIF_H_
#define VERIF_H_

#include <algorithm>
#include <cerrno>
#include <chrono>
#include <cmath>
#include <cstdint>
#include <cstdio>
#include <cstdlib>
#include <cstring>
#include <fstream>
#include <functional>
#include <iostream>
#include <map>
#include <set>
#include <sstream>
#include <string>
#include <unordered_set>
#include <vector>

#include <sched.h>
#include <sys/types.h>
#include <sys/wait.h>
#include <poll.h>
#include <signal.h>
#include <unistd.h>

namespace verif {

// ---------------------------------------------------------------- hashing
inline uint64_t fnv1a(const void* p, size_t n, uint64_t h = 1469598103934665603ULL) {
    const unsigned char* b = (const unsigned char*)p;
    for (size_t i = 0; i < n; ++i) { h ^= b[i]; h *= 1099511628211ULL; }
    return h;
}
inline uint64_t hashStr(const std::string& s, uint64_t h = 1469598103934665603ULL) {
    return fnv1a(s.data(), s.size(), h);
}
template <class T> inline uint64_t hashPod(const T& v, uint64_t h = 1469598103934665603ULL) {
    return fnv1a(&v, sizeof(T), h);
}
inline uint64_t hashMix(uint64_t a, uint64_t b) {
    return hashPod(b, hashPod(a));
}

// ---------------------------------------------------------------- strings
inline std::string jsonEscape(const std::string& s) {
    std::string o;
    for (unsigned char c : s) {
        switch (c) {
            case '"': o += "\\\""; break;
            case '\\': o += "\\\\"; break;
            case '\n': o += "\\n"; break;
            case '\r': o += "\\r"; break;
            case '\t': o += "\\t"; break;
            default:
                if (c < 0x20 || c >= 0x7f) { char b[8]; snprintf(b, sizeof b, "\\u%04x", c); o += b; }
                else o += (char)c;
        }
    }
    return o;
}
inline std::string recEscape(const std::string& s) {
    std::string o;
    for (char c : s) {
        if (c == '\\') o += "\\\\"; else if (c == '\n') o += "\\n";
        else if (c == '\t') o += "\\t"; else o += c;
    }
    return o;
}
inline std::string recUnescape(const std::string& s) {
    std::string o;
    for (size_t i = 0; i < s.size(); ++i) {
        if (s[i] == '\\' && i + 1 < s.size()) {
            ++i;
            if (s[i] == 'n') o += '\n'; else if (s[i] == 't') o += '\t'; else o += s[i];
        } else o += s[i];
    }
    return o;
}
inline std::vector<std::string> splitTabs(const std::string& l) {
    std::vector<std::string> f; std::string cur;
    for (char c : l) { if (c == '\t') { f.push_back(cur); cur.clear(); } else cur += c; }
    f.push_back(cur);
    return f;
}
template <class T> inline std::string str(const T& v) { std::ostringstream o; o.precision(17); o << v; return o.str(); }
inline std::string fmtd(double v) { char b[64]; snprintf(b, sizeof b, "%.17g", v); return b; }
inline std::string jsonNum(double v) {
    if (std::isnan(v) || std::isinf(v)) return "null";
    char b[64]; snprintf(b, sizeof b, "%.6g", v); return b;
}

// ---------------------------------------------------------------- odometer
// Mixed-radix index <-> digit tuple, least significant digit first.
struct Odometer {
    std::vector<int64_t> radix;
    std::vector<std::string> names;
    void dim(const std::string& name, int64_t r) { names.push_back(name); radix.push_back(r); }
    int64_t size() const { int64_t n = 1; for (auto r : radix) n *= r; return n; }
    std::vector<int> digits(int64_t idx) const {
        std::vector<int> d(radix.size());
        for (size_t i = 0; i < radix.size(); ++i) { d[i] = (int)(idx % radix[i]); idx /= radix[i]; }
        return d;
    }
    std::string describe(int64_t idx) const {
        auto d = digits(idx); std::string s;
        for (size_t i = 0; i < d.size(); ++i) { if (i) s += " "; s += names[i] + "=" + std::to_string(d[i]); }
        return s;
    }
};

// ---------------------------------------------------------------- accumulators
struct Worst { double value = -1; double bound = 0; std::string where; int64_t n = 0; };
struct Viol { std::string key, what, replay; };

struct Acc {
    std::map<std::string, int64_t> counters;
    std::map<std::string, Worst> worst;
    std::vector<uint64_t> distinct;             // hashes of distinct non-trivial cases
    std::vector<uint64_t> outcomes;             // hashes of distinct observed outcomes
    std::vector<uint64_t> statesSeen;           // hashes of canonical states (E1/E2)
    std::vector<std::string> samples;
    std::vector<Viol> viols;
    std::map<std::string, int64_t> violCountByKey;
    int64_t evaluations = 0, transitions = 0, traces = 0;
    int64_t distinctBulk = 0;                   // cases known distinct by construction (not hashed)
    bool expired = false;
    bool harnessError = false; std::string harnessErrorMsg;
};

// ---------------------------------------------------------------- Run
class Run {
public:
    std::string id, tier = "quick", evidencePath, replayPath, verifDir, buildDir, repoDir;
    long seed = 0;
    int workers = 16;
    double deadlineS = -1;           // wall-clock budget for enumeration
    std::vector<std::string> extra;  // unrecognised args
    std::string level = "model_checking";
    std::string rule, explanation;
    std::vector<std::string> assumptions;
    std::map<std::string, std::string> extraCoverage;  // raw JSON values
    bool exhaustive = true;
    bool verbose = false;            // set in replay mode
    Acc acc;                         // this process's accumulators
    size_t maxSamples = 6, maxViolsPerKey = 3;
    bool pinWorkers = false;         // pin each forked worker (and its threads) to one CPU

    Run(const char* pid, int argc, char** argv) : id(pid) {
        t0_ = now();
        const char* vd = getenv("VERIF_DIR");
        verifDir = vd ? vd : "/verif";
        const char* bd = getenv("VERIF_BUILD");
        buildDir = bd ? bd : verifDir + "/build";
        const char* rd = getenv("VERIF_REPO");
        repoDir = rd ? rd : "/repo";
        for (int i = 1; i < argc; ++i) {
            std::string a = argv[i];
            auto next = [&]() -> std::string { return i + 1 < argc ? argv[++i] : ""; };
            if (a == "--tier") tier = next();
            else if (a == "--seed") seed = atol(next().c_str());
            else if (a == "--evidence") evidencePath = next();
            else if (a == "--replay") { replayPath = next(); verbose = true; }
            else if (a == "--workers") workers = atoi(next().c_str());
            else if (a == "--deadline") deadlineS = atof(next().c_str());
            else extra.push_back(a);
        }
        if (evidencePath.empty()) evidencePath = verifDir + "/evidence/" + id + ".json";
        if (const char* w = getenv("VERIF_WORKERS")) workers = atoi(w);
        if (workers < 1) workers = 1;
        loadKnown();
    }
    bool thorough() const { return tier == "thorough"; }
    bool replaying() const { return !replayPath.empty(); }
    bool hasFlag(const std::string& f) const { return std::find(extra.begin(), extra.end(), f) != extra.end(); }
    double elapsed() const { return now() - t0_; }
    void setDeadline(double quickS, double thoroughS) { if (deadlineS < 0) deadlineS = thorough() ? thoroughS : quickS; }
    bool expired() {
        if (deadlineS > 0 && elapsed() > deadlineS) { acc.expired = true; return true; }
        return false;
    }

    // ---- recording (valid in parent and in forked workers)
    void count(const std::string& name, int64_t n = 1) { acc.counters[name] += n; }
    // one enumerated case was executed on the implementation
    void evaluation(uint64_t caseHash, bool nontrivial) {
        acc.evaluations++; acc.traces++;
        if (nontrivial) acc.distinct.push_back(caseHash);
    }
    void state(uint64_t h) { acc.statesSeen.push_back(h); }
    void transition(int64_t n = 1) { acc.transitions += n; }
    // compact when the buffer has doubled since the last compaction (a fixed threshold would re-sort on every call once the number
    // of DISTINCT outcomes of one worker exceeds it: quadratic with few workers)
    void outcome(uint64_t h) { acc.outcomes.push_back(h); if (acc.outcomes.size() > outcomesCap) { compact(acc.outcomes); outcomesCap = std::max<size_t>(200000, 2 * acc.outcomes.size()); } }
    size_t outcomesCap = 200000;
    void sample(const std::string& s) { if (acc.samples.size() < maxSamples) acc.samples.push_back(s); }
    // an oracle comparison: value must be <= bound (NaN fails). Returns true if ok.
    bool residual(const std::string& oracle, double value, double bound,
                  const std::function<std::string()>& where,
                  const std::function<std::string()>& replay = nullptr,
                  const std::string& keySuffix = "") {
        acc.transitions++;
        Worst& w = acc.worst[oracle];
        w.n++; w.bound = bound;
        bool bad = !(value <= bound);
        double v = std::isnan(value) ? INFINITY : value;
        if (v > w.value) { w.value = v; w.where = where ? where() : ""; }
        if (bad) {
            std::string key = oracle + (keySuffix.empty() ? "" : "/" + keySuffix);
            violation(key, oracle + ": residual " + fmtd(value) + " > bound " + fmtd(bound) + " at " + (where ? where() : ""),
                      replay ? replay() : replayHeader() + (where ? where() : ""));
        }
        return !bad;
    }
    // a boolean oracle
    bool expect(bool ok, const std::string& key, const std::function<std::string()>& what,
                const std::function<std::string()>& replay = nullptr) {
        acc.transitions++;
        acc.counters["oracle:" + key + (ok ? ":ok" : ":FAIL")]++;
        if (!ok) violation(key, what ? what() : key, replay ? replay() : replayHeader() + (what ? what() : ""));
        return ok;
    }
    void violation(const std::string& key, const std::string& what, const std::string& replay) {
        int64_t& c = acc.violCountByKey[key];
        c++;
        if ((size_t)c <= maxViolsPerKey) acc.viols.push_back({key, what, replay});
        if (verbose) fprintf(stderr, "[%s] violation key=%s: %s\n", id.c_str(), key.c_str(), what.c_str());
    }
    void harnessError(const std::string& msg) { acc.harnessError = true; acc.harnessErrorMsg = msg; fprintf(stderr, "[%s] HARNESS ERROR: %s\n", id.c_str(), msg.c_str()); }

    // ---- sharded enumeration.  fn(i) is called for every i in [0,n) exactly once
    // (interleaved over forked workers); in replay mode only the recorded item is run
    // (in-process, verbose).  `section` names the space in replay files.
    void parallel(const std::string& section, int64_t n, const std::function<void(int64_t)>& fn) {
        acc.counters["space:" + section] += n;
        if (replaying()) {
            std::string sec; int64_t item = -1;
            readReplayHeader(sec, item);
            if (sec == section && item >= 0 && item < n) { currentSection_ = section; currentItem_ = item; fn(item); }
            return;
        }
        int W = (int)std::min<int64_t>(workers, std::max<int64_t>(n, 1));
        std::vector<pid_t> pids;
        std::vector<std::string> files;
        fflush(stdout); fflush(stderr);
        for (int k = 0; k < W; ++k) {
            std::string f = buildDir + "/tmp/" + id + "." + section + "." + std::to_string(getpid()) + "." + std::to_string(k) + ".part";
            files.push_back(f);
            pid_t p = fork();
            if (p < 0) { harnessError("fork failed"); break; }
            if (p == 0) {
                acc = Acc();
                workerFile_ = f;
                if (pinWorkers) {   // all threads of this worker share one core: baton hand-offs become cheap
                    cpu_set_t cs; CPU_ZERO(&cs); long nc = sysconf(_SC_NPROCESSORS_ONLN); if (nc < 1) nc = 1;
                    CPU_SET(k % nc, &cs); sched_setaffinity(0, sizeof cs, &cs);
                }
                int64_t done = 0;
                for (int64_t i = k; i < n; i += W) {
                    if (expired()) break;
                    currentSection_ = section; currentItem_ = i;
                    try { fn(i); }
                    catch (const std::exception& e) {
                        violation("uncaught-exception/" + section, std::string("uncaught exception: ") + e.what(), replayHeader());
                    }
                    done++;
                }
                acc.counters["done:" + section] += done;
                writeAcc(f);
                fflush(stdout); fflush(stderr);
                _exit(0);
            }
            pids.push_back(p);
        }
        for (size_t k = 0; k < pids.size(); ++k) {
            int st = 0; waitpid(pids[k], &st, 0);
            if (!WIFEXITED(st) || WEXITSTATUS(st) != 0) {
                // a worker crashed: this is an outcome of the code under test on some item.
                std::string why = WIFSIGNALED(st) ? ("signal " + std::to_string(WTERMSIG(st))) : ("exit " + std::to_string(WEXITSTATUS(st)));
                violation("worker-crash/" + section, "worker " + std::to_string(k) + " of section " + section + " died with " + why,
                          "section=" + section + "\nworker=" + std::to_string(k) + " of " + std::to_string(W) + "\n");
            }
            mergeAcc(files[k]);
            unlink(files[k].c_str());
        }
        if (acc.counters["done:" + section] < n) { acc.expired = true; }
    }
    // In a forked worker: flush what was recorded so far and end this worker (used when the
    // code under test cannot continue, e.g. a deadlocked schedule).  Items not yet processed
    // by this worker are reported as not covered (exhaustive=false).
    [[noreturn]] void flushAndExitWorker() {
        if (workerFile_.empty()) { finish(); _exit(acc.harnessError ? 2 : 1); }
        writeAcc(workerFile_);
        fflush(stdout); fflush(stderr);
        _exit(0);
    }
    // value of a `name=value` line of the replay file ("" if absent)
    std::string replayField(const std::string& name) const {
        std::ifstream in(replayPath); std::string l;
        while (std::getline(in, l)) if (l.rfind(name + "=", 0) == 0) return l.substr(name.size() + 1);
        return "";
    }
    // cases that are distinct by construction of the enumeration (e.g. DFS over choice sequences)
    void evaluationDistinct(bool nontrivial) { acc.evaluations++; acc.traces++; if (nontrivial) acc.distinctBulk++; }
    void bulk(int64_t evaluations, int64_t transitions) { acc.evaluations += evaluations; acc.traces += evaluations; acc.transitions += transitions; }
    // For harnesses building replay text: the header identifying the current item.
    std::string replayHeader() const { return "section=" + currentSection_ + "\nitem=" + std::to_string(currentItem_) + "\n"; }
    int64_t currentItem() const { return currentItem_; }

    // ---- finishing
    int finish() {
        compact(acc.distinct); compact(acc.outcomes); compact(acc.statesSeen);
        int newViol = 0;
        std::set<std::string> knownPrinted;
        int replayN = 0;
        for (auto& v : acc.viols) {
            auto it = known_.find(v.key);
            if (it != known_.end()) {
                if (knownPrinted.insert(v.key).second)
                    printf("KNOWN-FINDING: property=%s key=%s %s (occurrences this run: %lld)\n", id.c_str(), v.key.c_str(), it->second.c_str(), (long long)acc.violCountByKey[v.key]);
                continue;
            }
            std::string path = replayPath.empty() ? (getenv("VERIF_REPLAYS") ? std::string(getenv("VERIF_REPLAYS")) : verifDir + "/replays") + "/" + id + "-" + std::to_string(replayN++) + ".txt" : replayPath + ".rerun";
            if (replayPath.empty()) {
                std::ofstream o(path);
                o << "# property=" << id << " key=" << v.key << "\n# " << recEscape(v.what) << "\n" << v.replay;
                if (v.replay.empty() || v.replay.back() != '\n') o << "\n";
            }
            printf("VIOLATION property=%s replay=%s\n", id.c_str(), path.c_str());
            printf("  key=%s %s\n", v.key.c_str(), v.what.c_str());
            newViol++;
        }
        int64_t totalViol = 0, knownViol = 0;
        for (auto& kv : acc.violCountByKey) { totalViol += kv.second; if (known_.count(kv.first)) knownViol += kv.second; }
        if (acc.expired) exhaustive = false;
        writeEvidence(totalViol - knownViol, knownViol);
        fflush(stdout);
        if (acc.harnessError) return 2;
        return newViol ? 1 : 0;
    }

    // state / transition numbers for E1/E2 engines may be set explicitly
    int64_t statesOverride = -1;

private:
    double t0_;
    std::map<std::string, std::string> known_;
    std::string currentSection_; int64_t currentItem_ = -1;
    std::string workerFile_;

    static double now() { return std::chrono::duration<double>(std::chrono::steady_clock::now().time_since_epoch()).count(); }
    static void compact(std::vector<uint64_t>& v) { std::sort(v.begin(), v.end()); v.erase(std::unique(v.begin(), v.end()), v.end()); }

    void loadKnown() {
        std::ifstream in(verifDir + "/known_findings.txt");
        std::string l;
        while (std::getline(in, l)) {
            if (l.rfind("known:", 0) != 0) continue;
            std::istringstream is(l.substr(6));
            std::string tok, prop, key, rest;
            is >> prop >> key; std::getline(is, rest);
            if (prop != "property=" + id || key.rfind("key=", 0) != 0) continue;
            size_t p = rest.find_first_not_of(' ');
            known_[key.substr(4)] = p == std::string::npos ? "" : rest.substr(p);
        }
    }
    void readReplayHeader(std::string& sec, int64_t& item) {
        std::ifstream in(replayPath); std::string l;
        while (std::getline(in, l)) {
            if (l.rfind("section=", 0) == 0) sec = l.substr(8);
            else if (l.rfind("item=", 0) == 0) item = atoll(l.substr(5).c_str());
        }
    }
    void writeAcc(const std::string& f) {
        compact(acc.distinct); compact(acc.outcomes); compact(acc.statesSeen);
        FILE* o = fopen(f.c_str(), "w");
        if (!o) _exit(3);
        fprintf(o, "N\t%lld\t%lld\t%lld\t%d\t%lld\n", (long long)acc.evaluations, (long long)acc.transitions, (long long)acc.traces, acc.expired ? 1 : 0, (long long)acc.distinctBulk);
        for (auto& kv : acc.counters) fprintf(o, "C\t%s\t%lld\n", recEscape(kv.first).c_str(), (long long)kv.second);
        for (auto& kv : acc.worst) fprintf(o, "W\t%s\t%.17g\t%.17g\t%lld\t%s\n", recEscape(kv.first).c_str(), kv.second.value, kv.second.bound, (long long)kv.second.n, recEscape(kv.second.where).c_str());
        for (auto h : acc.distinct) fprintf(o, "D\t%llx\n", (unsigned long long)h);
        for (auto h : acc.outcomes) fprintf(o, "O\t%llx\n", (unsigned long long)h);
        for (auto h : acc.statesSeen) fprintf(o, "T\t%llx\n", (unsigned long long)h);
        for (auto& s : acc.samples) fprintf(o, "S\t%s\n", recEscape(s).c_str());
        for (auto& v : acc.viols) fprintf(o, "V\t%s\t%s\t%s\n", recEscape(v.key).c_str(), recEscape(v.what).c_str(), recEscape(v.replay).c_str());
        for (auto& kv : acc.violCountByKey) fprintf(o, "K\t%s\t%lld\n", recEscape(kv.first).c_str(), (long long)kv.second);
        if (acc.harnessError) fprintf(o, "E\t%s\n", recEscape(acc.harnessErrorMsg).c_str());
        fclose(o);
    }
    void mergeAcc(const std::string& f) {
        std::ifstream in(f); std::string l;
        if (!in) return;
        while (std::getline(in, l)) {
            auto t = splitTabs(l);
            if (t.empty()) continue;
            const std::string& ty = t[0];
            if (ty == "N" && t.size() >= 5) { acc.evaluations += atoll(t[1].c_str()); acc.transitions += atoll(t[2].c_str()); acc.traces += atoll(t[3].c_str()); if (t[4] == "1") acc.expired = true; if (t.size() >= 6) acc.distinctBulk += atoll(t[5].c_str()); }
            else if (ty == "C" && t.size() >= 3) acc.counters[recUnescape(t[1])] += atoll(t[2].c_str());
            else if (ty == "W" && t.size() >= 6) {
                Worst& w = acc.worst[recUnescape(t[1])];
                double v = strtod(t[2].c_str(), nullptr);
                w.bound = strtod(t[3].c_str(), nullptr); w.n += atoll(t[4].c_str());
                if (v > w.value) { w.value = v; w.where = recUnescape(t[5]); }
            }
            else if (ty == "D" && t.size() >= 2) acc.distinct.push_back(strtoull(t[1].c_str(), nullptr, 16));
            else if (ty == "O" && t.size() >= 2) acc.outcomes.push_back(strtoull(t[1].c_str(), nullptr, 16));
            else if (ty == "T" && t.size() >= 2) acc.statesSeen.push_back(strtoull(t[1].c_str(), nullptr, 16));
            else if (ty == "S" && t.size() >= 2) sample(recUnescape(t[1]));
            else if (ty == "V" && t.size() >= 4) {
                std::string key = recUnescape(t[1]);
                int have = 0; for (auto& v : acc.viols) if (v.key == key) have++;
                if ((size_t)have < maxViolsPerKey) acc.viols.push_back({key, recUnescape(t[2]), recUnescape(t[3])});
            }
            else if (ty == "K" && t.size() >= 3) acc.violCountByKey[recUnescape(t[1])] += atoll(t[2].c_str());
            else if (ty == "E" && t.size() >= 2) { acc.harnessError = true; acc.harnessErrorMsg = recUnescape(t[1]); }
        }
    }
    void writeEvidence(int64_t newViol, int64_t knownViol) {
        if (replaying()) return;  // a replay never rewrites the evidence of a full run
        std::ostringstream o;
        int64_t states = statesOverride >= 0 ? statesOverride : (int64_t)(acc.statesSeen.empty() ? acc.distinct.size() + acc.distinctBulk : acc.statesSeen.size());
        o << "{\n";
        o << " \"property_id\": \"" << id << "\",\n";
        o << " \"tier\": \"" << (thorough() ? "thorough" : "quick") << "\",\n";
        o << " \"seed\": " << seed << ",\n";
        o << " \"level\": \"" << level << "\",\n";
        o << " \"coverage\": {\n";
        o << "  \"states\": " << states << ",\n";
        o << "  \"transitions\": " << acc.transitions << ",\n";
        o << "  \"traces_validated_against_impl\": " << acc.traces << ",\n";
        o << "  \"evaluations\": " << acc.evaluations << ",\n";
        o << "  \"distinct_nontrivial\": " << (int64_t)acc.distinct.size() + acc.distinctBulk << ",\n";
        o << "  \"distinct_outcomes\": " << acc.outcomes.size() << ",\n";
        o << "  \"rule\": \"" << jsonEscape(rule) << "\",\n";
        if (!explanation.empty()) o << "  \"explanation\": \"" << jsonEscape(explanation) << "\",\n";
        o << "  \"exhaustive\": " << (exhaustive ? "true" : "false") << ",\n";
        if (deadlineS > 0) o << "  \"deadline_s\": " << jsonNum(deadlineS) << ",\n";
        o << "  \"deadline_hit\": " << (acc.expired ? "true" : "false") << ",\n";
        o << "  \"workers\": " << workers << ",\n";
        for (auto& kv : extraCoverage) o << "  \"" << jsonEscape(kv.first) << "\": " << kv.second << ",\n";
        o << "  \"counters\": {";
        { bool first = true; for (auto& kv : acc.counters) { o << (first ? "" : ", ") << "\"" << jsonEscape(kv.first) << "\": " << kv.second; first = false; } }
        o << "},\n";
        o << "  \"oracles\": {";
        { bool first = true; for (auto& kv : acc.worst) {
            o << (first ? "\n" : ",\n") << "   \"" << jsonEscape(kv.first) << "\": {\"checks\": " << kv.second.n << ", \"worst\": " << jsonNum(kv.second.value)
              << ", \"bound\": " << jsonNum(kv.second.bound) << ", \"worst_at\": \"" << jsonEscape(kv.second.where) << "\"}"; first = false; } }
        o << "},\n";
        o << "  \"known_finding_occurrences\": " << knownViol << ",\n";
        o << "  \"violation_keys\": {";
        { bool first = true; for (auto& kv : acc.violCountByKey) { o << (first ? "" : ", ") << "\"" << jsonEscape(kv.first) << "\": {\"count\": " << kv.second << ", \"known\": " << (known_.count(kv.first) ? "true" : "false") << "}"; first = false; } }
        o << "},\n";
        o << "  \"samples\": [";
        { bool first = true; for (auto& s : acc.samples) { o << (first ? "" : ", ") << "\"" << jsonEscape(s) << "\""; first = false; }
          if (acc.samples.empty()) o << "\"(no sample recorded)\""; }
        o << "]\n";
        o << " },\n";
        o << " \"assumptions\": [";
        { bool first = true; for (auto& s : assumptions) { o << (first ? "" : ", ") << "\"" << jsonEscape(s) << "\""; first = false; } }
        o << "],\n";
        o << " \"wall_s\": " << jsonNum(elapsed()) << ",\n";
        o << " \"violations\": " << newViol << "\n";
        o << "}\n";
        std::string tmp = evidencePath + ".tmp";
        { std::ofstream f(tmp); f << o.str(); }
        rename(tmp.c_str(), evidencePath.c_str());
        fprintf(stderr, "[%s] tier=%s evaluations=%lld distinct_nontrivial=%zu states=%lld transitions=%lld outcomes=%zu exhaustive=%s violations=%lld known=%lld wall=%.1fs\n",
                id.c_str(), tier.c_str(), (long long)acc.evaluations, acc.distinct.size() + (size_t)acc.distinctBulk, (long long)states, (long long)acc.transitions,
                acc.outcomes.size(), exhaustive ? "true" : "false", (long long)newViol, (long long)knownViol, elapsed());
    }
};

// Run `sh -c cmd` (stdout+stderr captured) and watch its OUTPUT for progress instead of imposing a wall-clock limit: the command is
// killed only if it prints nothing for idleLimitSec seconds.  A free-running pass on a heavily loaded machine is slow but keeps
// printing its progress lines; a deadlock or lost wake-up prints nothing.  Returns the wait status (or -1); hung=true if killed for silence.
inline int runWatched(const std::string& cmd, int idleLimitSec, std::string& out, bool& hung) {
    hung = false; out.clear();
    int fd[2]; if (pipe(fd) != 0) return -1;
    fflush(stdout); fflush(stderr);
    pid_t p = fork();
    if (p < 0) { close(fd[0]); close(fd[1]); return -1; }
    if (p == 0) {
        setpgid(0, 0);
        dup2(fd[1], 1); dup2(fd[1], 2); close(fd[0]); close(fd[1]);
        execl("/bin/sh", "sh", "-c", cmd.c_str(), (char*)nullptr);
        _exit(127);
    }
    setpgid(p, p);
    close(fd[1]);
    char buf[8192];
    for (;;) {
        struct pollfd pf; pf.fd = fd[0]; pf.events = POLLIN; pf.revents = 0;
        int r = poll(&pf, 1, idleLimitSec * 1000);
        if (r < 0) { if (errno == EINTR) continue; break; }
        if (r == 0) { hung = true; kill(-p, SIGKILL); kill(p, SIGKILL); break; }
        ssize_t n = read(fd[0], buf, sizeof buf);
        if (n <= 0) break;
        if (out.size() < (size_t)64 << 20) out.append(buf, (size_t)n);
    }
    close(fd[0]);
    int st = 0; waitpid(p, &st, 0);
    return st;
}

}  // namespace verif
#endif
