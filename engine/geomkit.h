// geomkit.h -- small independent geometry kit shared by the contact-geometry harnesses
// (C34, C35, C36).  Everything here is reference-side code: it must not call the
// library's geometry algorithms (only Vec3/Mat33 arithmetic from SimTKcommon).
#ifndef VERIF_GEOMKIT_H_
#define VERIF_GEOMKIT_H_

#include "SimTKcommon.h"
#include <array>
#include <cmath>
#include <functional>
#include <map>
#include <string>
#include <vector>

namespace gk {
using SimTK::Vec3; using SimTK::Mat33; using SimTK::Real;

inline std::string s3(const Vec3& v) {
    char b[128]; snprintf(b, sizeof b, "(%.17g,%.17g,%.17g)", v[0], v[1], v[2]); return b;
}
inline std::string sd(double v) { char b[40]; snprintf(b, sizeof b, "%.17g", v); return b; }
inline uint64_t hashVec(const Vec3& v, uint64_t h) {
    for (int i = 0; i < 3; ++i) { double d = v[i] == 0 ? 0.0 : v[i]; const unsigned char* p = (const unsigned char*)&d; for (int k = 0; k < 8; ++k) { h ^= p[k]; h *= 1099511628211ULL; } }
    return h;
}
inline bool finite3(const Vec3& v) { return std::isfinite(v[0]) && std::isfinite(v[1]) && std::isfinite(v[2]); }

// The 26 lattice directions {-1,0,1}^3 \ {0} (not normalised), fixed order.
inline std::vector<Vec3> dirs26() {
    std::vector<Vec3> d;
    for (int x = -1; x <= 1; ++x) for (int y = -1; y <= 1; ++y) for (int z = -1; z <= 1; ++z)
        if (x || y || z) d.push_back(Vec3(x, y, z));
    return d;
}
inline int dirClass(const Vec3& d) { return (d[0] != 0) + (d[1] != 0) + (d[2] != 0); }   // 1 face, 2 edge, 3 vertex

// The 24 proper rotations of the cube (signed permutation matrices with det +1), fixed order.
inline std::vector<Mat33> cubeRotations24() {
    std::vector<Mat33> out;
    int perm[6][3] = {{0,1,2},{0,2,1},{1,0,2},{1,2,0},{2,0,1},{2,1,0}};
    for (auto& p : perm) for (int s = 0; s < 8; ++s) {
        Mat33 m(0);
        for (int r = 0; r < 3; ++r) m(r, p[r]) = (s >> r) & 1 ? -1.0 : 1.0;
        if (SimTK::det(m) > 0) out.push_back(m);
    }
    return out;
}
// A fixed generic (non-lattice) rotation: angles are plain decimal numbers.
inline Mat33 genericRotation(int which) {
    double a[3][3] = {{0.37, -0.81, 0.23}, {1.13, 0.29, -0.67}, {-0.45, 0.58, 1.91}};
    const double* e = a[which % 3];
    auto rx = [](double t) { Mat33 m(1); m(1,1) = cos(t); m(1,2) = -sin(t); m(2,1) = sin(t); m(2,2) = cos(t); return m; };
    auto ry = [](double t) { Mat33 m(1); m(0,0) = cos(t); m(0,2) = sin(t); m(2,0) = -sin(t); m(2,2) = cos(t); return m; };
    auto rz = [](double t) { Mat33 m(1); m(0,0) = cos(t); m(0,1) = -sin(t); m(1,0) = sin(t); m(1,1) = cos(t); return m; };
    return rz(e[2]) * ry(e[1]) * rx(e[0]);
}

// ------------------------------------------------------------------ reference meshes
struct RefMesh {
    std::vector<Vec3> v;
    std::vector<std::array<int,3>> f;     // counter-clockwise seen from outside
    std::string name;
};
inline RefMesh tetrahedron(Real r = 1) {
    RefMesh m; m.name = "tetrahedron";
    m.v = {Vec3(r, r, r), Vec3(r, -r, -r), Vec3(-r, r, -r), Vec3(-r, -r, r)};
    m.f = {{0,1,2}, {0,3,1}, {0,2,3}, {1,3,2}};
    return m;
}
inline RefMesh octahedron(Real r = 1) {
    RefMesh m; m.name = "octahedron";
    m.v = {Vec3(r,0,0), Vec3(-r,0,0), Vec3(0,r,0), Vec3(0,-r,0), Vec3(0,0,r), Vec3(0,0,-r)};
    m.f = {{0,2,4}, {2,1,4}, {1,3,4}, {3,0,4}, {2,0,5}, {1,2,5}, {3,1,5}, {0,3,5}};
    return m;
}
inline RefMesh boxMesh(const Vec3& h) {
    RefMesh m; m.name = "box";
    for (int i = 0; i < 8; ++i) m.v.push_back(Vec3(i & 4 ? h[0] : -h[0], i & 2 ? h[1] : -h[1], i & 1 ? h[2] : -h[2]));
    int q[6][4] = {{4,6,7,5}, {0,1,3,2}, {2,3,7,6}, {0,4,5,1}, {1,5,7,3}, {0,2,6,4}};   // +x -x +y -y +z -z, ccw from outside
    for (auto& a : q) { m.f.push_back({a[0], a[1], a[2]}); m.f.push_back({a[0], a[2], a[3]}); }
    return m;
}
inline RefMesh icosphere(int subdiv, Real r = 1) {
    RefMesh m; m.name = "icosphere" + std::to_string(subdiv);
    const double t = (1 + std::sqrt(5.0)) / 2;
    m.v = {Vec3(-1,t,0), Vec3(1,t,0), Vec3(-1,-t,0), Vec3(1,-t,0), Vec3(0,-1,t), Vec3(0,1,t), Vec3(0,-1,-t), Vec3(0,1,-t),
           Vec3(t,0,-1), Vec3(t,0,1), Vec3(-t,0,-1), Vec3(-t,0,1)};
    m.f = {{0,11,5},{0,5,1},{0,1,7},{0,7,10},{0,10,11},{1,5,9},{5,11,4},{11,10,2},{10,7,6},{7,1,8},
           {3,9,4},{3,4,2},{3,2,6},{3,6,8},{3,8,9},{4,9,5},{2,4,11},{6,2,10},{8,6,7},{9,8,1}};
    for (auto& p : m.v) p = p * (r / p.norm());
    for (int s = 0; s < subdiv; ++s) {
        std::map<std::pair<int,int>, int> mid;
        auto midpoint = [&](int a, int b) {
            auto key = std::make_pair(std::min(a, b), std::max(a, b));
            auto it = mid.find(key); if (it != mid.end()) return it->second;
            Vec3 p = (m.v[a] + m.v[b]) / 2; p = p * (r / p.norm());
            m.v.push_back(p); return mid[key] = (int)m.v.size() - 1;
        };
        std::vector<std::array<int,3>> nf;
        for (auto& f : m.f) {
            int a = midpoint(f[0], f[1]), b = midpoint(f[1], f[2]), c = midpoint(f[2], f[0]);
            nf.push_back({f[0], a, c}); nf.push_back({f[1], b, a}); nf.push_back({f[2], c, b}); nf.push_back({a, b, c});
        }
        m.f = nf;
    }
    return m;
}
inline RefMesh transformed(const RefMesh& in, const Mat33& A, const Vec3& t, const std::string& suffix) {
    RefMesh m = in; m.name += suffix;
    for (auto& p : m.v) p = A * p + t;
    if (SimTK::det(A) < 0) for (auto& f : m.f) std::swap(f[1], f[2]);
    return m;
}

// ------------------------------------------------------------------ point / triangle, ray / triangle
inline Vec3 closestOnSegment(const Vec3& q, const Vec3& a, const Vec3& b) {
    Vec3 ab = b - a; double L2 = ab.normSqr();
    if (L2 == 0) return a;
    double s = SimTK::dot(q - a, ab) / L2; s = s < 0 ? 0 : (s > 1 ? 1 : s);
    return a + s * ab;
}
// Closest point of triangle abc to q: orthogonal projection if it falls inside, else the best of the three
// edges.  Returns squared distance.  (Deliberately not Eberly's region method used by the library.)
inline double closestPtTriangle(const Vec3& q, const Vec3& a, const Vec3& b, const Vec3& c, Vec3& cp) {
    Vec3 n = (b - a) % (c - a); double n2 = n.normSqr();
    double best = INFINITY;
    if (n2 > 0) {
        Vec3 p = q - n * (SimTK::dot(q - a, n) / n2);
        double wa = SimTK::dot((b - p) % (c - p), n), wb = SimTK::dot((c - p) % (a - p), n), wc = SimTK::dot((a - p) % (b - p), n);
        if (wa >= 0 && wb >= 0 && wc >= 0) { cp = p; best = (q - p).normSqr(); }
    }
    const Vec3* e[3][2] = {{&a, &b}, {&b, &c}, {&c, &a}};
    for (auto& s : e) { Vec3 p = closestOnSegment(q, *s[0], *s[1]); double d2 = (q - p).normSqr(); if (d2 < best) { best = d2; cp = p; } }
    return best;
}
struct RayTri { bool hit = false; double t = 0, margin = 0, cosIncidence = 0; };
// Moeller-Trumbore.  margin = min barycentric coordinate of the plane hit (negative => outside the triangle).
inline RayTri rayTriangle(const Vec3& o, const Vec3& d, const Vec3& a, const Vec3& b, const Vec3& c) {
    RayTri r; Vec3 e1 = b - a, e2 = c - a; Vec3 n = e1 % e2; double nn = n.norm();
    r.cosIncidence = nn > 0 ? SimTK::dot(n, d) / (nn * d.norm()) : 0;
    Vec3 pv = d % e2; double det = SimTK::dot(e1, pv);
    if (det == 0) return r;
    Vec3 tv = o - a; double u = SimTK::dot(tv, pv) / det; Vec3 qv = tv % e1; double v = SimTK::dot(d, qv) / det;
    r.t = SimTK::dot(e2, qv) / det; r.margin = std::min(std::min(u, v), 1 - u - v); r.hit = r.margin >= 0;
    return r;
}

// ------------------------------------------------------------------ finite differences
// 4th-order central first derivative with a Richardson pair (extrapolated); ok=false when (h, h/2) disagree by
// more than agreeTol (the caller then skips the comparison and counts the skip).
inline double fd1(const std::function<double(double)>& f, double h, double agreeTol, bool& ok) {
    auto d = [&](double s) { return (-f(2 * s) + 8 * f(s) - 8 * f(-s) + f(-2 * s)) / (12 * s); };
    double a = d(h), b = d(h / 2);
    ok = std::isfinite(a) && std::isfinite(b) && std::abs(a - b) <= agreeTol;
    return (16 * b - a) / 15;   // Richardson extrapolation: error << |a-b|/15 when the pair agrees
}
// 4th-order central second derivative with a Richardson pair.
inline double fd2(const std::function<double(double)>& f, double h, double agreeTol, bool& ok) {
    double f0 = f(0);
    auto d = [&](double s) { return (-f(2 * s) + 16 * f(s) - 30 * f0 + 16 * f(-s) - f(-2 * s)) / (12 * s * s); };
    double a = d(h), b = d(h / 2);
    ok = std::isfinite(a) && std::isfinite(b) && std::abs(a - b) <= agreeTol;
    return (16 * b - a) / 15;
}

// ------------------------------------------------------------------ ellipsoid distance / overlap oracles (used by C35)
// Jacobi eigen-decomposition of a symmetric 3x3 matrix: M = V diag(w) V^T.
inline void symEig3(const Mat33& Min, Vec3& w, Mat33& V) {
    Mat33 A = Min; V = Mat33(1);
    for (int sweep = 0; sweep < 60; ++sweep) {
        double off = std::abs(A(0,1)) + std::abs(A(0,2)) + std::abs(A(1,2));
        double diag = std::abs(A(0,0)) + std::abs(A(1,1)) + std::abs(A(2,2));
        if (off <= 1e-18 * diag) break;
        for (int p = 0; p < 2; ++p) for (int q = p + 1; q < 3; ++q) {
            if (A(p,q) == 0) continue;
            double theta = (A(q,q) - A(p,p)) / (2 * A(p,q));
            double t = (theta >= 0 ? 1 : -1) / (std::abs(theta) + std::sqrt(theta * theta + 1));
            double c = 1 / std::sqrt(t * t + 1), sn = t * c;
            Mat33 J(1); J(p,p) = c; J(q,q) = c; J(p,q) = sn; J(q,p) = -sn;
            A = J.transpose() * A * J; V = V * J;
        }
    }
    w = Vec3(A(0,0), A(1,1), A(2,2));
}
// Distance from a point y strictly OUTSIDE the axis-aligned ellipsoid sum (x_i/e_i)^2 = 1 to the ellipsoid, by bisection on
// the Lagrange multiplier (unique positive root; zero coordinates are harmless for outside points).  x = closest point.
inline double distOutsidePointToEllipsoid(const Vec3& e, const Vec3& y, Vec3& x) {
    auto F = [&](double t) { double s = 0; for (int i = 0; i < 3; ++i) { double r = e[i] * y[i] / (t + e[i] * e[i]); s += r * r; } return s - 1; };
    double lo = 0, hi = std::max(std::max(e[0], e[1]), e[2]) * y.norm() + 1e-300;
    while (F(hi) > 0) hi *= 2;
    for (int it = 0; it < 200; ++it) { double mid = (lo + hi) / 2; if (mid == lo || mid == hi) break; (F(mid) > 0 ? lo : hi) = mid; }
    double t = (lo + hi) / 2;
    for (int i = 0; i < 3; ++i) x[i] = e[i] * e[i] * y[i] / (t + e[i] * e[i]);
    return (x - y).norm();
}
// Sign-exact overlap margin of ellipsoid A (radii a, at the origin, axis aligned) and ellipsoid B (radii b, rotation R, centre c):
// scale space so that A is the unit ball; the margin is (distance from the origin to the image of B) - 1, or -1 if the origin
// is inside the image of B.  margin < 0 <=> the solids overlap.
inline double ellipsoidOverlapMargin(const Vec3& a, const Vec3& b, const Mat33& R, const Vec3& c) {
    Mat33 S(0), D(0); for (int i = 0; i < 3; ++i) { S(i,i) = a[i]; D(i,i) = 1 / (b[i] * b[i]); }
    Mat33 M = S * R * D * R.transpose() * S; M = (M + M.transpose()) / 2;
    Vec3 w; Mat33 V; symEig3(M, w, V);
    Vec3 e(1 / std::sqrt(w[0]), 1 / std::sqrt(w[1]), 1 / std::sqrt(w[2]));
    Vec3 cp(c[0] / a[0], c[1] / a[1], c[2] / a[2]);
    Vec3 y = V.transpose() * (-cp);
    double lvl = 0; for (int i = 0; i < 3; ++i) lvl += (y[i] / e[i]) * (y[i] / e[i]);
    if (lvl <= 1) return -1;
    Vec3 x; return distOutsidePointToEllipsoid(e, y, x) - 1;
}

// ------------------------------------------------------------------ triangle / triangle intersection, three-valued
inline double orient3(const Vec3& a, const Vec3& b, const Vec3& c, const Vec3& d) { return SimTK::dot(a - d, (b - d) % (c - d)); }
inline double segSegDist(const Vec3& p1, const Vec3& q1, const Vec3& p2, const Vec3& q2) {
    Vec3 d1 = q1 - p1, d2 = q2 - p2, r = p1 - p2; double a = d1.normSqr(), e = d2.normSqr(), f = SimTK::dot(d2, r), s, t;
    auto clamp01 = [](double x) { return x < 0 ? 0.0 : (x > 1 ? 1.0 : x); };
    if (a <= 0 && e <= 0) return r.norm();
    if (a <= 0) { s = 0; t = clamp01(f / e); }
    else { double c = SimTK::dot(d1, r);
        if (e <= 0) { t = 0; s = clamp01(-c / a); }
        else { double b = SimTK::dot(d1, d2), den = a * e - b * b; s = den > 0 ? clamp01((b * f - c * e) / den) : 0; t = (b * s + f) / e;
               if (t < 0) { t = 0; s = clamp01(-c / a); } else if (t > 1) { t = 1; s = clamp01((b - c) / a); } } }
    return ((p1 + d1 * s) - (p2 + d2 * t)).norm();
}
// segment pq against triangle abc: 1 = crosses the interior, 0 = definitely misses, -1 = touching / too close to call.
// eps is a volume (length^3) tolerance for the orientation predicates, lenTol a length tolerance for the coplanar case.
inline int segTri(const Vec3& p, const Vec3& q, const Vec3& a, const Vec3& b, const Vec3& c, double eps, double lenTol) {
    double s1 = orient3(a, b, c, p), s2 = orient3(a, b, c, q);
    if ((s1 > eps && s2 > eps) || (s1 < -eps && s2 < -eps)) return 0;
    if (std::abs(s1) <= eps && std::abs(s2) <= eps) {
        // segment in the plane of the triangle: decide by in-plane distance
        Vec3 cp; double d = std::min(std::sqrt(closestPtTriangle(p, a, b, c, cp)), std::sqrt(closestPtTriangle(q, a, b, c, cp)));
        d = std::min(d, std::min(segSegDist(p, q, a, b), std::min(segSegDist(p, q, b, c), segSegDist(p, q, c, a))));
        return d > lenTol ? 0 : -1;
    }
    double o1 = orient3(p, q, a, b), o2 = orient3(p, q, b, c), o3 = orient3(p, q, c, a);
    if ((o1 > eps && o2 > eps && o3 > eps) || (o1 < -eps && o2 < -eps && o3 < -eps)) return (std::abs(s1) <= eps || std::abs(s2) <= eps) ? -1 : 1;
    double mx = std::max(o1, std::max(o2, o3)), mn = std::min(o1, std::min(o2, o3));
    if (mx > eps && mn < -eps) return 0;
    return -1;
}
// 1 = the triangles cross, 0 = disjoint, -1 = touching / coplanar-overlapping / too close to call.
inline int triTri(const Vec3 t1[3], const Vec3 t2[3], double eps, double lenTol) {
    bool uncertain = false;
    for (int k = 0; k < 3; ++k) {
        int r = segTri(t1[k], t1[(k + 1) % 3], t2[0], t2[1], t2[2], eps, lenTol); if (r == 1) return 1; if (r < 0) uncertain = true;
        r = segTri(t2[k], t2[(k + 1) % 3], t1[0], t1[1], t1[2], eps, lenTol); if (r == 1) return 1; if (r < 0) uncertain = true;
    }
    return uncertain ? -1 : 0;
}

}  // namespace gk
#endif
