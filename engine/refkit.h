// refkit.h -- boring dense reference arithmetic (long double) and finite-difference helpers
// used by the oracles.  Deliberately shares no code with the library under test.
#ifndef VERIF_REFKIT_H_
#define VERIF_REFKIT_H_

#include <cmath>
#include <functional>
#include <vector>

namespace ref {
typedef long double LD;

struct DMat {
    int r = 0, c = 0;
    std::vector<LD> a;
    DMat() {}
    DMat(int r, int c, LD v = 0) : r(r), c(c), a((size_t)r * c, v) {}
    LD& operator()(int i, int j) { return a[(size_t)i * c + j]; }
    LD operator()(int i, int j) const { return a[(size_t)i * c + j]; }
    static DMat identity(int n) { DMat m(n, n); for (int i = 0; i < n; ++i) m(i, i) = 1; return m; }
};
inline DMat mul(const DMat& A, const DMat& B) {
    DMat C(A.r, B.c);
    for (int i = 0; i < A.r; ++i) for (int k = 0; k < A.c; ++k) { LD v = A(i, k); if (v == 0) continue; for (int j = 0; j < B.c; ++j) C(i, j) += v * B(k, j); }
    return C;
}
inline DMat transpose(const DMat& A) { DMat T(A.c, A.r); for (int i = 0; i < A.r; ++i) for (int j = 0; j < A.c; ++j) T(j, i) = A(i, j); return T; }
inline DMat add(const DMat& A, const DMat& B, LD sb = 1) { DMat C(A.r, A.c); for (size_t i = 0; i < A.a.size(); ++i) C.a[i] = A.a[i] + sb * B.a[i]; return C; }
inline LD maxAbs(const DMat& A) { LD m = 0; for (LD v : A.a) { LD x = fabsl(v); if (!(x <= m)) m = x; } return m; }   // NaN propagates
inline LD maxAbsDiff(const DMat& A, const DMat& B) { return maxAbs(add(A, B, -1)); }
inline LD normInf(const DMat& A) { LD m = 0; for (int i = 0; i < A.r; ++i) { LD s = 0; for (int j = 0; j < A.c; ++j) s += fabsl(A(i, j)); if (!(s <= m)) m = s; } return m; }
// Cholesky A = L L^T; false if not positive definite
inline bool cholesky(const DMat& A, DMat& L) {
    int n = A.r; L = DMat(n, n);
    for (int j = 0; j < n; ++j) {
        LD d = A(j, j); for (int k = 0; k < j; ++k) d -= L(j, k) * L(j, k);
        if (!(d > 0)) return false;
        L(j, j) = sqrtl(d);
        for (int i = j + 1; i < n; ++i) { LD s = A(i, j); for (int k = 0; k < j; ++k) s -= L(i, k) * L(j, k); L(i, j) = s / L(j, j); }
    }
    return true;
}
// Solve A X = B by Gaussian elimination with partial pivoting; returns false if singular to working precision
inline bool solve(DMat A, DMat B, DMat& X) {
    int n = A.r;
    for (int k = 0; k < n; ++k) {
        int p = k; for (int i = k + 1; i < n; ++i) if (fabsl(A(i, k)) > fabsl(A(p, k))) p = i;
        if (A(p, k) == 0) return false;
        if (p != k) { for (int j = 0; j < n; ++j) std::swap(A(k, j), A(p, j)); for (int j = 0; j < B.c; ++j) std::swap(B(k, j), B(p, j)); }
        for (int i = k + 1; i < n; ++i) {
            LD f = A(i, k) / A(k, k); if (f == 0) continue;
            for (int j = k; j < n; ++j) A(i, j) -= f * A(k, j);
            for (int j = 0; j < B.c; ++j) B(i, j) -= f * B(k, j);
        }
    }
    X = DMat(n, B.c);
    for (int j = 0; j < B.c; ++j) for (int i = n - 1; i >= 0; --i) { LD s = B(i, j); for (int k = i + 1; k < n; ++k) s -= A(i, k) * X(k, j); X(i, j) = s / A(i, i); }
    return true;
}
inline bool inverse(const DMat& A, DMat& Ainv) { return solve(A, DMat::identity(A.r), Ainv); }

// 3-vectors
struct V3 { LD x[3]; LD& operator[](int i) { return x[i]; } LD operator[](int i) const { return x[i]; } };
inline V3 cross(const V3& a, const V3& b) { return {{a[1] * b[2] - a[2] * b[1], a[2] * b[0] - a[0] * b[2], a[0] * b[1] - a[1] * b[0]}}; }
inline LD dot(const V3& a, const V3& b) { return a[0] * b[0] + a[1] * b[1] + a[2] * b[2]; }
inline DMat crossMat(const V3& c) { DMat m(3, 3); m(0, 1) = -c[2]; m(0, 2) = c[1]; m(1, 0) = c[2]; m(1, 2) = -c[0]; m(2, 0) = -c[1]; m(2, 1) = c[0]; return m; }

// 4th-order central difference of a vector-valued function of one variable, with a Richardson pair:
// returns the estimate from step h and writes |est(h) - est(h/2)| component-wise maximum to *disagree.
inline std::vector<LD> fd4(const std::function<std::vector<LD>(LD)>& f, LD t, LD h, LD* disagree = nullptr) {
    auto est = [&](LD hh) {
        auto a = f(t - 2 * hh), b = f(t - hh), c = f(t + hh), d = f(t + 2 * hh);
        std::vector<LD> r(a.size());
        for (size_t i = 0; i < a.size(); ++i) r[i] = (a[i] - 8 * b[i] + 8 * c[i] - d[i]) / (12 * hh);
        return r;
    };
    auto e1 = est(h);
    if (disagree) { auto e2 = est(h / 2); LD m = 0; for (size_t i = 0; i < e1.size(); ++i) { LD x = fabsl(e1[i] - e2[i]); if (!(x <= m)) m = x; } *disagree = m; return e2; }
    return e1;
}
}  // namespace ref
#endif
