// mbchart.h -- local chart of the configuration manifold around a state, for finite-difference
// oracles over the shared multibody alphabet (C02, C03).
//
//   theta in R^nu  |->  q(theta) = renorm( q0 + N(q0) * theta )
//
// where renorm() rescales every quaternion block in use to unit length (what the State's
// normalisation does) and leaves all other coordinates alone.  At theta = 0 the chart's
// tangent map dq/dtheta equals N(q0), so a curve theta(t) = t*u0 passes through q0 with
// qdot = N(q0)*u0 and a generalized force conjugate to theta equals the mobility force
// conjugate to u.  The chart is a true coordinate system of the configuration manifold
// whenever nq-in-use minus quaternion constraints equals nu (all kinds except
// LineOrientation / FreeLine, whose 2 rotational speeds are non-holonomic).
//
// Only kinematic library calls are used: multiplyByN at the base point.
#ifndef VERIF_MBCHART_H_
#define VERIF_MBCHART_H_

#include "models.h"
#include "refkit.h"
#include <map>

namespace mbchart {
using namespace SimTK;
using ref::LD; using ref::DMat;

struct Chart {
    int nq = 0, nu = 0;
    std::vector<LD> q0;
    DMat N0;                       // nq x nu, columns = multiplyByN(e_i) at the base state
    std::vector<int> quatStart;    // first q index of each quaternion in use
    LD quatNormDefect = 0;         // max | |q0 block| - 1 | at the base point (sanity)
};

// s must be realized to Stage::Position.
inline Chart makeChart(const mb::Model& M, const State& s) {
    Chart c; c.nq = s.getNQ(); c.nu = s.getNU();
    c.q0.resize(c.nq); for (int k = 0; k < c.nq; ++k) c.q0[k] = s.getQ()[k];
    c.N0 = DMat(c.nq, c.nu);
    Vector e(c.nu), out(c.nq);
    for (int i = 0; i < c.nu; ++i) {
        e = 0; e[i] = 1; out = 0;
        M.matter.multiplyByN(s, false, e, out);
        for (int k = 0; k < c.nq; ++k) c.N0(k, i) = out[k];
    }
    for (int b = 0; b < (int)M.bodies.size(); ++b) {
        if (M.matter.isUsingQuaternion(s, M.bodies[b].getMobilizedBodyIndex())) {
            int a = (int)M.bodies[b].getFirstQIndex(s);   // every quaternion kind stores it in its first 4 q's
            c.quatStart.push_back(a);
            LD n2 = 0; for (int k = 0; k < 4; ++k) n2 += c.q0[a + k] * c.q0[a + k];
            LD d = fabsl(sqrtl(n2) - 1); if (!(d <= c.quatNormDefect)) c.quatNormDefect = d;
        }
    }
    return c;
}

// q(theta); optionally the tangent map G = dq/dtheta (nq x nu) at theta.
inline void eval(const Chart& c, const std::vector<LD>& theta, std::vector<LD>& q, DMat* G = nullptr) {
    q.assign(c.nq, 0);
    for (int k = 0; k < c.nq; ++k) { LD v = c.q0[k]; for (int i = 0; i < c.nu; ++i) v += c.N0(k, i) * theta[i]; q[k] = v; }
    if (G) *G = c.N0;
    for (int a : c.quatStart) {
        LD n2 = 0; for (int k = 0; k < 4; ++k) n2 += q[a + k] * q[a + k];
        LD n = sqrtl(n2);
        LD vh[4]; for (int k = 0; k < 4; ++k) vh[k] = q[a + k] / n;
        if (G) for (int i = 0; i < c.nu; ++i) {      // d(v/|v|) = (dv - vh (vh.dv)) / |v|
            LD d = 0; for (int k = 0; k < 4; ++k) d += vh[k] * (*G)(a + k, i);
            for (int k = 0; k < 4; ++k) (*G)(a + k, i) = ((*G)(a + k, i) - vh[k] * d) / n;
        }
        for (int k = 0; k < 4; ++k) q[a + k] = vh[k];
    }
}

// Put q(theta) into the state (invalidates Position and above).
inline void setQ(State& w, const std::vector<LD>& q) {
    Vector& sq = w.updQ();
    for (int k = 0; k < (int)q.size(); ++k) sq[k] = (double)q[k];
}

// In-place variant of mbref::jacobianRef: body velocities read back with u = e_i.  The state's
// u is overwritten (left at the last unit vector); the caller restores what it needs.
inline DMat jacobianInPlace(const mb::Model& M, State& t) {
    const int nb = (int)M.bodies.size(), nu = t.getNU();
    DMat J(6 * nb, nu);
    for (int i = 0; i < nu; ++i) {
        Vector& u = t.updU(); u = 0; u[i] = 1;
        M.system.realize(t, Stage::Velocity);
        for (int b = 0; b < nb; ++b) {
            const SpatialVec& V = M.bodies[b].getBodyVelocity(t);
            for (int k = 0; k < 3; ++k) { J(6 * b + k, i) = V[0][k]; J(6 * b + 3 + k, i) = V[1][k]; }
        }
    }
    return J;
}

// memoising wrapper so that the Richardson pair of ref::fd4 shares its common sample points
struct Memo {
    std::function<std::vector<LD>(LD)> f;
    std::map<LD, std::vector<LD> > cache;
    int64_t evals = 0;
    const std::vector<LD>& operator()(LD t) {
        auto it = cache.find(t);
        if (it == cache.end()) { it = cache.emplace(t, f(t)).first; ++evals; }
        return it->second;
    }
};

}  // namespace mbchart
#endif
