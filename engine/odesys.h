// odesys.h -- a tiny SimTK::System whose equations are supplied by the harness.
//
//   qdot = u,   udot = fu(t,q,u,z;d),   zdot = fz(t,q,u,z;d)        (nq == nu, nz >= 0)
//   d = nd discrete Real parameters (state variables invalidating Stage::Dynamics; only event
//   handlers change them)
//
// No constraints, no prescribed motion.  Event handlers / reporters are added with the
// ordinary System::addEventHandler()/addEventReporter() (they live in the default
// subsystem, which also owns the state variables).  Used by C19, C22, C20 so that the
// integrators are driven through exactly the System interface the library documents
// (same pattern as SimTKmath/tests/PendulumSystem.h), at a few microseconds per realize.
#ifndef VERIF_ODESYS_H_
#define VERIF_ODESYS_H_

#include "SimTKcommon.h"
#include "SimTKcommon/internal/SystemGuts.h"

#include <exception>
#include <functional>
#include <string>
#include <vector>

namespace odesys {
using namespace SimTK;

// udot and zdot are pre-sized (nq, nz); fill them.
typedef std::function<void(Real t, const Vector& q, const Vector& u, const Vector& z, const Vector& d,
                           Vector& udot, Vector& zdot)> RhsFn;

// Work budget: a harness may bound the number of realizations the library performs inside one call (a request
// that loops forever inside the library still realizes the state in every iteration).  When the budget is
// exhausted every further realization throws WorkBudgetExceeded, which unwinds through the library as an
// ordinary C++ exception (no signals, no longjmp).  budget < 0: unlimited.
struct WorkBudgetExceeded : std::exception {
    const char* what() const noexcept override { return "odesys work budget exceeded: the call does not terminate"; }
};
inline long& workBudget() { static long b = -1; return b; }
inline void spendWork() { long& b = workBudget(); if (b < 0) return; if (b == 0) throw WorkBudgetExceeded(); --b; }
inline bool isBudgetMessage(const std::string& what) { return what.find("odesys work budget exceeded") != std::string::npos; }

class OdeSystem;
class OdeGuts : public System::Guts {
    friend class OdeSystem;
    SubsystemIndex subsys;
    int nq = 0, nz = 0, nd = 0;
    RhsFn rhs;
    mutable QIndex q0; mutable UIndex u0; mutable ZIndex z0;
    mutable Array_<DiscreteVariableIndex> dix;
    std::vector<Stage> dStages;     // optional: the stage discrete variable i invalidates (default Stage::Dynamics)
public:
    OdeGuts() : Guts() {}
    OdeGuts* cloneImpl() const override { return new OdeGuts(*this); }
    SubsystemIndex getSubsys() const { return subsys; }

    int realizeTopologyImpl(State& s) const override {
        if (nq) { q0 = s.allocateQ(subsys, Vector(nq, Real(0))); u0 = s.allocateU(subsys, Vector(nq, Real(0))); }
        if (nz) z0 = s.allocateZ(subsys, Vector(nz, Real(0)));
        dix.clear();
        for (int i = 0; i < nd; ++i)
            dix.push_back(s.allocateDiscreteVariable(subsys, i < (int)dStages.size() ? dStages[i] : Stage(Stage::Dynamics), new Value<Real>(0)));
        return 0;
    }
    int realizeVelocityImpl(const State& s) const override {
        spendWork();
        if (nq) s.updQDot(subsys) = s.getU(subsys);
        return 0;
    }
    int realizeAccelerationImpl(const State& s) const override {
        spendWork();
        Vector udot(nq), zdot(nz);
        Vector q(nq), u(nq), z(nz);
        if (nq) { q = s.getQ(subsys); u = s.getU(subsys); }
        if (nz) z = s.getZ(subsys);
        Vector d(nd);
        for (int i = 0; i < nd; ++i) d[i] = Value<Real>::downcast(s.getDiscreteVariable(subsys, dix[i])).get();
        rhs(s.getTime(), q, u, z, d, udot, zdot);
        if (nq) { s.updUDot(subsys) = udot; s.updQDotDot() = udot; }
        if (nz) s.updZDot(subsys) = zdot;
        return 0;
    }
    void multiplyByNImpl(const State&, const Vector& u, Vector& dq) const override { dq = u; }
    void multiplyByNTransposeImpl(const State&, const Vector& fq, Vector& fu) const override { fu = fq; }
    void multiplyByNPInvImpl(const State&, const Vector& dq, Vector& u) const override { u = dq; }
    void multiplyByNPInvTransposeImpl(const State&, const Vector& fu, Vector& fq) const override { fq = fu; }
};

class OdeSystem : public System {
public:
    OdeSystem(int nq, int nz, RhsFn rhs, int nd = 0) : System() {
        adoptSystemGuts(new OdeGuts());
        DefaultSystemSubsystem defsub(*this);
        OdeGuts& g = updGuts();
        g.subsys = defsub.getMySubsystemIndex();
        g.nq = nq; g.nz = nz; g.nd = nd; g.rhs = rhs;
        setHasTimeAdvancedEvents(false);
    }
    const OdeGuts& getGuts() const { return dynamic_cast<const OdeGuts&>(getSystemGuts()); }
    OdeGuts& updGuts() { return dynamic_cast<OdeGuts&>(updSystemGuts()); }
    SubsystemIndex subsys() const { return getGuts().subsys; }
    // Discrete variable i invalidates stage g instead of Stage::Dynamics (call before makeState()).  The right-hand
    // side reads the variables while realizing Stage::Acceleration, so Dynamics and Acceleration are both legitimate.
    void setDiscreteVariableStage(int i, Stage g) {
        std::vector<Stage>& v = updGuts().dStages;
        while ((int)v.size() <= i) v.push_back(Stage(Stage::Dynamics));
        v[i] = g;
    }

    // Realize topology + model and return an initial state with the given values.
    State makeState(Real t, const Vector& q, const Vector& u, const Vector& z) {
        realizeTopology();
        State s = getDefaultState();
        realizeModel(s);
        s.updTime() = t;
        if (getGuts().nq) { s.updQ(subsys()) = q; s.updU(subsys()) = u; }
        if (getGuts().nz) s.updZ(subsys()) = z;
        return s;
    }
    Real q(const State& s, int i) const { return s.getQ(subsys())[i]; }
    Real u(const State& s, int i) const { return s.getU(subsys())[i]; }
    Real z(const State& s, int i) const { return s.getZ(subsys())[i]; }
    Real d(const State& s, int i) const { return Value<Real>::downcast(s.getDiscreteVariable(subsys(), getGuts().dix[i])).get(); }
    void setD(State& s, int i, Real v) const { Value<Real>::updDowncast(s.updDiscreteVariable(subsys(), getGuts().dix[i])).upd() = v; }
    void setQ(State& s, int i, Real v) const { s.updQ(subsys())[i] = v; }
    void setU(State& s, int i, Real v) const { s.updU(subsys())[i] = v; }
};

}  // namespace odesys
#endif
