#!/bin/bash
# setup_cmd: build the hook-enabled libraries from /repo and every harness, offline.
set -u
cd "$(dirname "$0")/.."
export OPENBLAS_NUM_THREADS=1
REPO=${VERIF_REPO:-/repo}
mkdir -p build/bin build/tmp build/dep evidence replays
if [ ! -f build/hook/build.ninja ]; then
  cmake -G Ninja -S "$REPO" -B build/hook -DCMAKE_BUILD_TYPE=Release \
    "-DCMAKE_CXX_FLAGS=-DSIMBODY_VERIF -Wno-error" -DBUILD_TESTING=OFF -DBUILD_EXAMPLES=OFF \
    -DBUILD_VISUALIZER=OFF -DINSTALL_DOCS=OFF > build/cmake.log 2>&1 || { tail -30 build/cmake.log; exit 2; }
fi
ninja -C build/hook > build/ninja.log 2>&1 || { tail -40 build/ninja.log; exit 2; }
targets=""
for f in harness/C*.cpp; do id=$(basename "$f" .cpp); targets="$targets build/bin/$id"; done
make -s -j16 -k -f harness/Makefile REPO="$REPO" $targets > build/harness.log 2>&1 || { tail -60 build/harness.log; exit 2; }
# TSan variants used by the race passes
for id in $(grep -l '^// *VERIF_TSAN_SOURCES' harness/C*.cpp | xargs -n1 basename | sed 's/\.cpp$//'); do
  make -s -f harness/Makefile REPO="$REPO" build/bin/${id}_tsan >> build/harness.log 2>&1 || { tail -40 build/harness.log; exit 2; }
done
echo "setup ok: $(ls build/bin | wc -l) harness binaries"
