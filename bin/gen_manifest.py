#!/usr/bin/env python3
"""Assemble MANIFEST.json from checks/<ID>.json fragments (one per claimed property)
and checks/not_applicable.json (reasons for the unclaimed ones)."""
import json, os, sys, glob
V = os.path.dirname(os.path.dirname(os.path.abspath(__file__)))
props = [json.loads(l)["id"] for l in open(os.path.join(V, "properties.jsonl"))]
enabled = set(l.strip() for l in open(os.path.join(V, "checks", "ENABLED")) if l.strip() and not l.startswith("#"))
frag = {}
for f in sorted(glob.glob(os.path.join(V, "checks", "C*.json"))):
    d = json.load(open(f))
    if d["property_id"] in enabled:
        frag[d["property_id"]] = d
na_reasons = {}
p = os.path.join(V, "checks", "not_applicable.json")
if os.path.exists(p):
    na_reasons = json.load(open(p))
checks, na = [], []
for pid in props:
    if pid in frag:
        d = frag[pid]
        c = {
            "property_id": pid,
            "quick_cmd": f"bin/check {pid} --tier quick",
            "thorough_cmd": f"bin/check {pid} --tier thorough",
            "evidence_file": f"/verif/evidence/{pid}.json",
            "replay_cmd_template": f"bin/check {pid} --replay {{path}}",
            "engine": d.get("engine", "enum"),
            "level_claimed": {"category": d.get("category", "model_checking"), "text": d["text"], "design_ref": d.get("design_ref", "DESIGN.md §3")},
            "level_note": d["level_note"],
            "technique": d["technique"],
        }
        checks.append(c)
    else:
        na.append({"property_id": pid, "reason": na_reasons.get(pid, "no check registered yet: the harness for this property has not been built and validated (design in DESIGN.md §3); not claimed")})
hooks_commits = [l.strip() for l in open(os.path.join(V, "checks", "hook_commits.txt")) if l.strip()]
m = {
    "version": 1,
    "setup_cmd": "bin/setup.sh",
    "hooks": {
        "guard": "SIMBODY_VERIF",
        "enable": "checks configure /verif/build/hook with -DCMAKE_CXX_FLAGS=-DSIMBODY_VERIF (cmake+ninja, incremental from /repo's working tree) and compile harnesses with -DSIMBODY_VERIF",
        "baseline_off_cmd": "cmake --build /repo/_build && ctest --test-dir /repo/_build -j8 --timeout 900",
        "source_commits": hooks_commits,
        "add_only": True,
    },
    "engines": [
        {"name": "sched", "path": "engine/vsched.cpp", "serves_properties": ["C17", "C33"], "kind_free_text": "E1: preemption-bounded stateless exploration of real threads (pthread interposition, baton scheduler, modelled mutex/condvar, optional state-hash pruning) + separate free-running TSan race pass"},
        {"name": "hist", "path": "engine/verif.h", "serves_properties": [], "kind_free_text": "E2: explicit-state search over operation histories replayed on fresh real objects against a reference model"},
        {"name": "enum", "path": "engine/verif.h", "serves_properties": [], "kind_free_text": "E3: bounded-exhaustive enumeration of discrete configurations / input alphabets against independent references"},
    ],
    "checks": checks,
    "not_applicable": na,
    "notes": "All checks rebuild /verif/build/hook from /repo's working tree (ninja, incremental) and their harness (make, depfiles) before running. Exit 0 held / 1 violation / 2 harness or build error. known_findings.txt lists known and fixed findings.",
}
for e in m["engines"]:
    if e["name"] == "hist":
        e["serves_properties"] = [c["property_id"] for c in checks if c["engine"] == "hist"]
    if e["name"] == "enum":
        e["serves_properties"] = [c["property_id"] for c in checks if c["engine"] == "enum"]
json.dump(m, open(os.path.join(V, "MANIFEST.json"), "w"), indent=1)
print(f"MANIFEST.json: {len(checks)} checks, {len(na)} not_applicable")
try:
    import jsonschema
    jsonschema.validate(m, json.load(open("/root/.vp/MANIFEST.schema.json")))
    print("schema ok")
except ImportError:
    pass
